"""C11: the Jacobian formulas of ec_util.EcCurve agree with the textbook affine chord-and-tangent law.

Congruence ("ring") mode: the bodies are executed with every `% self.mod` dropped; the postconditions are integer
polynomial identities over ghost affine coordinates, hence congruences modulo the field prime for the real code, for
EVERY prime (no bound on the field).  The affine law is stated inverse-free: the slope sl of the chord through
(ax1, ay1), (ax2, ay2) satisfies sl * (ax1 - ax2) == ay1 - ay2, the tangent slope satisfies sl * 2*ay == 3*ax^2 + a."""
from pyvc.contracts import contract

E = "paranoid_crypto/lib/ec_util.py"
F = {"a": "int", "b": "int", "mod": "int", "n": "int", "h": "int", "g": "tuple[int,int]"}
REPLAY_CURVE = "EcCurve('replay', self_a, self_b, self_mod, self_g[0], self_g[1], self_n, self_h)"
G = "defined('hcube')"      # the generic branch: the path that reaches the final return


def g(text):
  return ("C11", f"implies({G}, {text})")


@contract(f"{E}::EcCurve.AddJacobian")
class AddJacobian:
  caller_ensures = []     # congruence-mode postconditions are not integer equalities: callers assume nothing
  params = {"p": "jpoint", "q": "jpoint"}
  self_fields = F
  returns = "jpoint"
  congruence_mod = "self.mod"
  requires = ["self.mod >= 3"]
  ghost_params = {"ax1": "int", "ay1": "int", "ax2": "int", "ay2": "int", "sl": "int"}
  ghost_requires = ["p[0] == ax1 * p[2] * p[2]", "p[1] == ay1 * p[2] * p[2] * p[2]",
                    "q[0] == ax2 * q[2] * q[2]", "q[1] == ay2 * q[2] * q[2] * q[2]",
                    "sl * (ax1 - ax2) == ay1 - ay2"]
  return_hints = [
      ("C11", f"let W = (z1 * z2) if {G} else 0"),
      g("by(u1 == ax1 * W * W, x1 == ax1 * z1 * z1, u1 == x1 * (z2 * z2), W == z1 * z2)"),
      g("by(u2 == ax2 * W * W, x2 == ax2 * z2 * z2, u2 == x2 * (z1 * z1), W == z1 * z2)"),
      g("by(s1 == ay1 * W * W * W, y1 == ay1 * z1 * z1 * z1, s1 == y1 * z2 * (z2 * z2), W == z1 * z2)"),
      g("by(s2 == ay2 * W * W * W, y2 == ay2 * z2 * z2 * z2, s2 == y2 * z1 * (z1 * z1), W == z1 * z2)"),
      g("by(h == (ax2 - ax1) * W * W, u1 == ax1 * W * W, u2 == ax2 * W * W, h == u2 - u1)"),
      g("by(r == (ay2 - ay1) * W * W * W, s1 == ay1 * W * W * W, s2 == ay2 * W * W * W, r == s2 - s1)"),
      g("by(z3 == (ax2 - ax1) * W * W * W, h == (ax2 - ax1) * W * W, z3 == h * z1 * z2, W == z1 * z2)"),
      g("by(sl * z3 == r, sl * (ax1 - ax2) == ay1 - ay2, z3 == (ax2 - ax1) * W * W * W, r == (ay2 - ay1) * W * W * W)"),
      g("by(z3 * z3 == h * h * (W * W), z3 == h * z1 * z2, W == z1 * z2)"),
      g("by((ax1 + ax2) * (z3 * z3) == (u1 + u2) * (h * h), z3 * z3 == h * h * (W * W), u1 == ax1 * W * W, "
        "u2 == ax2 * W * W)"),
      # the three claims: Z3, X3 == x3 * Z3^2, Y3 == y3 * Z3^3 with (x3, y3) the affine chord-law result
      g("result[2] == z3 and result[0] == x3 and result[1] == y3"),
      g("by(x3 == (sl * sl - ax1 - ax2) * (z3 * z3), sl * z3 == r, "
        "(ax1 + ax2) * (z3 * z3) == (u1 + u2) * (h * h), x3 == r * r - hcube - 2 * t, hcube == hsqr * h, "
        "hsqr == h * h, t == u1 * hsqr, u2 == u1 + h)"),
      g("by(ax1 * (z3 * z3) == (ax1 * W * W) * (h * h), z3 * z3 == h * h * (W * W))"),
      g("by(ax1 * (z3 * z3) == t, ax1 * (z3 * z3) == (ax1 * W * W) * (h * h), u1 == ax1 * W * W, t == u1 * hsqr, "
        "hsqr == h * h)"),
      g("by(z3 * z3 * z3 == (h * h * h) * (W * W * W), z3 == h * z1 * z2, W == z1 * z2)"),
      g("by(ay1 * (z3 * z3 * z3) == (ay1 * W * W * W) * (h * h * h), z3 * z3 * z3 == (h * h * h) * (W * W * W))"),
      g("by(ay1 * (z3 * z3 * z3) == s1 * hcube, ay1 * (z3 * z3 * z3) == (ay1 * W * W * W) * (h * h * h), "
        "s1 == ay1 * W * W * W, hcube == hsqr * h, hsqr == h * h)"),
      g("by(y3 == (sl * (ax1 - (sl * sl - ax1 - ax2)) - ay1) * (z3 * z3 * z3), sl * z3 == r, "
        "x3 == (sl * sl - ax1 - ax2) * (z3 * z3), ax1 * (z3 * z3) == t, ay1 * (z3 * z3 * z3) == s1 * hcube, "
        "y3 == r * (t - x3) - s1 * hcube)"),
  ]
  ghost_ensures = []
  # ---- value pass (body unmodified): WHICH branch is taken, as a statement about field elements.  With
  # DX = x1*z2^2 - x2*z1^2 and DY = y1*z2^3 - y2*z1^3 (the differences of the affine coordinates, cleared of
  # denominators): infinity operands are returned as the other operand; DX != 0 (mod p) <=> the chord formula above;
  # DX == 0, DY != 0 (mod p) => the point at infinity; DX == DY == 0 (mod p) <=> DoubleJacobian(p).
  value_pass = True
  entry_ghost = ["g_dbl = False"]
  on_call = {f"{E}::EcCurve.DoubleJacobian": ["assert [VALUE] args[0] == p", "g_dbl = True"]}
  ensures = [("VALUE", "implies(p[2] == 0, result == q)"),
             ("VALUE", "implies(p[2] != 0 and q[2] == 0, result == p)")]
  return_hints += [
      ("VALUE", "implies(not defined('u1'), not g_dbl and (p[2] == 0 or q[2] == 0))"),
      ("VALUE", "implies(defined('u1'), p[2] != 0 and q[2] != 0 and "
                "lemma('mod_mul_r', x1, z2 * z2, self.mod) and lemma('mod_mul_r', x2, z1 * z1, self.mod) and "
                "lemma('mod_mul_r', y1 * z2, z2 * z2, self.mod) and lemma('mod_mul_r', y2 * z1, z1 * z1, self.mod))"),
      ("VALUE", "implies(defined('u1'), u1 == (x1 * (z2 * z2)) % self.mod and u2 == (x2 * (z1 * z1)) % self.mod and "
                "s1 == (y1 * z2 * (z2 * z2)) % self.mod and s2 == (y2 * z1 * (z1 * z1)) % self.mod)"),
      ("VALUE", "implies(defined('u1'), lemma('mod_eq_iff', x1 * (z2 * z2), x2 * (z1 * z1), self.mod) and "
                "lemma('mod_eq_iff', y1 * z2 * (z2 * z2), y2 * z1 * (z1 * z1), self.mod))"),
      ("VALUE", "let DX = ((x1 * (z2 * z2) - x2 * (z1 * z1)) % self.mod) if defined('u1') else 0"),
      ("VALUE", "let DY = ((y1 * z2 * (z2 * z2) - y2 * z1 * (z1 * z1)) % self.mod) if defined('u1') else 0"),
      ("VALUE", "implies(defined('u1'), defined('hcube') == (DX != 0))"),
      ("VALUE", "implies(defined('u1') and DX == 0 and DY != 0, result[2] == 0 and not g_dbl)"),
      ("VALUE", "implies(defined('u1'), g_dbl == (DX == 0 and DY == 0))"),
      ("VALUE", "implies(defined('hcube'), 0 <= result[0] and result[0] < self.mod and 0 <= result[1] and "
                "result[1] < self.mod and 0 <= result[2] and result[2] < self.mod)"),
  ]
  props = ["C11"]


def gd(text):
  return ("C11", f"implies(defined('ysqr'), {text})")


@contract(f"{E}::EcCurve.DoubleJacobian")
class DoubleJacobian:
  caller_ensures = []
  params = {"p": "jpoint"}
  self_fields = F
  returns = "jpoint"
  congruence_mod = "self.mod"
  requires = ["self.mod >= 3"]
  # ghost affine point (ax, ay) represented by p and the tangent slope sl (inverse-free): sl * 2*ay == 3*ax^2 + a
  ghost_params = {"ax": "int", "ay": "int", "sl": "int"}
  ghost_requires = ["p[0] == ax * p[2] * p[2]", "p[1] == ay * p[2] * p[2] * p[2]",
                    "sl * (2 * ay) == 3 * ax * ax + self.a"]
  return_hints = [
      ("C11", "let Q = (z * z * z * z) if defined('ysqr') else 0"),
      gd("result[0] == x2 and result[1] == y2 and result[2] == z2"),
      gd("by(z2 == 2 * ay * Q, y == ay * z * z * z, z2 == 2 * y * z, Q == z * z * z * z)"),
      # both variants of m (the a == -3 shortcut and the general formula) equal 3x^2 + a z^4 = sl * z2
      gd("by(m == 3 * x * x + self.a * (z * z) * (z * z), "
         "m == 3 * (x + zsqr) * (x - zsqr) and self.a == 0 - 3 or m == 3 * x * x + self.a * zsqr * zsqr, zsqr == z * z)"),
      gd("by(m == (3 * ax * ax + self.a) * Q, m == 3 * x * x + self.a * (z * z) * (z * z), x == ax * z * z, "
         "Q == z * z * z * z)"),
      gd("by(m == sl * z2, m == (3 * ax * ax + self.a) * Q, sl * (2 * ay) == 3 * ax * ax + self.a, z2 == 2 * ay * Q)"),
      gd("by(s == ax * (z2 * z2), s == 4 * x * ysqr, ysqr == y * y, x == ax * z * z, y == ay * z * z * z, "
         "z2 == 2 * ay * Q, Q == z * z * z * z)"),
      gd("by(x2 == (sl * sl - 2 * ax) * (z2 * z2), x2 == m * m - 2 * s, m == sl * z2, s == ax * (z2 * z2))"),
      gd("by(8 * ysqr * ysqr == ay * (z2 * z2 * z2), ysqr == y * y, y == ay * z * z * z, z2 == 2 * ay * Q, "
         "Q == z * z * z * z)"),
      gd("by(y2 == (sl * (ax - (sl * sl - 2 * ax)) - ay) * (z2 * z2 * z2), y2 == m * (s - x2) - 8 * ysqr * ysqr, "
         "m == sl * z2, s == ax * (z2 * z2), x2 == (sl * sl - 2 * ax) * (z2 * z2), "
         "8 * ysqr * ysqr == ay * (z2 * z2 * z2))"),
      # value pass: the tangent formula is used exactly for finite points with y != 0; otherwise the canonical infinity
      ("VALUE", "defined('ysqr') == (p[2] != 0 and p[1] != 0)"),
      ("VALUE", "implies(defined('ysqr'), 0 <= result[0] and result[0] < self.mod and 0 <= result[1] and "
                "result[1] < self.mod and 0 <= result[2] and result[2] < self.mod)"),
  ]
  value_pass = True
  ensures = [("VALUE", "implies(p[2] == 0 or p[1] == 0, result[0] == 1 and result[1] == 1 and result[2] == 0)")]
  props = ["C11"]


@contract(f"{E}::EcCurve.Add")
class AddAffine:
  caller_ensures = ["(result[0] is None) == (result[1] is None)"]
  params = {"p": "point", "q": "point"}
  self_fields = F
  returns = "point"
  congruence_mod = "self.mod"
  # in a prime field every difference x1 - x2 is 0 or a unit; under that hypothesis (value pass) the chord branch never
  # raises (the doubling branch is Double's business)
  requires = ["self.mod >= 3", "(p[0] is None) == (p[1] is None)", "(q[0] is None) == (q[1] is None)",
              ("VALUE", "p[0] is None or q[0] is None or (p[0] - q[0]) % self.mod == 0 or "
                        "gcd(p[0] - q[0], self.mod) == 1"),
              ("VALUE", "p[0] is None or p[1] % self.mod == 0 or gcd(2 * p[1], self.mod) == 1")]
  value_total = ["ZeroDivisionError"]
  ensures = [("C11", "implies(p[0] is None, result[0] == q[0] and result[1] == q[1])"),
             ("C11", "implies(p[0] is not None and q[0] is None, result[0] == p[0] and result[1] == p[1])"),
             ("VALUE", "implies(p[0] is None, result == q)"),
             ("VALUE", "implies(p[0] is not None and q[0] is None, result == p)")]
  # chord branch: the slope t satisfies t*(x1 - x2) == y1 - y2 (mod p) and (x3, y3) = (t^2 - x1 - x2, t*(x1 - x3) - y1)
  return_hints = [
      ("C11", "implies(defined('inv'), divmod_def(inv * (x1 - x2) - 1, self.mod))"),
      ("C11", "let kk = idiv(inv * (x1 - x2) - 1, self.mod) if defined('inv') else 0"),
      ("C11", "implies(defined('inv'), by(t * (x1 - x2) - (y1 - y2) == self.mod * ((y1 - y2) * kk), "
              "inv * (x1 - x2) - 1 == self.mod * kk, t == (y1 - y2) * inv))"),
      ("C11", "implies(defined('inv'), euclid(t * (x1 - x2) - (y1 - y2), self.mod, 0, (y1 - y2) * kk))"),
      ("C11", "implies(defined('inv'), (t * (x1 - x2) - (y1 - y2)) % self.mod == 0 and "
              "result[0] == t * t - x1 - x2 and result[1] == t * (x1 - (t * t - x1 - x2)) - y1)"),
      # value pass: branch taken as a statement about field elements (x1 == x2, y1 == y2 modulo p), reduced results
      ("VALUE", "implies(not defined('x1'), not g_dbl and (p[0] is None or q[0] is None))"),
      ("VALUE", "implies(defined('x1'), defined('inv') == ((x1 - x2) % self.mod != 0))"),
      ("VALUE", "implies(defined('x1') and (x1 - x2) % self.mod == 0 and (y1 - y2) % self.mod != 0, "
                "result[0] is None and result[1] is None and not g_dbl)"),
      ("VALUE", "implies(defined('x1'), g_dbl == ((x1 - x2) % self.mod == 0 and (y1 - y2) % self.mod == 0))"),
      ("VALUE", "implies(defined('inv'), 0 <= result[0] and result[0] < self.mod and 0 <= result[1] and "
                "result[1] < self.mod)"),
  ]
  value_pass = True
  entry_ghost = ["g_dbl = False"]
  on_call = {f"{E}::EcCurve.Double": ["assert [VALUE] args[0] == p", "g_dbl = True"]}
  props = ["C11"]


@contract(f"{E}::EcCurve.Double")
class DoubleAffine:
  caller_ensures = ["(result[0] is None) == (result[1] is None)"]
  params = {"p": "point"}
  self_fields = F
  returns = "point"
  congruence_mod = "self.mod"
  # in a field of odd prime order every y is 0 or 2y is a unit; under that hypothesis (value pass) Double never raises
  requires = ["self.mod >= 3", "(p[0] is None) == (p[1] is None)",
              ("VALUE", "p[0] is None or p[1] % self.mod == 0 or gcd(2 * p[1], self.mod) == 1")]
  value_total = ["ZeroDivisionError"]
  ensures = [("C11", "implies(p[0] is None, result[0] is None and result[1] is None)")]
  # tangent branch: t * 2y == 3x^2 + a (mod p), (x2, y2) = (t^2 - 2x, t*(x - x2) - y)
  return_hints = [
      ("C11", "let iv = invert(den, self.mod) if defined('den') else 0"),
      ("C11", "let kk = invert_k(den, self.mod) if defined('den') else 0"),
      ("C11", "implies(defined('den'), den * iv == 1 + self.mod * kk and t == num * iv and den == 2 * y and "
              "num == 3 * x * x + self.a)"),
      ("C11", "implies(defined('den'), by(t * den - num == self.mod * (num * kk), den * iv == 1 + self.mod * kk, "
              "t == num * iv))"),
      ("C11", "implies(defined('den'), euclid(t * den - num, self.mod, 0, num * kk))"),
      ("C11", "implies(defined('den'), (t * (2 * y) - (3 * x * x + self.a)) % self.mod == 0 and "
              "result[0] == t * t - 2 * x and result[1] == t * (x - (t * t - 2 * x)) - y)"),
      # value pass: tangent formula exactly for finite points whose y is not 0 modulo p, otherwise infinity
      ("VALUE", "implies(p[0] is not None, defined('den') == (p[1] % self.mod != 0))"),
      ("VALUE", "implies(not defined('den'), result[0] is None and result[1] is None)"),
      ("VALUE", "implies(defined('den'), 0 <= result[0] and result[0] < self.mod and 0 <= result[1] and "
                "result[1] < self.mod)"),
  ]
  value_pass = True
  props = ["C11"]


@contract(f"{E}::EcCurve.Negate")
class Negate:
  # what callers assume is about the integer values and is proved in the value pass (body with `%` kept)
  caller_ensures = ["(result[0] is None) == (p[0] is None)", "(result[1] is None) == (p[1] is None)",
                    "implies(p[0] is not None, result[0] == p[0] and result[1] == (0 - p[1]) % self.mod)"]
  returns_expr = "(p[0], None if p[1] is None else (0 - p[1]) % self.mod)"
  params = {"p": "point"}
  self_fields = F
  returns = "point"
  congruence_mod = "self.mod"
  requires = ["self.mod >= 3", "(p[0] is None) == (p[1] is None)"]
  ensures = [("C11", "implies(p[0] is None, result[0] is None and result[1] is None)"),
             ("C11", "implies(p[0] is not None, result[0] == p[0] and result[1] == 0 - p[1])")]
  props = ["C11"]


@contract(f"{E}::EcCurve.AffineToJacobian")
class AffineToJacobian:
  params = {"p": "point"}
  self_fields = F
  returns = "jpoint"
  requires = ["(p[0] is None) == (p[1] is None)"]
  ensures = [("C11", "implies(p[0] is None, result[0] == 1 and result[1] == 1 and result[2] == 0)"),
             ("C11", "implies(p[0] is not None, result[0] == p[0] and result[1] == p[1] and result[2] == 1)")]
  props = ["C11"]


@contract(f"{E}::EcCurve.JacobianToAffine")
class JacobianToAffine:
  caller_ensures = ["(result[0] is None) == (result[1] is None)",
                    "result[0] is None or (0 <= result[0] and result[0] < self.mod and 0 <= result[1] and result[1] < self.mod)"]
  params = {"p": "jpoint"}
  self_fields = F
  returns = "point"
  congruence_mod = "self.mod"
  requires = ["self.mod >= 3"]
  raises = {"ValueError": ("C11", "p[0] == 0 and p[1] == 0 and p[2] == 0")}
  ensures = [("C11", "(result[0] is None) == (p[2] == 0)")]
  # z != 0: (x, y) == (X * w^2, Y * w^3) with w * Z == 1 (mod p)
  return_hints = [
      ("C11", "implies(defined('w'), z * w == 1 + self.mod * invert_k(z, self.mod))"),
      ("C11", "implies(defined('w'), euclid(z * w - 1, self.mod, 0, invert_k(z, self.mod)))"),
      ("C11", "implies(defined('w'), (z * w - 1) % self.mod == 0 and result[0] == p[0] * (w * w) and "
              "result[1] == p[1] * (w * w * w))"),
  ]
  props = ["C11"]
