"""Group view of the curve E(F_p) (C02, C06, C10, C11): the scalar-multiplication LOOPS are proved against the group
law for every scalar; the step "the Jacobian / affine formulas compute the group operation" is an ASSUMED bridge.

Vocabulary (uninterpreted, all functions of the curve (a, b, mod)): element ids elt(x, y) of finite affine points and
jelt(X, Y, Z) of finite Jacobian triples, gzero, gadd, gneg, gmul(k, e).  The group axioms and the laws of gmul are
axiom schemas of the specification theory (mathematics, no statement about code), instantiated explicitly.

Bridge (assumed, listed in the evidence as `assumed clause of ...`): AddJacobian / DoubleJacobian / JacobianToAffine /
BatchJacobianToAffine map representatives to the group operation.  Its justification is the C11 proof (ring pass: the
formulas ARE the textbook chord/tangent law for every prime field; value pass: branch correspondence, reduced results)
plus the textbook fact that the chord/tangent law is an abelian group law.  What is PROVED here on top of it, for all
inputs: Multiply (sign handling, n == 1 shortcut, double-and-add over the binary expansion) returns n * P;
PointSequence returns [k * base]; the logarithm-view postconditions of Multiply used by the discrete-log contracts
follow from it."""
from pyvc.contracts import contract, macro, spec_axiom

E = "paranoid_crypto/lib/ec_util.py"
F = {"a": "int", "b": "int", "mod": "int", "n": "int", "h": "int", "g": "tuple[int,int]"}

macro("gzero", ["c"], "ufi('gzero', c.a, c.b, c.mod)")
macro("gadd", ["c", "x", "y"], "ufi('gadd', c.a, c.b, c.mod, x, y)")
macro("gneg", ["c", "x"], "ufi('gneg', c.a, c.b, c.mod, x)")
macro("gmul", ["c", "k", "x"], "ufi('gmul', c.a, c.b, c.mod, k, x)")
macro("elt", ["c", "px", "py"], "ufi('elt', c.a, c.b, c.mod, px, py)")
macro("eltp", ["c", "p"], "(gzero(c) if p[0] is None else elt(c, p[0], p[1]))")
macro("jeltp", ["c", "q"], "(gzero(c) if q[2] == 0 else ufi('jelt', c.a, c.b, c.mod, q[0], q[1], q[2]))")
# a Jacobian triple the formulas accept: Z reduced, not the all-zero triple
macro("wfj", ["c", "q"], "(0 <= q[2] and q[2] < c.mod and (q[2] != 0 or q[0] != 0 or q[1] != 0))")

# on-curve representatives (the bridge is claimed for these only: off the curve the chord/tangent formulas are not a
# group law).  oncv is DEFINED by the curve equation (axiom schema oncv_def); jon is its Jacobian counterpart.
macro("oncv", ["c", "px", "py"], "ufb('oncv', c.a, c.b, c.mod, px, py)")
macro("onp", ["c", "p"], "(p[0] is None or oncv(c, p[0], p[1]))")
macro("jonp", ["c", "q"], "(q[2] == 0 or ufb('jon', c.a, c.b, c.mod, q[0], q[1], q[2]))")

CV = {"ca": "int", "cb": "int", "cm": "int"}


def _ax(name, extra, hyps, concl, doc):
  ns = dict(vars=dict(CV, **extra), hyps=hyps, concl=concl, __doc__=doc)
  return spec_axiom(name)(type(name, (), ns))


_ax("g_zero_l", {"x": "int"}, [], ["ufi('gadd', ca, cb, cm, ufi('gzero', ca, cb, cm), x) == x"], "0 + x == x")
_ax("g_zero_r", {"x": "int"}, [], ["ufi('gadd', ca, cb, cm, x, ufi('gzero', ca, cb, cm)) == x"], "x + 0 == x")
_ax("g_assoc", {"x": "int", "y": "int", "z": "int"}, [],
    ["ufi('gadd', ca, cb, cm, ufi('gadd', ca, cb, cm, x, y), z) == ufi('gadd', ca, cb, cm, x, ufi('gadd', ca, cb, cm, y, z))"],
    "(x + y) + z == x + (y + z)")
_ax("gmul_0", {"x": "int"}, [], ["ufi('gmul', ca, cb, cm, 0, x) == ufi('gzero', ca, cb, cm)"], "0 * x == 0")
_ax("gmul_1", {"x": "int"}, [], ["ufi('gmul', ca, cb, cm, 1, x) == x"], "1 * x == x")
_ax("gmul_zero", {"k": "int"}, [],
    ["ufi('gmul', ca, cb, cm, k, ufi('gzero', ca, cb, cm)) == ufi('gzero', ca, cb, cm)"], "k * 0 == 0")
_ax("gmul_neg", {"k": "int", "x": "int"}, [],
    ["ufi('gmul', ca, cb, cm, 0 - k, ufi('gneg', ca, cb, cm, x)) == ufi('gmul', ca, cb, cm, k, x)"], "(-k) * (-x) == k * x")
_ax("gmul_halve", {"k": "int", "r": "int", "x": "int"}, [],
    ["ufi('gmul', ca, cb, cm, 2 * k + r, x) == ufi('gadd', ca, cb, cm, ufi('gmul', ca, cb, cm, r, x), "
     "ufi('gmul', ca, cb, cm, k, ufi('gadd', ca, cb, cm, x, x)))"], "(2k + r) * x == r * x + k * (x + x)")
_ax("gmul_succ", {"k": "int", "x": "int"}, [],
    ["ufi('gmul', ca, cb, cm, k + 1, x) == ufi('gadd', ca, cb, cm, ufi('gmul', ca, cb, cm, k, x), x)"],
    "(k + 1) * x == k * x + x")
_ax("jelt_affine", {"x": "int", "y": "int"}, [],
    ["ufi('jelt', ca, cb, cm, x, y, 1) == ufi('elt', ca, cb, cm, x, y)"], "the triple (x, y, 1) represents (x, y)")
_ax("oncv_def", {"x": "int", "y": "int"}, [],
    ["ufb('oncv', ca, cb, cm, x, y) == ((y * y - (x * x * x + ca * x + cb)) % cm == 0)"],
    "definition: (x, y) satisfies y^2 == x^3 + a x + b (mod p)")
_ax("jon_affine", {"x": "int", "y": "int"}, [],
    ["ufb('jon', ca, cb, cm, x, y, 1) == ufb('oncv', ca, cb, cm, x, y)"], "the triple (x, y, 1) is on the curve iff (x, y) is")
_ax("elt_finite", {"x": "int", "y": "int"}, [],
    ["ufi('elt', ca, cb, cm, x, y) != ufi('gzero', ca, cb, cm)"], "a finite point is not the identity")

# link to the logarithm view of <G> (contracts/ec_util.py: dlog / in_group): k * P for P in <G>
LV = dict(CV, gx="int", gy="int", cn="int", px="int", py="int", k="int", rx="int", ry="int")
spec_axiom("log_of_mul")(type("log_of_mul", (), dict(
    vars=LV,
    hyps=["ufb('in_group', ca, cb, cm, gx, gy, cn, px, py)",
          "ufi('elt', ca, cb, cm, rx, ry) == ufi('gmul', ca, cb, cm, k, ufi('elt', ca, cb, cm, px, py))"],
    concl=["ufb('in_group', ca, cb, cm, gx, gy, cn, rx, ry)",
           "(ufi('dlog', ca, cb, cm, gx, gy, cn, rx, ry) - k * ufi('dlog', ca, cb, cm, gx, gy, cn, px, py)) % cn == 0",
           "(k * ufi('dlog', ca, cb, cm, gx, gy, cn, px, py)) % cn != 0"],
    __doc__="for P in <G> with logarithm L: a finite point equal to k * P is in <G> with logarithm k * L (mod n)")))
spec_axiom("log_of_mul_inf")(type("log_of_mul_inf", (), dict(
    vars={k: v for k, v in LV.items() if k not in ("rx", "ry")},
    hyps=["ufb('in_group', ca, cb, cm, gx, gy, cn, px, py)",
          "ufi('gmul', ca, cb, cm, k, ufi('elt', ca, cb, cm, px, py)) == ufi('gzero', ca, cb, cm)"],
    concl=["(k * ufi('dlog', ca, cb, cm, gx, gy, cn, px, py)) % cn == 0"],
    __doc__="for P in <G> with logarithm L: k * P is the identity only if k * L == 0 (mod n)")))


def ax(name, *args):
  return f"lemma('{name}', self.a, self.b, self.mod, {', '.join(args)})"


BRIDGE_WHY = ("group view of the formulas: C11 ring pass (formulas == textbook chord/tangent law, every prime field) + "
              "value pass (branch correspondence) + the textbook fact that the law is an abelian group law on the curve")


def bridge(target, clause):
  """Adds an ASSUMED caller-visible clause (group view) to an existing contract of contracts/ec_arith.py."""
  from pyvc.contracts import REGISTRY, Clause
  c = REGISTRY[target]
  cl = Clause(clause)
  if c.caller_ensures is None:
    c.caller_ensures = list(c.ensures) + list(c.defines)
  c.caller_ensures.append(cl)
  c.caller_assumed.add(cl.text)


import contracts.ec_arith  # noqa: E402,F401  (the contracts extended below)

bridge(f"{E}::EcCurve.AddJacobian",
       "implies(wfj(self, p) and wfj(self, q) and jonp(self, p) and jonp(self, q), wfj(self, result) and "
       "jonp(self, result) and jeltp(self, result) == gadd(self, jeltp(self, p), jeltp(self, q)))")
bridge(f"{E}::EcCurve.DoubleJacobian",
       "implies(wfj(self, p) and jonp(self, p), wfj(self, result) and jonp(self, result) and "
       "jeltp(self, result) == gadd(self, jeltp(self, p), jeltp(self, p)))")
bridge(f"{E}::EcCurve.JacobianToAffine",
       "implies(wfj(self, p) and jonp(self, p), onp(self, result) and eltp(self, result) == jeltp(self, p))")
bridge(f"{E}::EcCurve.Negate",
       "implies(onp(self, p), onp(self, result) and eltp(self, result) == gneg(self, eltp(self, p)))")

A2J = f"{E}::EcCurve.AffineToJacobian"
NEG = f"{E}::EcCurve.Negate"
P11 = "C02,C06,C10,C11,C18"
_MUL = "implies(onp(self, p), onp(self, result) and eltp(self, result) == gmul(self, n, eltp(self, p)))"
_LOG1 = ("implies(not is_inf(p) and in_group(self, p[0], p[1]) and not is_inf(result), in_group(self, result[0], result[1]) "
         "and (dlog(self, result[0], result[1]) - n * dlog(self, p[0], p[1])) % self.n == 0)")
_LOG2 = "implies(not is_inf(p) and in_group(self, p[0], p[1]), is_inf(result) == ((n * dlog(self, p[0], p[1])) % self.n == 0))"
_RED = ("implies(p[0] is not None and 0 <= p[0] and p[0] < self.mod and 0 <= p[1] and p[1] < self.mod, result[0] is None or "
        "(0 <= result[0] and result[0] < self.mod and 0 <= result[1] and result[1] < self.mod))")
_DET = "is_inf(result) == ufb('ec_mul_is_inf', self.a, self.b, self.mod, p[0] is None, p[0], p[1], n)"


@contract(f"{E}::EcCurve.Multiply")
class Multiply:
  """PROVED for every curve, every on-curve point and every integer n (negative, 0, 1, multiples of the order alike):
  the result is n * P in the group view - sign handling through Negate, the n == 1 shortcut, and the double-and-add
  loop over the binary expansion of n (invariant: res + n * pj == n0 * P).  The two logarithm-view clauses used by the
  discrete-log contracts follow from it through the axiom schemas log_of_mul / log_of_mul_inf.  Assumed: the bridge
  clauses of the four formula-level callees (contracts/ec_group.py) and that a point of <G> is on the curve."""
  frame_props = ["C02", "C06", "C10", "C11"]
  params = {"p": "point", "n": "int"}
  self_fields = F
  returns = "point"
  requires = ["self.mod >= 3", "wf_point(p)"]
  # JacobianToAffine's "all coordinates zero" error: excluded for on-curve points; off the curve it does occur
  # (e.g. secp256r1, P = (1, p), n = 2: the tangent formula degenerates) - not reachable from any check with n == 2
  raises_only_if = {"ValueError": (P11, "not onp(self, p)")}
  entry_ghost = ["g_T = gmul(self, n, eltp(self, p))", "g_on = onp(self, p)", "g_fin = p[0] is not None",
                 "g_px = p[0] if p[0] is not None else 0", "g_py = p[1] if p[1] is not None else 0", "g_k = n"]
  spec_axioms = ["forall((x, y), True, implies(in_group(self, x, y), oncv(self, x, y)))"]
  ensures = ["wf_point(result)", "implies(is_inf(p), is_inf(result))", (P11, _MUL), (P11, _LOG1), (P11, _LOG2), (P11, _RED)]
  caller_ensures = ["wf_point(result)", "implies(is_inf(p), is_inf(result))", _MUL, _LOG1, _LOG2, _RED, _DET]
  caller_assumed = [_DET]      # determinism of a function without state (frame obligation): names its infinity verdict
  on_call = {NEG: [ax("gmul_neg", "g_k", "elt(self, g_px, g_py)")],
             A2J: [ax("jelt_affine", "ret[0]", "ret[1]"), ax("jon_affine", "ret[0]", "ret[1]"),
                   ax("g_zero_l", "gmul(self, n, jeltp(self, ret))")]}
  loops = {0: dict(
      invariant=["n >= 0",
                 (P11, "implies(g_on, wfj(self, res) and wfj(self, pj) and jonp(self, res) and jonp(self, pj) and "
                       "gadd(self, jeltp(self, res), gmul(self, n, jeltp(self, pj))) == g_T)")],
      keep={"g_T", "g_on", "g_fin", "g_px", "g_py", "g_k"},
      body_end=[(P11, "divmod_def(pre_n, 2)"),
                (P11, ax("gmul_halve", "n", "r", "jeltp(self, pre_pj)")),
                (P11, ax("gmul_0", "jeltp(self, pre_pj)")), (P11, ax("gmul_1", "jeltp(self, pre_pj)")),
                (P11, ax("g_zero_l", "gmul(self, n, gadd(self, jeltp(self, pre_pj), jeltp(self, pre_pj)))")),
                (P11, ax("g_assoc", "jeltp(self, pre_res)", "jeltp(self, pre_pj)",
                         "gmul(self, n, gadd(self, jeltp(self, pre_pj), jeltp(self, pre_pj)))"))],
      at_exit=[(P11, ax("gmul_0", "jeltp(self, pj)")), (P11, ax("g_zero_r", "jeltp(self, res)"))])}
  return_hints = [
      (P11, ax("gmul_1", "eltp(self, p)")), (P11, ax("gmul_zero", "g_k")),
      (P11, "implies(g_fin and result[0] is not None, lemma('log_of_mul', self.a, self.b, self.mod, self.g[0], self.g[1], "
            "self.n, g_px, g_py, g_k, result[0], result[1]))"),
      (P11, "implies(g_fin, lemma('log_of_mul_inf', self.a, self.b, self.mod, self.g[0], self.g[1], self.n, g_px, g_py, g_k))"),
      (P11, "implies(result[0] is not None, " + ax("elt_finite", "result[0]", "result[1]") + ")")]
  props = ["C02", "C06", "C10", "C11", "C18"]


CURVE_REQ = ["self.mod >= 3", "self.n >= 2", "self.h >= 1"]
_J2A = ("forall(k, 0, len(p_list), implies(wfj(self, p_list[k]) and jonp(self, p_list[k]), "
        "onp(self, result[k]) and eltp(self, result[k]) == jeltp(self, p_list[k])))")


@contract(f"{E}::EcCurve.BatchJacobianToAffine")
class BatchJacobianToAffine:
  """Proved: one affine point per Jacobian triple, infinity exactly for the triples with Z == 0 (BatchInverse's shape
  contract).  Assumed (bridge): a finite triple converts to the point it represents - the formulas x = X w^2, y = Y w^3
  with w the shared-inversion inverse of Z are JacobianToAffine's, proved in the ring pass there; the inverses come from
  BatchInverse (proved: Montgomery's trick yields inverses)."""
  params = {"p_list": "list[jpoint]"}
  self_fields = F
  returns = "list[point]"
  requires = CURVE_REQ
  raises = {"ArithmeticError": None}
  # ring pass (C11): every finite entry is (X w^2, Y w^3) with w Z == 1 (mod p) - JacobianToAffine's statement
  congruence_mod = "self.mod"
  entry_ghost = ["g_K = 0"]
  on_call = {f"{E}::EcCurve.BatchInverse": [
      "g_K = invert_k(ufi('pp', len(args[0])), self.mod)",
      "assert [C11] forall(k, 0, len(p_list), ret[k] is None or ret[k] * p_list[k][2] == 1 + self.mod * g_K)"]}
  on_assign = {"y": ["assert [C11] w * p[2] == 1 + self.mod * g_K",
                     "euclid(w * p[2] - 1, self.mod, 0, g_K)",
                     "assert [C11] (w * p[2] - 1) % self.mod == 0",
                     "assert [C11] x == p[0] * (w * w)", "assert [C11] y == p[1] * (w * w * w)"]}
  ensures = [("C10,C11", "len(result) == len(p_list)"),
             ("C10,C11", "forall(k, 0, len(p_list), wf_point(result[k]) and (result[k][0] is None) == (p_list[k][2] == 0))")]
  caller_ensures = ["len(result) == len(p_list)",
                    "forall(k, 0, len(p_list), wf_point(result[k]) and (result[k][0] is None) == (p_list[k][2] == 0))", _J2A]
  caller_assumed = [_J2A]
  loops = {0: dict(invariant=["len(res) == len(p_list)", "len(inverses) == len(p_list)",
                              "forall(k, 0, len(p_list), (inverses[k] is None) == (p_list[k][2] == 0))",
                              "forall(k, 0, i, wf_point(res[k]) and (res[k][0] is None) == (p_list[k][2] == 0))",
                              ("C11", "forall(k, 0, len(p_list), inverses[k] is None or "
                                      "inverses[k] * p_list[k][2] == 1 + self.mod * g_K)")],
                   types={"res": "list[point]"}, keep={"g_K"})}
  var_types = {"res": "list[point]"}
  props = ["C10", "C11"]


_SEQ = ("implies(onp(self, base), forall(k, 0, len(result), onp(self, result[k]) and "
        "eltp(self, result[k]) == gmul(self, k, eltp(self, base))))")


@contract(f"{E}::EcCurve.PointSequence")
class PointSequence:
  """PROVED in the group view, for every n and every on-curve base: entry k is k * base (repeated Jacobian addition of the
  base, converted by BatchJacobianToAffine) - under the bridge clauses of AddJacobian and BatchJacobianToAffine."""
  frame_props = ["C10", "C11"]
  params = {"base": "point", "n": "int"}
  self_fields = F
  returns = "list[point]"
  requires = CURVE_REQ + ["wf_point(base)"]
  raises = {"ArithmeticError": None}
  ensures = [("C10,C11", "len(result) == max(n, 0)"), ("C10,C11", "forall(k, 0, len(result), wf_point(result[k]))"),
             ("C10,C11", _SEQ)]
  on_call = {A2J: ["implies(base[0] is not None, " + ax("jelt_affine", "ret[0]", "ret[1]") + " and " +
                   ax("jon_affine", "ret[0]", "ret[1]") + ")", ax("gmul_0", "eltp(self, base)")]}
  loops = {0: dict(invariant=["len(res) == n", "1 <= i",
                              ("C10,C11", "implies(onp(self, base), forall(k, 0, i, wfj(self, res[k]) and jonp(self, res[k]) "
                                          "and jeltp(self, res[k]) == gmul(self, k, eltp(self, base))))")],
                   types={"res": "list[jpoint]"},
                   # at the end of the body `i` is already the next index: this iteration wrote res[i - 1]
                   body_end=[("C10,C11", ax("gmul_succ", "i - 2", "eltp(self, base)"))])}
  var_types = {"res": "list[jpoint]"}
  props = ["C10", "C11"]


# ---------------------------------------------------------------------------------------------------------------------
# x-coordinates of group elements (for the baby-step table): gxc(e) is the canonical x-coordinate in [0, p) of e != 0

macro("gxc", ["c", "e"], "ufi('gxc', c.a, c.b, c.mod, e)")
_ax("gx_neg", {"e": "int"}, [], ["ufi('gxc', ca, cb, cm, ufi('gneg', ca, cb, cm, e)) == ufi('gxc', ca, cb, cm, e)"],
    "x(-e) == x(e)")
_ax("gx_inj", {"e1": "int", "e2": "int"},
    ["e1 != ufi('gzero', ca, cb, cm)", "e2 != ufi('gzero', ca, cb, cm)",
     "ufi('gxc', ca, cb, cm, e1) == ufi('gxc', ca, cb, cm, e2)"],
    ["e1 == e2 or e1 == ufi('gneg', ca, cb, cm, e2)"], "two points with the same x-coordinate are equal or opposite")
_ax("gneg_zero", {"e": "int"}, [],
    ["(ufi('gneg', ca, cb, cm, e) == ufi('gzero', ca, cb, cm)) == (e == ufi('gzero', ca, cb, cm))",
     "ufi('gneg', ca, cb, cm, ufi('gneg', ca, cb, cm, e)) == e"], "-e == 0 iff e == 0; -(-e) == e")
_ax("gmul_add", {"a": "int", "b": "int", "x": "int"}, [],
    ["ufi('gadd', ca, cb, cm, ufi('gmul', ca, cb, cm, a, x), ufi('gmul', ca, cb, cm, b, x)) == "
     "ufi('gmul', ca, cb, cm, a + b, x)"], "a x + b x == (a + b) x")
_ax("gmul_mul", {"a": "int", "b": "int", "x": "int"}, [],
    ["ufi('gmul', ca, cb, cm, a, ufi('gmul', ca, cb, cm, b, x)) == ufi('gmul', ca, cb, cm, a * b, x)"], "a (b x) == (a b) x")
_ax("gmul_negate", {"a": "int", "x": "int"}, [],
    ["ufi('gneg', ca, cb, cm, ufi('gmul', ca, cb, cm, a, x)) == ufi('gmul', ca, cb, cm, 0 - a, x)"], "-(a x) == (-a) x")
_ax("elt_inj", {"x1": "int", "y1": "int", "x2": "int", "y2": "int"},
    ["0 <= x1 and x1 < cm and 0 <= y1 and y1 < cm and 0 <= x2 and x2 < cm and 0 <= y2 and y2 < cm",
     "ufi('elt', ca, cb, cm, x1, y1) == ufi('elt', ca, cb, cm, x2, y2)"], ["x1 == x2 and y1 == y2"],
    "reduced coordinates are unique")
_ax("elt_neg", {"x": "int", "y": "int"}, ["ufb('oncv', ca, cb, cm, x, y)"],
    ["ufb('oncv', ca, cb, cm, x, (0 - y) % cm)",
     "ufi('elt', ca, cb, cm, x, (0 - y) % cm) == ufi('gneg', ca, cb, cm, ufi('elt', ca, cb, cm, x, y))"],
    "(x, -y mod p) is the opposite point")

# the baby-step table T for base point B and size n (int keys: canonical x-coordinates; the key None: the identity)
macro("table_ok", ["c", "T", "n", "B"],
      "forall(v, 0, n, (dict_has(T, None) if gmul(c, v, B) == gzero(c) else dict_has(T, gxc(c, gmul(c, v, B))))) and "
      "forall((k,), dict_has(T, k), gmul(c, T[k], B) != gzero(c) and gxc(c, gmul(c, T[k], B)) == k) and "
      "implies(dict_has(T, None), gmul(c, T[None], B) == gzero(c))")


_BAX = ("forall(k, 0, len(points), implies(onp(self, p) and onp(self, points[k]), "
        "(result[k] is None) == (gadd(self, eltp(self, p), eltp(self, points[k])) == gzero(self)) and "
        "implies(result[k] is not None, result[k] == gxc(self, gadd(self, eltp(self, p), eltp(self, points[k]))))))")
import contracts.ec_util  # noqa: E402,F401  (BatchAddX's contract lives there)
bridge(f"{E}::EcCurve.BatchAddX", _BAX)



PS = f"{E}::EcCurve.PointSequence"
BAX = f"{E}::EcCurve.BatchAddX"
MUL = f"{E}::EcCurve.Multiply"
_E = "elt(self, self.g[0], self.g[1])"
_P = "elt(self, points[wi][0], points[wi][1])"


def axg(name, *args):
  return f"lemma('{name}', self.a, self.b, self.mod, {', '.join(args)})"


@contract(f"{E}::EcCurve.BatchDL#completeness")
class BatchDLComplete:
  """COMPLETENESS of the baby-step / giant-step search, as a conditional theorem about BatchDL's own logic (the second,
  independent contract on this function; soundness is the first): for every index wi and every wx with 0 <= wx < n, if
  points[wi] == wx * G and the table cached on the curve is a correct baby-step table of its recorded size, then
  result[wi] is not None - for every n, every list and every curve.  The argument: the giant step J = (wx + ts - 1) // t
  leaves delta = wx - J t with |delta| < ts (search-space obligation); BatchAddX(p, list_c)[J] is the x-coordinate of
  delta * G (or None for delta * G == 0), which is a key of the table; the stored value v satisfies v G == +-delta G, so
  one of the two candidates J t + v, J t - v multiplies G to the target and is stored.  Assumed: the group-view bridge
  clauses of Multiply's callees, BatchAddX and PointTable (contracts/ec_group.py)."""
  params = {"points": "list[point]", "n": "int"}
  self_fields = dict(F, _table="dict[int,int]", _table_size="int")
  returns = "list[Optional[int]]"
  requires = CURVE_REQ + ["n >= 1", "self._table_size >= 0", "forall(k, 0, len(points), wf_point(points[k]))",
                          "wf_point(self.g) and self.g[0] is not None",
                          "0 <= self.g[0] and self.g[0] < self.mod and 0 <= self.g[1] and self.g[1] < self.mod"]
  spec_axioms = ["oncv(self, self.g[0], self.g[1])"]
  raises = {"ArithmeticError": None}
  ghost_params = {"wi": "int", "wx": "int"}
  ghost_requires = ["0 <= wi and wi < len(points)", "points[wi][0] is not None",
                    "0 <= points[wi][0] and points[wi][0] < self.mod and 0 <= points[wi][1] and points[wi][1] < self.mod",
                    "oncv(self, points[wi][0], points[wi][1])", "0 <= wx and wx < n",
                    f"{_P} == gmul(self, wx, {_E})",
                    f"table_ok(self, self._table, self._table_size, {_E})"]
  # ... and the cached table is again a correct table of its recorded size (the hypothesis is an invariant of the curve
  # object: it holds for the empty table of __init__ and is re-established by every method that replaces the table)
  ghost_ensures = [("C10", "result[wi] is not None"),
                   ("C10", f"table_ok(self, self._table, self._table_size, {_E})")]
  entry_ghost = ["g_J = 0", "g_xn = True", "g_xv = 0", "g_V = 0", "g_VD = True", "g_VN = True"]
  on_call = {
      PS: ["g_J = idiv(wx + table_size - 1, t)",
           "divmod_def(wx + table_size - 1, t)",
           "assert [C10] table_size >= 1 and t == 2 * table_size - 1 and self._table_size >= table_size",
           "assert [C10] 0 <= g_J and g_J < args[1] and 0 - table_size < wx - g_J * t and wx - g_J * t < table_size",
           f"assert [C10] table_ok(self, self._table, self._table_size, {_E})"],
      BAX: [
          "begin_scope",
          "let ON = i == wi",
          "let D = wx - g_J * t",
          f"let GD = gmul(self, D, {_E})", f"let GN = gmul(self, 0 - D, {_E})",
          "let AD = D if D >= 0 else 0 - D",
          # list_c[J] == J * (-t G) == (-J t) G ;  p + list_c[J] == (wx - J t) G
          "implies(ON, " + axg("gmul_mul", "g_J", "0 - t", _E) + ")",
          "implies(ON, " + axg("gmul_add", "wx", "(0 - t) * g_J", _E) + ")",
          f"assert [C10] implies(ON, eltp(self, list_c[g_J]) == gmul(self, g_J * (0 - t), {_E}))",
          f"assert [C10] implies(ON, gadd(self, eltp(self, p), eltp(self, list_c[g_J])) == GD)",
          # x(delta G) == x(-delta G); the table holds the key of |delta| G
          "implies(ON, " + axg("gmul_negate", "D", _E) + " and " + axg("gx_neg", "GD") + " and " + axg("gneg_zero", "GD") + ")",
          f"assert [C10] implies(ON, gmul(self, AD, {_E}) == GD or gmul(self, AD, {_E}) == GN)",
          "assert [C10] implies(ON, (ret[g_J] is None) == (GD == gzero(self)))",
          "assert [C10] implies(ON, dict_has(self._table, ret[g_J]))",
          f"let VV = gmul(self, self._table[ret[g_J]], {_E}) if ON else gzero(self)",
          "implies(ON, " + axg("gx_inj", "VV", "GD") + ")",
          "assert [C10] implies(ON, VV == GD or VV == GN)",
          "end_scope",
          "g_xn = ret[g_J] is None if i == wi else True",
          "g_xv = (ret[g_J] if ret[g_J] is not None else 0) if i == wi else 0",
          "g_V = self._table[ret[g_J]] if i == wi else 0",
          f"g_VD = (gmul(self, g_V, {_E}) == gmul(self, wx - g_J * t, {_E})) if i == wi else True",
          f"g_VN = (gmul(self, g_V, {_E}) == gmul(self, 0 - (wx - g_J * t), {_E})) if i == wi else True",
          "assert [C10] implies(i == wi, g_VD or g_VN)"],
      MUL: [
          "begin_scope",
          "let ON = defined('res') and i == wi and _i1 == g_J",
          "let d_ = (args[1] - _i1 * t) if ON else 0",
          f"let E_ = {_E}",
          "assert [C10] implies(ON, (x is None) == g_xn and (x is None or x == g_xv))",
          "assert [C10] implies(ON, d_ == g_V or d_ == 0 - g_V)",
          "implies(ON, " + axg("gmul_add", "_i1 * t", "d_", "E_") + " and " + axg("gmul_add", "_i1 * t", "wx - _i1 * t", "E_") + ")",
          "implies(ON, " + axg("gmul_negate", "d_", "E_") + " and " + axg("gmul_negate", "0 - (wx - _i1 * t)", "E_") + " and " +
          axg("gneg_zero", "gmul(self, d_, E_)") + " and " + axg("gmul_negate", "0 - d_", "E_") + ")",
          "assert [C10] implies(ON and gmul(self, d_, E_) == gmul(self, wx - _i1 * t, E_), "
          "gmul(self, args[1], E_) == gmul(self, wx, E_))",
          "implies(ON and ret[0] is not None, " + axg("elt_inj", "ret[0]", "ret[1]", "p[0]", "p[1]") + ")",
          "implies(ON, " + axg("elt_finite", "p[0]", "p[1]") + ")",
          "assert [C10] implies(ON and gmul(self, args[1], E_) == gmul(self, wx, E_), "
          "ret[0] is not None and ret[0] == p[0] and ret[1] == p[1])",
          # the candidate J t + v matches when v G == delta G, the candidate J t - v when v G == -delta G
          "assert [C10] implies(ON and d_ == g_V and g_VD, ret[0] is not None and ret[0] == p[0] and ret[1] == p[1])",
          "assert [C10] implies(ON and d_ == 0 - g_V and g_VN, ret[0] is not None and ret[0] == p[0] and ret[1] == p[1])",
          "end_scope"]}
  loops = {0: dict(invariant=["len(res) == len(points)", ("C10", "implies(i > wi, res[wi] is not None)")],
                   types={"res": "list[Optional[int]]"}, keep={"g_J"}),
           1: dict(invariant=["len(res) == len(points)", ("C10", "implies(i > wi, res[wi] is not None)"),
                              ("C10", "implies(i == wi and j > g_J, res[i] is not None)")],
                   types={"res": "list[Optional[int]]"}, keep={"g_J", "g_xn", "g_xv", "g_V", "g_VD", "g_VN"})}
  var_types = {"res": "list[Optional[int]]"}
  feasibility = False
  props = ["C10"]


# BatchDL's completeness, as call sites may use it (the statement of BatchDL#completeness with the ghost parameters
# universally quantified; hypothesis = the table invariant and reduced generator coordinates on entry)
_RED_G = "0 <= self.g[0] and self.g[0] < self.mod and 0 <= self.g[1] and self.g[1] < self.mod"
_COMP = (f"implies(table_ok(self, self._table, self._table_size, {_E}) and {_RED_G}, "
         "forall(k, 0, len(points), implies(points[k][0] is not None and 0 <= points[k][0] and points[k][0] < self.mod and "
         "0 <= points[k][1] and points[k][1] < self.mod and oncv(self, points[k][0], points[k][1]) and "
         f"exists(x, 0, n, elt(self, points[k][0], points[k][1]) == gmul(self, x, {_E})), result[k] is not None)))")


def _expose_completeness():
  from pyvc.contracts import REGISTRY, Clause
  c = REGISTRY[f"{E}::EcCurve.BatchDL"]
  cl = Clause(_COMP)
  if c.caller_ensures is None:
    c.caller_ensures = list(c.ensures) + list(c.defines)
  c.caller_ensures.append(cl)
  c.caller_assumed.add(cl.text)
  c.proved_by_aspect[cl.text] = "EcCurve.BatchDL#completeness"


_expose_completeness()


_Pw = "elt(self, points[wi][0], points[wi][1])"
_CND = "(0 <= wj and wj < len(multipliers) and multipliers[wj] == gm)"
_K0 = "(wi + num_points * wj)"
_GOOD = (f"(all_points[{_K0}][0] is not None and 0 <= all_points[{_K0}][0] and all_points[{_K0}][0] < self.mod and "
         f"0 <= all_points[{_K0}][1] and all_points[{_K0}][1] < self.mod and "
         f"oncv(self, all_points[{_K0}][0], all_points[{_K0}][1]) and "
         f"elt(self, all_points[{_K0}][0], all_points[{_K0}][1]) == gmul(self, we, {_E}))")
_FILL = ["len(all_points) == len(multipliers) * num_points", "num_points == len(points)",
         "len(inverses) == len(multipliers)",
         "forall(t, 0, len(inverses), inverses[t] * multipliers[t] == 1 + self.n * invert_k(multipliers[t], self.n))"]


@contract(f"{E}::EcCurve.ExtendedBatchDL#completeness")
class ExtendedBatchDLComplete:
  """COMPLETENESS of the structured-key search, as a conditional theorem (second contract on the function): for every
  point index wi, every position wj of the multiplier list the function builds and every e with 0 <= e < 2^32 and
  e * G != 0: if points[wi] == (e * multipliers[wj]) * G (reduced coordinates, on the curve) and the cached table is
  correct, then result[wi] is not None.  The argument: the transformed point all_points[wi + num * wj] is
  inverse * P == (e + n * K e) * G == e * G because inverse * multiplier == 1 + n * K and n * G == 0; BatchDL's
  completeness (proved under BatchDL#completeness) finds it; the value is written to slot (wi + num * wj) % num == wi.
  WHICH multipliers the list contains (2^(8j), repeated 32-bit words) is decided by the bounded tier."""
  params = {"points": "list[tuple[int,int]]"}
  self_fields = dict(F, _table="dict[int,int]", _table_size="int")
  returns = "list[Optional[int]]"
  requires = CURVE_REQ + ["self._table_size >= 0", "wf_point(self.g) and self.g[0] is not None", _RED_G]
  spec_axioms = ["oncv(self, self.g[0], self.g[1])", f"gmul(self, self.n, {_E}) == gzero(self)"]
  raises = {"ArithmeticError": None, "ValueError": None}
  ghost_params = {"wi": "int", "wj": "int", "we": "int", "gm": "int"}
  ghost_requires = ["0 <= wi and wi < len(points)",
                    "0 <= points[wi][0] and points[wi][0] < self.mod and 0 <= points[wi][1] and points[wi][1] < self.mod",
                    "oncv(self, points[wi][0], points[wi][1])", "0 <= we and we < 2 ** 32", "gm >= 1",
                    f"{_Pw} == gmul(self, we * gm, {_E})", f"gmul(self, we, {_E}) != gzero(self)",
                    f"table_ok(self, self._table, self._table_size, {_E})"]
  ghost_ensures = []
  return_hints = [("C10", f"implies({_CND}, result[wi] is not None)"),
                  # the byte-shift multipliers: every shift 8k with 8k + 32 <= bits is in the list, at position k
                  ("C10", "forall(k, 0, len(multipliers), implies(8 * k + 32 <= bit_length(self.n), multipliers[k] == pow2(8 * k)))"),
                  ("C10", "forall(k, 0, bit_length(self.n), implies(8 * k + 32 <= bit_length(self.n), k < len(multipliers)))")]
  on_call = {MUL: [
      "begin_scope",
      f"let ON = defined('i') and defined('j') and i == wi and j == wj and {_CND}",
      "let K = invert_k(gm, self.n) if ON else 0",
      f"let E_ = {_E}",
      "assert [C10] implies(ON, inverse * gm == 1 + self.n * K)",
      "assert [C10] implies(ON, by(inverse * (we * gm) == we + self.n * (K * we), inverse * gm == 1 + self.n * K))",
      "implies(ON, " + axg("gmul_mul", "inverse", "we * gm", "E_") + " and " + axg("gmul_add", "we", "self.n * (K * we)", "E_") +
      " and " + axg("gmul_mul", "K * we", "self.n", "E_") + " and " + axg("gmul_zero", "K * we") + " and " +
      axg("g_zero_r", "gmul(self, we, E_)") + ")",
      "assert [C10] implies(ON, eltp(self, ret) == gmul(self, we, E_))",
      "assert [C10] implies(ON, ret[0] is not None and 0 <= ret[0] and ret[0] < self.mod and 0 <= ret[1] and "
      "ret[1] < self.mod and oncv(self, ret[0], ret[1]) and elt(self, ret[0], ret[1]) == gmul(self, we, E_))",
      "end_scope"],
             f"{E}::EcCurve.BatchDL": [
      f"assert [C10] implies({_CND}, 0 <= {_K0} and {_K0} < len(all_points))",
      f"assert [C10] implies({_CND}, ret[{_K0}] is not None)"]}
  # loop 0 (byte shifts) is verified: position k of the list is 2^(8k), for every 8k <= bits - 32; loop 1 (repeated words)
  # only appends (syntactic check), so that prefix survives
  loops = {0: dict(invariant=[("C10", "j == 8 * len(multipliers) and forall(k, 0, len(multipliers), multipliers[k] == pow2(8 * k))")],
                   types={"multipliers": "list[int]"}),
           1: dict(abstract=True, append_only={"multipliers"}, types={"multipliers": "list[int]"}),
           2: dict(invariant=_FILL + ["forall(t, 0, num_points * j, wf_point(all_points[t]))",
                                      ("C10", f"implies({_CND} and j > wj, {_GOOD})")], types={"all_points": "list[point]"}),
           3: dict(invariant=_FILL + ["forall(t, 0, num_points * j + i, wf_point(all_points[t]))",
                                      ("C10", f"implies({_CND} and (j > wj or (j == wj and i > wi)), {_GOOD})")],
                   types={"all_points": "list[point]"}, keep={"j", "inverse"}),
           4: dict(invariant=["len(res) == num_points", "num_points == len(points)",
                              ("C10", f"implies({_CND} and k > {_K0}, res[wi] is not None)")],
                   types={"res": "list[Optional[int]]"},
                   body_end=[("C10", f"implies({_CND}, euclid({_K0}, num_points, wi, wj))"),
                             ("C10", f"implies({_CND}, {_K0} % num_points == wi)"),
                             ("C10", f"implies({_CND} and k - 1 == {_K0}, discrete_logs[{_K0}] is not None)"),
                             ("C10", f"implies({_CND} and k - 1 == {_K0}, res[wi] is not None)")])}
  var_types = {"res": "list[Optional[int]]", "all_points": "list[point]", "multipliers": "list[int]",
               "inverses": "list[int]"}
  feasibility = False
  props = ["C10"]


bridge(f"{E}::EcCurve.Add",
       "implies(onp(self, p) and onp(self, q), onp(self, result) and "
       "eltp(self, result) == gadd(self, eltp(self, p), eltp(self, q)))")


macro("redp", ["c", "p"], "(p[0] is None or (0 <= p[0] and p[0] < c.mod and 0 <= p[1] and p[1] < c.mod))")


def _add_inf_clauses():
  """Add's two infinity postconditions (proved in its value pass) made visible to callers, and: reduced operands give a
  reduced result (Add, Double: proved in their value passes)."""
  from pyvc.contracts import REGISTRY, Clause
  c = REGISTRY[f"{E}::EcCurve.Add"]
  for t in ("implies(p[0] is None, result == q)", "implies(p[0] is not None and q[0] is None, result == p)",
            "implies(redp(self, p) and redp(self, q), redp(self, result))"):
    c.caller_ensures.append(Clause(t))
  d = REGISTRY[f"{E}::EcCurve.Double"]
  d.caller_ensures.append(Clause("redp(self, result)"))


_add_inf_clauses()


@contract(f"{E}::EcCurve.Subtract")
class Subtract:
  """Proved: p - q is Add(p, Negate(q)) - value level for the operands at infinity (q at infinity: p itself; p at infinity:
  (x_q, -y_q mod p)), group view p + (-q) for on-curve operands (bridge clauses of Add and Negate assumed)."""
  params = {"p": "point", "q": "point"}
  self_fields = F
  returns = "point"
  requires = ["self.mod >= 3", "wf_point(p)", "wf_point(q)"]
  ensures = [("C11", "wf_point(result)"),
             ("C11", "implies(q[0] is None, result == p)"),
             ("C11", "implies(p[0] is None and q[0] is not None, result[0] == q[0] and result[1] == (0 - q[1]) % self.mod)"),
             ("C11", "implies(onp(self, p) and onp(self, q), onp(self, result) and "
                     "eltp(self, result) == gadd(self, eltp(self, p), gneg(self, eltp(self, q))))"),
             ("C11", "implies(redp(self, p) and redp(self, q), redp(self, result))")]
  return_hints = [("C11", ax("gneg_zero", "gzero(self)"))]
  props = ["C11"]


NEGF = f"{E}::EcCurve.Negate"
SUBF = f"{E}::EcCurve.Subtract"
_Pi = "elt(self, points[wi][0], points[wi][1])"
_Pq = "elt(self, points[wq][0], points[wq][1])"
_DONE = "(res[wi] is not None and res[wq] is not None)"


@contract(f"{E}::EcCurve.BatchDLOfDifferences#completeness")
class BatchDLOfDifferencesComplete:
  """COMPLETENESS of the pairwise search for two keys of the batch (second contract on the function): for all indexes
  wq < wi and every d with 0 < |d| < max_diff and d * G != 0, if points[wi] - points[wq] == d * G (reduced coordinates, on
  the curve) and the cached table is correct, then BOTH result[wi] and result[wq] are not None - whatever other_points
  holds.  The argument: position len(other) + wq of `negated` is -points[wq]; BatchAddX gives the x-coordinate of d * G,
  a key of the table (|d| < max_diff <= table size); Negate(negated[j]) is points[wq] again; Subtract gives d * G; one of
  the candidates v, -v multiplies G to it, the comparison diff == diff2 succeeds and both slots are written."""
  params = {"points": "list[tuple[int,int]]", "other_points": "Optional[list[tuple[int,int]]]", "max_diff": "int"}
  self_fields = dict(F, _table="dict[int,int]", _table_size="int")
  returns = "list[Optional[str]]"
  requires = CURVE_REQ + ["self._table_size >= 0", "wf_point(self.g) and self.g[0] is not None", _RED_G]
  spec_axioms = ["oncv(self, self.g[0], self.g[1])"]
  raises = {"ArithmeticError": None}
  ghost_params = {"wi": "int", "wq": "int", "wd": "int"}
  ghost_requires = ["0 <= wq and wq < wi and wi < len(points)",
                    "0 <= points[wi][0] and points[wi][0] < self.mod and 0 <= points[wi][1] and points[wi][1] < self.mod",
                    "0 <= points[wq][0] and points[wq][0] < self.mod and 0 <= points[wq][1] and points[wq][1] < self.mod",
                    "oncv(self, points[wi][0], points[wi][1]) and oncv(self, points[wq][0], points[wq][1])",
                    "0 - max_diff < wd and wd < max_diff",
                    f"gadd(self, {_Pi}, gneg(self, {_Pq})) == gmul(self, wd, {_E})",
                    f"gmul(self, wd, {_E}) != gzero(self)",
                    f"table_ok(self, self._table, self._table_size, {_E})"]
  ghost_ensures = [("C10", "result[wi] is not None and result[wq] is not None")]
  entry_ghost = ["g_V = 0", "g_VD = True", "g_VN = True"]
  INV = ["len(res) == len(points)", "len(negated) == len(other_points) + i",
         "forall(k, 0, i, negated[len(other_points) + k][0] == points[k][0] and "
         "negated[len(other_points) + k][1] == (0 - points[k][1]) % self.mod)",
         "forall(k, 0, len(negated), wf_point(negated[k]))", "self._table_size >= max_diff",
         ("C10", f"table_ok(self, self._table, self._table_size, {_E})"),
         ("C10", f"implies(i > wi, {_DONE})")]
  on_call = {
      BAX: [
          "begin_scope",
          "let ON = i == wi",
          "let JN = len(other_points) + wq",
          f"let GD = gmul(self, wd, {_E})", f"let GN = gmul(self, 0 - wd, {_E})",
          "let AD = wd if wd >= 0 else 0 - wd",
          "implies(ON, " + axg("elt_neg", "points[wq][0]", "points[wq][1]") + ")",
          "assert [C10] implies(ON, negated[JN][0] is not None and oncv(self, negated[JN][0], negated[JN][1]) and "
          f"elt(self, negated[JN][0], negated[JN][1]) == gneg(self, {_Pq}))",
          "assert [C10] implies(ON, gadd(self, eltp(self, p), eltp(self, negated[JN])) == GD)",
          "implies(ON, " + axg("gmul_negate", "wd", _E) + " and " + axg("gx_neg", "GD") + " and " + axg("gneg_zero", "GD") + ")",
          f"assert [C10] implies(ON, gmul(self, AD, {_E}) == GD or gmul(self, AD, {_E}) == GN)",
          "assert [C10] implies(ON, ret[JN] is not None and ret[JN] == gxc(self, GD))",
          "assert [C10] implies(ON, dict_has(self._table, ret[JN]))",
          f"let VV = gmul(self, self._table[ret[JN]], {_E}) if ON else gzero(self)",
          "implies(ON, " + axg("gx_inj", "VV", "GD") + ")",
          "assert [C10] implies(ON, VV == GD or VV == GN)",
          "end_scope",
          "g_V = self._table[ret[len(other_points) + wq]] if i == wi else 0",
          f"g_VD = (gmul(self, g_V, {_E}) == gmul(self, wd, {_E})) if i == wi else True",
          f"g_VN = (gmul(self, g_V, {_E}) == gmul(self, 0 - wd, {_E})) if i == wi else True",
          "assert [C10] implies(i == wi, g_VD or g_VN)"],
      NEGF: [
          # q = Negate(negated[j]) is points[wq] again: (-((-y) % m)) % m == y for a reduced y
          "let ONQ = defined('x') and defined('j') and i == wi and j == len(other_points) + wq",
          "implies(ONQ, divmod_def(0 - points[wq][1], self.mod) and divmod_def(0 - negated[j][1], self.mod))",
          "assert [C10] implies(ONQ, ret[0] == points[wq][0] and ret[1] == points[wq][1])"],
      SUBF: [
          "let ONS = i == wi and j == len(other_points) + wq",
          f"assert [C10] implies(ONS, ret[0] is not None and elt(self, ret[0], ret[1]) == gmul(self, wd, {_E}) and "
          "0 <= ret[0] and ret[0] < self.mod and 0 <= ret[1] and ret[1] < self.mod)"],
      MUL: [
          "begin_scope",
          "let ON = defined('diff') and i == wi and j == len(other_points) + wq",
          "let d_ = args[1] if ON else 0",
          f"let E_ = {_E}",
          "implies(ON, " + axg("gmul_negate", "d_", "E_") + " and " + axg("gmul_negate", "0 - wd", "E_") + " and " +
          axg("gneg_zero", "gmul(self, d_, E_)") + " and " + axg("gmul_negate", "0 - d_", "E_") + " and " +
          axg("gmul_negate", "g_V", "E_") + ")",
          "assert [C10] implies(ON and ((d_ == g_V and g_VD) or (d_ == 0 - g_V and g_VN)), "
          "gmul(self, d_, E_) == gmul(self, wd, E_))",
          "implies(ON and ret[0] is not None and diff[0] is not None, " + axg("elt_inj", "ret[0]", "ret[1]", "diff[0]", "diff[1]") + ")",
          "implies(ON and diff[0] is not None, " + axg("elt_finite", "diff[0]", "diff[1]") + ")",
          "assert [C10] implies(ON and ((d_ == g_V and g_VD) or (d_ == 0 - g_V and g_VN)), "
          "ret[0] is not None and ret[0] == diff[0] and ret[1] == diff[1])",
          "end_scope"]}
  loops = {0: dict(invariant=INV, types={"res": "list[Optional[str]]", "negated": "list[point]"},
                   keep={"g_V", "g_VD", "g_VN"}),
           1: dict(invariant=INV + [("C10", f"implies(i == wi and j > len(other_points) + wq, {_DONE})")],
                   types={"res": "list[Optional[str]]"}, keep={"negated", "g_V", "g_VD", "g_VN"})}
  var_types = {"res": "list[Optional[str]]", "negated": "list[point]"}
  feasibility = False
  props = ["C10"]


_ax("g_neg_sub", {"x": "int", "y": "int"}, [],
    ["ufi('gneg', ca, cb, cm, ufi('gadd', ca, cb, cm, x, ufi('gneg', ca, cb, cm, y))) == "
     "ufi('gadd', ca, cb, cm, y, ufi('gneg', ca, cb, cm, x))"], "-(x - y) == y - x")


def _differences_soundness():
  """C02, second sentence: whenever BatchDLOfDifferences records 'key - (x, y) = k * G', that relation holds (group view,
  for on-curve keys): the string is written only on the branch diff == diff2 with diff = Subtract(p, q) and
  diff2 = Multiply(G, dl); the partner's record 'key2 - p = -dl * G' is the negated relation."""
  from pyvc.contracts import REGISTRY
  c = REGISTRY[f"{E}::EcCurve.BatchDLOfDifferences"]
  G_ = "elt(self, self.g[0], self.g[1])"
  c.on_assign["res#0"] = [
      "assert [C02,C10] implies(onp(self, p) and onp(self, q) and diff[0] is not None, "
      f"gadd(self, eltp(self, p), gneg(self, eltp(self, q))) == gmul(self, dl, {G_}))"]
  c.on_assign["res#1"] = [
      "implies(onp(self, p) and onp(self, q), " + ax("g_neg_sub", "eltp(self, p)", "eltp(self, q)") + " and " +
      ax("gmul_negate", "dl", G_) + ")",
      "assert [C02,C10] implies(onp(self, p) and onp(self, q) and diff[0] is not None, "
      f"gadd(self, eltp(self, q), gneg(self, eltp(self, p))) == gmul(self, 0 - dl, {G_}))"]


_differences_soundness()


# BatchMultiplyG (comb method; the regrouping of the scalar's bits is outside the front end, the function stays an assumed
# contract decided by the bounded tier).  Second, partial contract: "for any integers, negative or beyond the order" rests
# on the first statement - every scalar is replaced by its canonical residue modulo the group order before the comb
# reads its bits (the two's complement expansion of a negative integer never ends).
@contract(f"{E}::EcCurve.BatchMultiplyG#reduce")
class BatchMultiplyGReduce:
  params = {"scalars": "list[int]"}
  self_fields = {"a": "int", "b": "int", "mod": "int", "n": "int", "h": "int", "g": "tuple[int,int]"}
  returns = "opaque"
  requires = ["self.n >= 2"]
  entry_ghost = ["g_in = scalars"]
  on_assign = {"scalars@0": [
      "assert [C11] len(scalars) == len(g_in)",
      "assert [C11] forall(k, 0, len(g_in), 0 <= scalars[k] and scalars[k] < self.n and (scalars[k] - g_in[k]) % self.n == 0)",
      "stop"]}
  props = ["C11"]
