"""Group view of the curve E(F_p) (C02, C06, C10, C11): the scalar-multiplication LOOPS are proved against the group
law for every scalar; the step "the Jacobian / affine formulas compute the group operation" is an ASSUMED bridge.

Vocabulary (uninterpreted, all functions of the curve (a, b, mod)): element ids elt(x, y) of finite affine points and
jelt(X, Y, Z) of finite Jacobian triples, gzero, gadd, gneg, gmul(k, e).  The group axioms and the laws of gmul are
axiom schemas of the specification theory (mathematics, no statement about code), instantiated explicitly.

Bridge (assumed, listed in the evidence as `assumed clause of ...`): AddJacobian / DoubleJacobian / JacobianToAffine /
BatchJacobianToAffine map representatives to the group operation.  Its justification is the C11 proof (ring pass: the
formulas ARE the textbook chord/tangent law for every prime field; value pass: branch correspondence, reduced results)
plus the textbook fact that the chord/tangent law is an abelian group law.  What is PROVED here on top of it, for all
inputs: Multiply (sign handling, n == 1 shortcut, double-and-add over the binary expansion) returns n * P;
PointSequence returns [k * base]; the logarithm-view postconditions of Multiply used by the discrete-log contracts
follow from it."""
from pyvc.contracts import contract, macro, spec_axiom

E = "paranoid_crypto/lib/ec_util.py"
F = {"a": "int", "b": "int", "mod": "int", "n": "int", "h": "int", "g": "tuple[int,int]"}

macro("gzero", ["c"], "ufi('gzero', c.a, c.b, c.mod)")
macro("gadd", ["c", "x", "y"], "ufi('gadd', c.a, c.b, c.mod, x, y)")
macro("gneg", ["c", "x"], "ufi('gneg', c.a, c.b, c.mod, x)")
macro("gmul", ["c", "k", "x"], "ufi('gmul', c.a, c.b, c.mod, k, x)")
macro("elt", ["c", "px", "py"], "ufi('elt', c.a, c.b, c.mod, px, py)")
macro("eltp", ["c", "p"], "(gzero(c) if p[0] is None else elt(c, p[0], p[1]))")
macro("jeltp", ["c", "q"], "(gzero(c) if q[2] == 0 else ufi('jelt', c.a, c.b, c.mod, q[0], q[1], q[2]))")
# a Jacobian triple the formulas accept: Z reduced, not the all-zero triple
macro("wfj", ["c", "q"], "(0 <= q[2] and q[2] < c.mod and (q[2] != 0 or q[0] != 0 or q[1] != 0))")

# on-curve representatives (the bridge is claimed for these only: off the curve the chord/tangent formulas are not a
# group law).  oncv is DEFINED by the curve equation (axiom schema oncv_def); jon is its Jacobian counterpart.
macro("oncv", ["c", "px", "py"], "ufb('oncv', c.a, c.b, c.mod, px, py)")
macro("onp", ["c", "p"], "(p[0] is None or oncv(c, p[0], p[1]))")
macro("jonp", ["c", "q"], "(q[2] == 0 or ufb('jon', c.a, c.b, c.mod, q[0], q[1], q[2]))")

CV = {"ca": "int", "cb": "int", "cm": "int"}


def _ax(name, extra, hyps, concl, doc):
  ns = dict(vars=dict(CV, **extra), hyps=hyps, concl=concl, __doc__=doc)
  return spec_axiom(name)(type(name, (), ns))


_ax("g_zero_l", {"x": "int"}, [], ["ufi('gadd', ca, cb, cm, ufi('gzero', ca, cb, cm), x) == x"], "0 + x == x")
_ax("g_zero_r", {"x": "int"}, [], ["ufi('gadd', ca, cb, cm, x, ufi('gzero', ca, cb, cm)) == x"], "x + 0 == x")
_ax("g_assoc", {"x": "int", "y": "int", "z": "int"}, [],
    ["ufi('gadd', ca, cb, cm, ufi('gadd', ca, cb, cm, x, y), z) == ufi('gadd', ca, cb, cm, x, ufi('gadd', ca, cb, cm, y, z))"],
    "(x + y) + z == x + (y + z)")
_ax("gmul_0", {"x": "int"}, [], ["ufi('gmul', ca, cb, cm, 0, x) == ufi('gzero', ca, cb, cm)"], "0 * x == 0")
_ax("gmul_1", {"x": "int"}, [], ["ufi('gmul', ca, cb, cm, 1, x) == x"], "1 * x == x")
_ax("gmul_zero", {"k": "int"}, [],
    ["ufi('gmul', ca, cb, cm, k, ufi('gzero', ca, cb, cm)) == ufi('gzero', ca, cb, cm)"], "k * 0 == 0")
_ax("gmul_neg", {"k": "int", "x": "int"}, [],
    ["ufi('gmul', ca, cb, cm, 0 - k, ufi('gneg', ca, cb, cm, x)) == ufi('gmul', ca, cb, cm, k, x)"], "(-k) * (-x) == k * x")
_ax("gmul_halve", {"k": "int", "r": "int", "x": "int"}, [],
    ["ufi('gmul', ca, cb, cm, 2 * k + r, x) == ufi('gadd', ca, cb, cm, ufi('gmul', ca, cb, cm, r, x), "
     "ufi('gmul', ca, cb, cm, k, ufi('gadd', ca, cb, cm, x, x)))"], "(2k + r) * x == r * x + k * (x + x)")
_ax("gmul_succ", {"k": "int", "x": "int"}, [],
    ["ufi('gmul', ca, cb, cm, k + 1, x) == ufi('gadd', ca, cb, cm, ufi('gmul', ca, cb, cm, k, x), x)"],
    "(k + 1) * x == k * x + x")
_ax("jelt_affine", {"x": "int", "y": "int"}, [],
    ["ufi('jelt', ca, cb, cm, x, y, 1) == ufi('elt', ca, cb, cm, x, y)"], "the triple (x, y, 1) represents (x, y)")
_ax("oncv_def", {"x": "int", "y": "int"}, [],
    ["ufb('oncv', ca, cb, cm, x, y) == ((y * y - (x * x * x + ca * x + cb)) % cm == 0)"],
    "definition: (x, y) satisfies y^2 == x^3 + a x + b (mod p)")
_ax("jon_affine", {"x": "int", "y": "int"}, [],
    ["ufb('jon', ca, cb, cm, x, y, 1) == ufb('oncv', ca, cb, cm, x, y)"], "the triple (x, y, 1) is on the curve iff (x, y) is")
_ax("elt_finite", {"x": "int", "y": "int"}, [],
    ["ufi('elt', ca, cb, cm, x, y) != ufi('gzero', ca, cb, cm)"], "a finite point is not the identity")

# link to the logarithm view of <G> (contracts/ec_util.py: dlog / in_group): k * P for P in <G>
LV = dict(CV, gx="int", gy="int", cn="int", px="int", py="int", k="int", rx="int", ry="int")
spec_axiom("log_of_mul")(type("log_of_mul", (), dict(
    vars=LV,
    hyps=["ufb('in_group', ca, cb, cm, gx, gy, cn, px, py)",
          "ufi('elt', ca, cb, cm, rx, ry) == ufi('gmul', ca, cb, cm, k, ufi('elt', ca, cb, cm, px, py))"],
    concl=["ufb('in_group', ca, cb, cm, gx, gy, cn, rx, ry)",
           "(ufi('dlog', ca, cb, cm, gx, gy, cn, rx, ry) - k * ufi('dlog', ca, cb, cm, gx, gy, cn, px, py)) % cn == 0",
           "(k * ufi('dlog', ca, cb, cm, gx, gy, cn, px, py)) % cn != 0"],
    __doc__="for P in <G> with logarithm L: a finite point equal to k * P is in <G> with logarithm k * L (mod n)")))
spec_axiom("log_of_mul_inf")(type("log_of_mul_inf", (), dict(
    vars={k: v for k, v in LV.items() if k not in ("rx", "ry")},
    hyps=["ufb('in_group', ca, cb, cm, gx, gy, cn, px, py)",
          "ufi('gmul', ca, cb, cm, k, ufi('elt', ca, cb, cm, px, py)) == ufi('gzero', ca, cb, cm)"],
    concl=["(k * ufi('dlog', ca, cb, cm, gx, gy, cn, px, py)) % cn == 0"],
    __doc__="for P in <G> with logarithm L: k * P is the identity only if k * L == 0 (mod n)")))


def ax(name, *args):
  return f"lemma('{name}', self.a, self.b, self.mod, {', '.join(args)})"


BRIDGE_WHY = ("group view of the formulas: C11 ring pass (formulas == textbook chord/tangent law, every prime field) + "
              "value pass (branch correspondence) + the textbook fact that the law is an abelian group law on the curve")


def bridge(target, clause):
  """Adds an ASSUMED caller-visible clause (group view) to an existing contract of contracts/ec_arith.py."""
  from pyvc.contracts import REGISTRY, Clause
  c = REGISTRY[target]
  cl = Clause(clause)
  if c.caller_ensures is None:
    c.caller_ensures = list(c.ensures) + list(c.defines)
  c.caller_ensures.append(cl)
  c.caller_assumed.add(cl.text)


import contracts.ec_arith  # noqa: E402,F401  (the contracts extended below)

bridge(f"{E}::EcCurve.AddJacobian",
       "implies(wfj(self, p) and wfj(self, q) and jonp(self, p) and jonp(self, q), wfj(self, result) and "
       "jonp(self, result) and jeltp(self, result) == gadd(self, jeltp(self, p), jeltp(self, q)))")
bridge(f"{E}::EcCurve.DoubleJacobian",
       "implies(wfj(self, p) and jonp(self, p), wfj(self, result) and jonp(self, result) and "
       "jeltp(self, result) == gadd(self, jeltp(self, p), jeltp(self, p)))")
bridge(f"{E}::EcCurve.JacobianToAffine",
       "implies(wfj(self, p) and jonp(self, p), onp(self, result) and eltp(self, result) == jeltp(self, p))")
bridge(f"{E}::EcCurve.Negate",
       "implies(onp(self, p), onp(self, result) and eltp(self, result) == gneg(self, eltp(self, p)))")

A2J = f"{E}::EcCurve.AffineToJacobian"
NEG = f"{E}::EcCurve.Negate"
P11 = "C02,C06,C10,C11,C18"
_MUL = "implies(onp(self, p), onp(self, result) and eltp(self, result) == gmul(self, n, eltp(self, p)))"
_LOG1 = ("implies(not is_inf(p) and in_group(self, p[0], p[1]) and not is_inf(result), in_group(self, result[0], result[1]) "
         "and (dlog(self, result[0], result[1]) - n * dlog(self, p[0], p[1])) % self.n == 0)")
_LOG2 = "implies(not is_inf(p) and in_group(self, p[0], p[1]), is_inf(result) == ((n * dlog(self, p[0], p[1])) % self.n == 0))"
_DET = "is_inf(result) == ufb('ec_mul_is_inf', self.a, self.b, self.mod, p[0] is None, p[0], p[1], n)"


@contract(f"{E}::EcCurve.Multiply")
class Multiply:
  """PROVED for every curve, every on-curve point and every integer n (negative, 0, 1, multiples of the order alike):
  the result is n * P in the group view - sign handling through Negate, the n == 1 shortcut, and the double-and-add
  loop over the binary expansion of n (invariant: res + n * pj == n0 * P).  The two logarithm-view clauses used by the
  discrete-log contracts follow from it through the axiom schemas log_of_mul / log_of_mul_inf.  Assumed: the bridge
  clauses of the four formula-level callees (contracts/ec_group.py) and that a point of <G> is on the curve."""
  frame_props = ["C02", "C06", "C10", "C11"]
  params = {"p": "point", "n": "int"}
  self_fields = F
  returns = "point"
  requires = ["self.mod >= 3", "wf_point(p)"]
  # JacobianToAffine's "all coordinates zero" error: excluded for on-curve points; off the curve it does occur
  # (e.g. secp256r1, P = (1, p), n = 2: the tangent formula degenerates) - not reachable from any check with n == 2
  raises_only_if = {"ValueError": (P11, "not onp(self, p)")}
  entry_ghost = ["g_T = gmul(self, n, eltp(self, p))", "g_on = onp(self, p)", "g_fin = p[0] is not None",
                 "g_px = p[0] if p[0] is not None else 0", "g_py = p[1] if p[1] is not None else 0", "g_k = n"]
  spec_axioms = ["forall((x, y), True, implies(in_group(self, x, y), oncv(self, x, y)))"]
  ensures = ["wf_point(result)", "implies(is_inf(p), is_inf(result))", (P11, _MUL), (P11, _LOG1), (P11, _LOG2)]
  caller_ensures = ["wf_point(result)", "implies(is_inf(p), is_inf(result))", _MUL, _LOG1, _LOG2, _DET]
  caller_assumed = [_DET]      # determinism of a function without state (frame obligation): names its infinity verdict
  on_call = {NEG: [ax("gmul_neg", "g_k", "elt(self, g_px, g_py)")],
             A2J: [ax("jelt_affine", "ret[0]", "ret[1]"), ax("jon_affine", "ret[0]", "ret[1]"),
                   ax("g_zero_l", "gmul(self, n, jeltp(self, ret))")]}
  loops = {0: dict(
      invariant=["n >= 0",
                 (P11, "implies(g_on, wfj(self, res) and wfj(self, pj) and jonp(self, res) and jonp(self, pj) and "
                       "gadd(self, jeltp(self, res), gmul(self, n, jeltp(self, pj))) == g_T)")],
      keep={"g_T", "g_on", "g_fin", "g_px", "g_py", "g_k"},
      body_end=[(P11, "divmod_def(pre_n, 2)"),
                (P11, ax("gmul_halve", "n", "r", "jeltp(self, pre_pj)")),
                (P11, ax("gmul_0", "jeltp(self, pre_pj)")), (P11, ax("gmul_1", "jeltp(self, pre_pj)")),
                (P11, ax("g_zero_l", "gmul(self, n, gadd(self, jeltp(self, pre_pj), jeltp(self, pre_pj)))")),
                (P11, ax("g_assoc", "jeltp(self, pre_res)", "jeltp(self, pre_pj)",
                         "gmul(self, n, gadd(self, jeltp(self, pre_pj), jeltp(self, pre_pj)))"))],
      at_exit=[(P11, ax("gmul_0", "jeltp(self, pj)")), (P11, ax("g_zero_r", "jeltp(self, res)"))])}
  return_hints = [
      (P11, ax("gmul_1", "eltp(self, p)")), (P11, ax("gmul_zero", "g_k")),
      (P11, "implies(g_fin and result[0] is not None, lemma('log_of_mul', self.a, self.b, self.mod, self.g[0], self.g[1], "
            "self.n, g_px, g_py, g_k, result[0], result[1]))"),
      (P11, "implies(g_fin, lemma('log_of_mul_inf', self.a, self.b, self.mod, self.g[0], self.g[1], self.n, g_px, g_py, g_k))"),
      (P11, "implies(result[0] is not None, " + ax("elt_finite", "result[0]", "result[1]") + ")")]
  props = ["C02", "C06", "C10", "C11", "C18"]


CURVE_REQ = ["self.mod >= 3", "self.n >= 2", "self.h >= 1"]
_J2A = ("forall(k, 0, len(p_list), implies(wfj(self, p_list[k]) and jonp(self, p_list[k]), "
        "onp(self, result[k]) and eltp(self, result[k]) == jeltp(self, p_list[k])))")


@contract(f"{E}::EcCurve.BatchJacobianToAffine")
class BatchJacobianToAffine:
  """Proved: one affine point per Jacobian triple, infinity exactly for the triples with Z == 0 (BatchInverse's shape
  contract).  Assumed (bridge): a finite triple converts to the point it represents - the formulas x = X w^2, y = Y w^3
  with w the shared-inversion inverse of Z are JacobianToAffine's, proved in the ring pass there; the inverses come from
  BatchInverse (proved: Montgomery's trick yields inverses)."""
  params = {"p_list": "list[jpoint]"}
  self_fields = F
  returns = "list[point]"
  requires = CURVE_REQ
  raises = {"ArithmeticError": None}
  # ring pass (C11): every finite entry is (X w^2, Y w^3) with w Z == 1 (mod p) - JacobianToAffine's statement
  congruence_mod = "self.mod"
  entry_ghost = ["g_K = 0"]
  on_call = {f"{E}::EcCurve.BatchInverse": [
      "g_K = invert_k(ufi('pp', len(args[0])), self.mod)",
      "assert [C11] forall(k, 0, len(p_list), ret[k] is None or ret[k] * p_list[k][2] == 1 + self.mod * g_K)"]}
  on_assign = {"y": ["assert [C11] w * p[2] == 1 + self.mod * g_K",
                     "euclid(w * p[2] - 1, self.mod, 0, g_K)",
                     "assert [C11] (w * p[2] - 1) % self.mod == 0",
                     "assert [C11] x == p[0] * (w * w)", "assert [C11] y == p[1] * (w * w * w)"]}
  ensures = [("C10,C11", "len(result) == len(p_list)"),
             ("C10,C11", "forall(k, 0, len(p_list), wf_point(result[k]) and (result[k][0] is None) == (p_list[k][2] == 0))")]
  caller_ensures = ["len(result) == len(p_list)",
                    "forall(k, 0, len(p_list), wf_point(result[k]) and (result[k][0] is None) == (p_list[k][2] == 0))", _J2A]
  caller_assumed = [_J2A]
  loops = {0: dict(invariant=["len(res) == len(p_list)", "len(inverses) == len(p_list)",
                              "forall(k, 0, len(p_list), (inverses[k] is None) == (p_list[k][2] == 0))",
                              "forall(k, 0, i, wf_point(res[k]) and (res[k][0] is None) == (p_list[k][2] == 0))",
                              ("C11", "forall(k, 0, len(p_list), inverses[k] is None or "
                                      "inverses[k] * p_list[k][2] == 1 + self.mod * g_K)")],
                   types={"res": "list[point]"}, keep={"g_K"})}
  var_types = {"res": "list[point]"}
  props = ["C10", "C11"]


_SEQ = ("implies(onp(self, base), forall(k, 0, len(result), onp(self, result[k]) and "
        "eltp(self, result[k]) == gmul(self, k, eltp(self, base))))")


@contract(f"{E}::EcCurve.PointSequence")
class PointSequence:
  """PROVED in the group view, for every n and every on-curve base: entry k is k * base (repeated Jacobian addition of the
  base, converted by BatchJacobianToAffine) - under the bridge clauses of AddJacobian and BatchJacobianToAffine."""
  frame_props = ["C10", "C11"]
  params = {"base": "point", "n": "int"}
  self_fields = F
  returns = "list[point]"
  requires = CURVE_REQ + ["wf_point(base)"]
  raises = {"ArithmeticError": None}
  ensures = [("C10,C11", "len(result) == max(n, 0)"), ("C10,C11", "forall(k, 0, len(result), wf_point(result[k]))"),
             ("C10,C11", _SEQ)]
  on_call = {A2J: ["implies(base[0] is not None, " + ax("jelt_affine", "ret[0]", "ret[1]") + " and " +
                   ax("jon_affine", "ret[0]", "ret[1]") + ")", ax("gmul_0", "eltp(self, base)")]}
  loops = {0: dict(invariant=["len(res) == n", "1 <= i",
                              ("C10,C11", "implies(onp(self, base), forall(k, 0, i, wfj(self, res[k]) and jonp(self, res[k]) "
                                          "and jeltp(self, res[k]) == gmul(self, k, eltp(self, base))))")],
                   types={"res": "list[jpoint]"},
                   # at the end of the body `i` is already the next index: this iteration wrote res[i - 1]
                   body_end=[("C10,C11", ax("gmul_succ", "i - 2", "eltp(self, base)"))])}
  var_types = {"res": "list[jpoint]"}
  props = ["C10", "C11"]
