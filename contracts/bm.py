"""Contracts for berlekamp_massey.py closed forms (C14).  The Berlekamp-Massey routines themselves (Python and C++) are
outside the verifier's reach (correctness theorem of the algorithm / C++): bounded tier only."""
from pyvc.contracts import contract, macro

BM = "paranoid_crypto/lib/randomness_tests/berlekamp_massey.py"
# number of n-bit sequences with linear complexity m (Rueppel): 1 for m == 0, 2^(2m-1) for m <= n/2, 4^(n-m) above
macro("lfsr_count_spec", ["n", "m"],
      "0 if (m < 0 or n <= 0 or m > n) else (1 if m == 0 else (pow2(2 * m - 1) if 2 * m <= n else pow2(2 * (n - m))))")


@contract(f"{BM}::LfsrCount")
class LfsrCount:
  params = {"n": "int", "m": "int"}
  returns = "int"
  ensures = [("C14", "result == lfsr_count_spec(n, m)")]
  total = True
  props = ["C14"]


@contract(f"{BM}::LfsrLogProbability")
class LfsrLogProbability:
  params = {"n": "int", "m": "int"}
  returns = "int"
  raises = {"ValueError": ("C14", "n <= 0 or m < 0 or m > n")}
  # count == 2^(n + log-probability): the two closed forms agree
  ensures = [("C14", "n + result >= 0 and pow2(n + result) == lfsr_count_spec(n, m)")]
  total = True
  props = ["C14"]
