"""Contracts for paranoid_crypto/lib/base_check.py (C16)."""
from pyvc.contracts import contract

B = "paranoid_crypto/lib/base_check.py"


@contract(f"{B}::BaseCheck._CreateTestResult")
class CreateTestResult:
  params = {}
  self_fields = {"severity": "Optional[int]", "check_name": "str"}
  returns = "rec:TestResultsEntry"
  raises = {"KeyError": ("C16,C18", "self.severity is None")}
  ensures = [("C16", "result.severity == self.severity"), ("C16", "result.test_name == self.check_name"),
             ("C16", "result.result == False")]
  total = True
  props = ["C16", "C18"]
