"""Contracts for ecdsa_sig_checks.py (C02, C16, C17, C18).

pks (point -> [signature indexes]) is modelled abstractly (ref:PointMap) with the ghost relation
pm_has(pks, px, py, idx) = "idx is listed under the point (px, py)".  The lattice / U2F guess generation is an
abstracted region: the proof must hold for ARBITRARY guesses, which is exactly the soundness claim of C02."""
from pyvc.contracts import contract

D = "paranoid_crypto/lib/ecdsa_sig_checks.py"
E = "paranoid_crypto/lib/ec_util.py"
SET = "paranoid_crypto/lib/util.py::SetTestResult"
INFO = "paranoid_crypto/lib/util.py::AttachInfo"
CURVE = "obj:paranoid_crypto/lib/ec_util.py::EcCurve"


@contract(f"{E}::EcCurve.BatchMultiplyG")
class BatchMultiplyG:
  frame_props = ["C02", "C11", "C17"]
  params = {"scalars": "list[int]"}
  self_fields = {"a": "int", "b": "int", "mod": "int", "n": "int", "h": "int", "g": "tuple[int,int]"}
  returns = "list[point]"
  assumed = True
  assumed_why = "comb multiplication: group-law correctness under C11 (ring mode + bounded tier bounded/c11.py)"
  ensures = ["len(result) == len(scalars)",
             "forall(j, 0, len(result), (result[j][0] is None) == (result[j][1] is None))",
             "forall(j, 0, len(result), result[j][0] is None or is_dlog(self, scalars[j], result[j][0], result[j][1]))"]


@contract(f"{D}::_MapIssuerSigIndexes")
class MapIssuerSigIndexes:
  """Proved against the body (defaultdict(list) modelled as the ghost relation pm_has): an index is listed under a point
  only if it is a valid index whose signature has that issuer point, and EVERY index is listed under its own point."""
  frame_props = ["C02", "C17"]
  params = {"sigs": "list[ref:ECDSASignature]"}
  returns = "ref:PointMap"
  point_maps = True
  ensures = [("C02,C17", "forall((i, px, py), pm_has(result, px, py, i), 0 <= i and i < len(sigs) and "
                         "bval(sigs[i].issuer_key_info.x) == px and bval(sigs[i].issuer_key_info.y) == py)"),
             ("C17", "forall(i, 0, len(sigs), pm_has(result, bval(sigs[i].issuer_key_info.x), "
                     "bval(sigs[i].issuer_key_info.y), i))")]
  caller_ensures = ["forall((i, px, py), pm_has(result, px, py, i), 0 <= i and i < len(sigs) and "
                    "bval(sigs[i].issuer_key_info.x) == px and bval(sigs[i].issuer_key_info.y) == py)"]
  loops = {0: dict(invariant=[("C02,C17", "forall((k, px, py), pm_has(pks, px, py, k), 0 <= k and k < i and "
                                          "bval(sigs[k].issuer_key_info.x) == px and bval(sigs[k].issuer_key_info.y) == py)"),
                              ("C17", "forall(k, 0, i, pm_has(pks, bval(sigs[k].issuer_key_info.x), "
                                      "bval(sigs[k].issuer_key_info.y), k))")])}
  props = ["C02", "C17"]


@contract(f"{D}::_IssuerDLogs")
class IssuerDLogs:
  params = {"guesses": "list[int]", "pks": "ref:PointMap", "curve": CURVE}
  returns = "dict[int,int]"
  requires = ["curve.n >= 2"]
  # every recorded (index -> d) comes with a point under which the index is listed and whose discrete log is d
  ensures = [("C02", "forall(idx, dict_has(result, idx), exists((px, py), True, pm_has(pks, px, py, idx) and "
                     "is_dlog(curve, result[idx], px, py)))")]
  loops = {0: dict(invariant=[("C02", "forall(idx, dict_has(issuer_dlogs, idx), exists((px, py), True, "
                                     "pm_has(pks, px, py, idx) and is_dlog(curve, issuer_dlogs[idx], px, py)))")],
                   types={"issuer_dlogs": "dict[int,int]"}),
           1: dict(invariant=[("C02", "forall(idx, dict_has(issuer_dlogs, idx), exists((px, py), True, "
                                     "pm_has(pks, px, py, idx) and is_dlog(curve, issuer_dlogs[idx], px, py)))")],
                   types={"issuer_dlogs": "dict[int,int]"})}
  total = True
  props = ["C02", "C18"]

SELF_BASE = {"severity": "Optional[int]", "check_name": "str"}
REQ_SELF = ["self.severity is not None", "self.severity >= 0"]
ENTRY = ["g_sets = 0", "g_res = False", "g_sev = 0 - 1", "g_name = ''", "g_attached = False", "g_any = False"]
HEAD = ["g_sets = 0", "g_res = False", "g_sev = 0 - 1", "g_name = ''", "g_attached = False"]
ON_SET = ["assert [C16,C17] args[0] is sig.test_info", "g_sets = g_sets + 1", "g_res = args[1].result",
          "g_sev = args[1].severity", "g_name = args[1].test_name", "g_any = g_any or args[1].result"]
INV = [("C16", "any_weak == g_any")]
RET = [("C16", "result == g_any")]
ON_INFO = ["assert [C02,C16,C17] args[0] is sig.test_info", "assert [C02] args[1] == 'DISCRETE_LOG'",
           # no signature is marked weak without a verifiable private key of ITS issuer
           "assert [C02] dict_has(issuer_dlogs, _iLAST) and args[2] == hex_of(issuer_dlogs[_iLAST]) and "
           "is_dlog(curve, issuer_dlogs[_iLAST], bval(sig.issuer_key_info.x), bval(sig.issuer_key_info.y))",
           "g_attached = True"]


def nonce_check(cls, last, self_fields):
  body_end = [("C16", "g_sets == 1"), ("C16", "g_name == self.check_name"), ("C16", "g_sev == self.severity"),
              ("C02", "g_res == g_attached"), ("C02,C17", f"g_res == dict_has(issuer_dlogs, _i{last})")]
  loops = {0: dict(cut=True, cases=True, invariant=list(INV), independent=True),
           1: dict(abstract=True, types={"guesses": "opaque"}),
           last: dict(independent=True, invariant=list(INV), head=list(HEAD), body_end=body_end,
                      keep={"curve", "curve_id", "sigs", "pks", "issuer_dlogs", "guesses"})}
  ns = dict(params={"artifacts": "list[ref:ECDSASignature]"}, returns="bool", self_fields=dict(SELF_BASE, **self_fields),
            requires=list(REQ_SELF), entry_ghost=list(ENTRY), loops=loops,
            on_call={SET: list(ON_SET), INFO: [s.replace("_iLAST", f"_i{last}") for s in ON_INFO]},
            return_hints=list(RET), total=True, props=["C02", "C16", "C17", "C18"])
  return contract(f"{D}::{cls}.Check")(type(cls + "Check", (), ns))


nonce_check("BiasedBaseCheck", 5, {"bias": "opaque", "lcg_params": "opaque"})
nonce_check("CheckCr50U2f", 3, {})
