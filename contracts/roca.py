"""Contracts for paranoid_crypto/lib/roca.py (C06)."""
from pyvc.contracts import contract

R = "paranoid_crypto/lib/roca.py"


@contract(f"{R}::ROCAKeyDetector._HasDiscreteLog")
class HasDiscreteLog:
  params = {"value": "int", "base": "int", "n": "int"}
  self_fields = {}
  returns = "bool"
  requires = ["n >= 2", "0 <= value", "value < n"]
  # value is a power base^e (mod n) for some exponent 0 <= e <= n-2
  ensures = [("C06", "result == exists(e, 0, n - 1, powmod(base % n, e, n) == value)"),
             ("C06", "result == ufb('has_dl', value, base, n)")]
  defines = ["ufb('has_dl', value, base, n) == exists(e, 0, n - 1, powmod(base % n, e, n) == value)"]
  loops = {0: dict(invariant=[
      "accumulator == powmod(b, unused_exponent - 1, n)",
      "forall(e, 0, unused_exponent - 1, powmod(b, e, n) != value)"])}
  total = True
  props = ["C06", "C18"]


@contract(f"{R}::ROCAKeyDetector.IsWeak")
class RocaIsWeak:
  params = {"modulus": "int"}
  self_init = []          # self is built by executing ROCAKeyDetector.__init__ from the working tree
  returns = "bool"
  # flagged exactly when the residue modulo each of the 39 primes is a power of 65537 (has_dl is defined by the
  # contract of _HasDiscreteLog: exists e in [0, p-2] with 65537^e == residue (mod p))
  ensures = [("C06", "result == (len(self.PRIMES) == 39 and forall(j, 0, 39, "
                     "ufb('has_dl', modulus % self.PRIMES[j], 65537, self.PRIMES[j])))"),
             ("C06", "result == ufb('roca_weak', modulus)")]
  defines = ["ufb('roca_weak', modulus) == (len(self.PRIMES) == 39 and forall(j, 0, 39, "
             "ufb('has_dl', modulus % self.PRIMES[j], 65537, self.PRIMES[j])))"]
  # (m mod P) mod p == m mod p because p | P: explicit Euclidean witnesses, one per prime
  return_hints = [("C06", "forall(j, 0, len(self.PRIMES), euclid(modulus, self.PRIMES[j], "
                          "(modulus % self.product_of_primes) % self.PRIMES[j], "
                          "(self.product_of_primes // self.PRIMES[j]) * (modulus // self.product_of_primes) "
                          "+ (modulus % self.product_of_primes) // self.PRIMES[j]))"),
                  ("C06", "forall(j, 0, len(self.PRIMES), self.product_of_primes % self.PRIMES[j] == 0)")]
  feasibility = False
  total = True
  props = ["C06", "C18"]


@contract(f"{R}::ROCAKeyVariantDetector.IsWeak")
class RocaVariantIsWeak:
  params = {"modulus": "int"}
  self_init = []
  returns = "bool"
  # exactly the non-ROCA moduli that are quadratic residues modulo all 48 primes (tables checked by a ground obligation)
  ensures = [("C06", "result == (len(self.PRIMES) == 48 and forall(j, 0, 48, "
                     "self.quadratic_residues[self.PRIMES[j]][modulus % self.PRIMES[j]]) "
                     "and not ufb('roca_weak', modulus))"),
             ("C06", "result == ufb('roca_variant_weak', modulus)")]
  defines = ["ufb('roca_variant_weak', modulus) == (len(self.PRIMES) == 48 and forall(j, 0, 48, "
             "self.quadratic_residues[self.PRIMES[j]][modulus % self.PRIMES[j]]) "
             "and not ufb('roca_weak', modulus))"]
  caller_ensures = ["result == ufb('roca_variant_weak', modulus)"]
  feasibility = False
  total = True
  props = ["C06", "C18"]
