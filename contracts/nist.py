"""Contracts for the parameter selection / insufficient-data guards of nist_suite.py and extended_nist_suite.py (C12)
and for randomness_tests/util.py::SplitSequence (C15).  Everything after the guard prefix is floating point and is
abstracted (stop_after); the p-value formulas themselves are not decided by this family (bounded tier / N/A)."""
from pyvc.contracts import contract

N = "paranoid_crypto/lib/randomness_tests/nist_suite.py"
X = "paranoid_crypto/lib/randomness_tests/extended_nist_suite.py"
U = "paranoid_crypto/lib/randomness_tests/util.py"
SPLIT = f"{U}::SplitSequence"


@contract(SPLIT)
class SplitSequence:
  params = {"seq": "int", "length": "int", "m": "int"}
  returns = "list[int]"
  requires = ["seq >= 0", "length >= 0", "m >= 1"]
  ensures = [("C15,C12", "len(result) == length // m"),
             ("C15", "forall(j, 0, len(result), 0 <= result[j] and result[j] < pow2(m))"),
             # the definition: block j is bits j*m .. j*m + m - 1 of seq
             ("C15", "forall(j, 0, len(result), result[j] == idiv(seq, pow2(j * m)) % pow2(m))")]
  INV = ["len(res) == n", "forall(j, 0, i, 0 <= res[j] and res[j] < pow2(m))", "forall(j, i, n, res[j] == 0)",
         ("C15", "forall(j, 0, i, res[j] == idiv(seq, pow2(j * m)) % pow2(m))")]
  # loop 1 (shift-and-mask path): the block read is bytes a .. c-1 (clamped to the byte string) of the little-endian
  # encoding, shifted by s = (i*m) % 8; bits s .. s+m-1 of that read are bits i*m .. i*m+m-1 of seq
  L1 = [("C15", "begin_scope"), ("C15", "let P = _i1 * m"), ("C15", "let a = idiv(P, 8)"), ("C15", "let s = P % 8"),
        ("C15", "let c = idiv((_i1 + 1) * m, 8) + 1"), ("C15", "let hi = min(c, size)"), ("C15", "let B = 8 * (hi - a)"),
        ("C15", "let Y = idiv(seq, pow2(8 * a))"),
        ("C15", "divmod_def(P, 8) and divmod_def((_i1 + 1) * m, 8) and divmod_def(m * n, 8)"),
        ("C15", "by(0 <= a and a <= size and P == 8 * a + s and 0 <= s and s < 8 and 8 * c > P + m, "
                "P == 8 * idiv(P, 8) + P % 8, 0 <= P % 8, P % 8 < 8, a == idiv(P, 8), s == P % 8, P == _i1 * m, "
                "0 <= _i1, _i1 + 1 <= n, m >= 1, (_i1 + 1) * m == P + m, P + m <= m * n, "
                "(_i1 + 1) * m == 8 * idiv((_i1 + 1) * m, 8) + ((_i1 + 1) * m) % 8, ((_i1 + 1) * m) % 8 < 8, "
                "c == idiv((_i1 + 1) * m, 8) + 1, m * n == 8 * idiv(m * n, 8) + (m * n) % 8, 0 <= (m * n) % 8, "
                "size >= idiv(m * n, 8))"),
        ("C15", "lemma('pow2_div_div', seq, 8 * a, s)"),
        ("C15", "implies(c <= size, lemma('pow2_mod_div_mod', Y, B, s, m))"),
        ("C15", "implies(c > size, pow2_add(8 * a, B) and div_lt(seq, pow2(8 * a), pow2(B)) and "
                "euclid(Y, pow2(B), Y, 0))"),
        ("C15", "idiv(Y % pow2(B), pow2(s)) % pow2(m) == idiv(seq, pow2(P)) % pow2(m)"),
        ("C15", "res[_i1] == idiv(seq, pow2(_i1 * m)) % pow2(m)"), ("C15", "end_scope")]
  # loop 0 (byte-aligned path, m == 8q): the read is exactly bytes i*q .. (i+1)*q - 1
  L0 = [("C15", "begin_scope"), ("C15", "let q = idiv(m, 8)"), ("C15", "divmod_def(m, 8)"),
        ("C15", "by(_i0 * m == 8 * (_i0 * q) and (_i0 + 1) * m == 8 * (_i0 * q + q), m == 8 * q)"),
        ("C15", "res[_i0] == idiv(seq, pow2(_i0 * m)) % pow2(m)"), ("C15", "end_scope")]
  loops = {0: dict(invariant=INV, body_end=L0), 1: dict(invariant=INV, body_end=L1)}
  total = True
  props = ["C15", "C12", "C18"]


def impl(target, params, raises=None, returns="opaque"):
  ns = dict(params=params, returns=returns, assumed=True,
            assumed_why="floating-point statistic (scipy/math): not modelled; returns normally", raises=raises or {})
  return contract(target)(type(target.split("::")[1] + "Assumed", (), ns))


impl(f"{N}::BlockFrequencyImpl", {"blocks": "list[int]", "m": "int"})
impl(f"{N}::UniversalImpl", {"bits": "int", "n": "int", "block_size": "int", "q": "int"})
impl(f"{N}::LinearComplexityImpl", {"blocks": "list[int]", "m": "int"})
impl(f"{N}::NonOverlappingTemplateMatchingImpl", {"blocks": "list[int]", "n": "int", "m": "int", "templates": "opaque"})


@contract(f"{N}::BinaryMatrixRankImpl")
class BinaryMatrixRankImpl:
  params = {"rows": "list[int]", "r": "int", "c": "int", "k": "int"}
  returns = "opaque"
  requires = ["r >= 1"]
  raises = {"InsufficientDataError": ("C12", "len(rows) // r < 1")}
  stop_after = []
  props = ["C12"]
  loops = {0: dict(types={"v": "list[int]"})}
  assumed = True
  assumed_why = "guard proved by its own contract below is not separable from the float tail; exception condition as coded"


@contract(f"{N}::BlockFrequency")
class BlockFrequency:
  params = {"bits": "int", "n": "int"}
  returns = "opaque"
  requires = ["bits >= 0", "n >= 0"]
  raises = {"InsufficientDataError": ("C12", "n < 100")}
  # documented ladder: block size m >= 20 and fewer than 100 blocks
  on_call = {SPLIT: ["assert [C12] args[2] >= 20 and n // args[2] < 100", "assert [C12] args[1] == n"]}
  loops = {0: dict(invariant=["m >= 16"], variant="n - m")}
  stop_after = ["SplitSequence"]
  props = ["C12"]


@contract(f"{N}::LongestRuns")
class LongestRuns:
  params = {"bits": "int", "n": "int"}
  returns = "opaque"
  requires = ["bits >= 0", "n >= 0"]
  raises = {"InsufficientDataError": ("C12", "n < 128")}
  # NIST 2.4.2: M = 8 for 128 <= n < 6272, M = 128 for n < 750000, M = 10^4 above
  on_call = {SPLIT: ["assert [C12] args[2] == (8 if n < 6272 else (128 if n < 750000 else 10000))",
                     "assert [C12] args[1] == n"]}
  stop_after = ["SplitSequence"]
  props = ["C12"]


@contract(f"{N}::BinaryMatrixRank")
class BinaryMatrixRank:
  params = {"bits": "int", "n": "int", "r": "int", "c": "int", "k": "int", "check_size": "bool"}
  returns = "opaque"
  requires = ["bits >= 0", "n >= 0", "r >= 1", "c >= 1", "k >= 0", "check_size"]
  raises = {"InsufficientDataError": ("C12", "n < 38 * r * c"), "ValueError": ("C12", "min(r, c) < k")}
  return_hints = []
  # rows are the c-bit blocks of the string; what the second contract of the callee (#classes) requires of its caller
  on_call = {SPLIT: ["assert [C12] args[0] == bits and args[1] == n and args[2] == c"],
             f"{N}::BinaryMatrixRankImpl": ["assert [C12] args[1] == r and args[2] == c and args[3] == k",
                                           "assert [C12] len(args[0]) >= r"]}
  props = ["C12"]


@contract(f"{N}::Universal")
class Universal:
  params = {"bits": "int", "n": "int"}
  returns = "opaque"
  requires = ["bits >= 0", "n >= 0"]
  raises = {"InsufficientDataError": ("C12", "n < 387840")}
  # NIST 2.9.7: L is the largest block size whose minimum length is reached; Q = 10 * 2^L
  on_call = {f"{N}::UniversalImpl": [
      "assert [C12] args[2] == (6 if n < 904960 else 7 if n < 2068480 else 8 if n < 4654080 else 9 if n < 10342400 "
      "else 10 if n < 22753280 else 11 if n < 49643520 else 12 if n < 107560960 else 13 if n < 231669760 "
      "else 14 if n < 496435200 else 15 if n < 1059061760 else 16)",
      "assert [C12] args[3] == 10 * pow2(args[2])",
      # what the second contract of UniversalImpl (#table, below) requires of its caller
      "assert [C12] args[0] == bits and args[1] == n and args[2] >= 1 and args[2] <= 16",
      "assert [C12] args[3] <= idiv(args[1], args[2])"]}
  props = ["C12"]


@contract(f"{N}::LinearComplexity")
class LinearComplexity:
  params = {"bits": "int", "n": "int", "block_size": "int"}
  returns = "opaque"
  requires = ["bits >= 0", "n >= 0", "block_size >= 1"]
  raises = {"InsufficientDataError": ("C12", "block_size < 10 or 200 * block_size > n")}
  on_call = {SPLIT: ["assert [C12] args[1] == n and args[2] == block_size"]}
  props = ["C12"]


@contract(f"{X}::LargeBinaryMatrixRank")
class LargeBinaryMatrixRank:
  params = {"bits": "int", "n": "int"}
  returns = "opaque"
  requires = ["bits >= 0", "n >= 0"]
  raises = {"InsufficientDataError": ("C12", "n < 4096")}
  # the ladder of matrix sizes: 64, 128, 256, ... - every size of the doubling chain whose square fits into n is tested
  # (on its own size*size-bit prefix, split into rows of `size` bits), and the loop stops only when the next one does
  # not fit; the xorshift family is caught by the LARGEST matrix only (C13)
  entry_ghost = ["g_tested = 32"]
  on_call = {SPLIT: ["assert [C12,C13] args[2] == size and args[1] == size * size and size * size <= n",
                     "assert [C12,C13] size == 2 * g_tested", "g_tested = size"]}
  loops = {0: dict(invariant=["size >= 64", "n >= 4096", ("C12,C13", "size == 2 * g_tested"),
                              ("C12,C13", "g_tested == 32 or g_tested >= 64"),
                              ("C12,C13", "implies(g_tested >= 64, g_tested * g_tested <= n)")],
                   types={"p_values": "opaque"},
                   at_exit=[("C12,C13", "size * size > n and g_tested * g_tested <= n and g_tested >= 64")])}
  props = ["C12", "C13"]


@contract(f"{U}::BinaryMatrixRank")
class UtilBinaryMatrixRank:
  """Rank computation (table-driven elimination): decided by the bounded tier (C15); callers use the range only."""
  params = {"matrix": "list[int]"}
  returns = "int"
  assumed = True
  assumed_why = "GF(2) elimination: induction over rows, bounded tier bounded/c15.py"
  ensures = ["0 <= result and result <= len(matrix)"]


@contract(f"{N}::IsNonOverlappingTemplate")
class IsNonOverlappingTemplate:
  params = {"template": "int", "m": "int"}
  returns = "bool"
  requires = ["template >= 0", "m >= 1", "template < pow2(m)"]
  # definition (NIST 2.7): no proper border -- for no 1 <= i < m do the first i bits equal the last i bits
  ensures = [("C12", "result == forall(i, 1, m, idiv(template, pow2(m - i)) != template % pow2(i))")]
  loops = {0: dict(invariant=["forall(j, 1, i, idiv(template, pow2(m - j)) != template % pow2(j))"])}
  total = True
  props = ["C12"]


impl(f"{N}::OverlappingTemplateMatchingImpl", {"blocks": "list[int]", "block_size": "int", "m": "int"})


@contract(f"{N}::NonOverlappingTemplateMatching")
class NonOverlappingTemplateMatching:
  """Guard and parameter ladder for all n, blocks: with m and templates left to the library, insufficient data exactly
  when a block has fewer than 4 bits; the template size follows the coded ladder (2 below 64 bits per block ... 10 from
  32768 on); the blocks handed on are the n // blocks - bit blocks of the whole string."""
  params = {"bits": "int", "n": "int", "blocks": "int", "m": "Optional[int]", "templates": "Optional[list[int]]"}
  returns = "opaque"
  requires = ["bits >= 0", "n >= 0", "blocks >= 1", "m is None", "templates is None"]
  raises = {"InsufficientDataError": ("C12", "n // blocks < 4")}
  entry_ghost = ["g_bs = n // blocks"]      # `blocks` is rebound to the list of blocks later in the body
  on_call = {SPLIT: ["assert [C12] args[1] == n and args[2] == g_bs"],
             f"{N}::NonOverlappingTemplateMatchingImpl": [
      "assert [C12] args[1] == g_bs",
      "assert [C12] args[2] == (2 if g_bs < 64 else 3 if g_bs < 256 else 4 if g_bs < 1024 else "
      "5 if g_bs < 2048 else 6 if g_bs < 4096 else 7 if g_bs < 8192 else "
      "8 if g_bs < 16384 else 9 if g_bs < 32768 else 10)"]}
  loops = {0: dict(abstract=True, types={"templates": "list[int]"}, keep={"g_bs"})}
  var_types = {"templates": "list[int]"}
  props = ["C12"]


@contract(f"{N}::OverlappingTemplateMatching")
class OverlappingTemplateMatching:
  """Default parameters (NIST 2.8.7: m = 9, block size 2^(m+1) + m - 1 = 1032): insufficient data exactly when the
  input is shorter than one block."""
  params = {"bits": "int", "n": "int", "m": "Optional[int]", "block_size": "Optional[int]"}
  returns = "opaque"
  requires = ["bits >= 0", "n >= 0", "m is None", "block_size is None"]
  raises = {"InsufficientDataError": ("C12", "n < 1032")}
  on_call = {SPLIT: ["assert [C12] args[1] == n and args[2] == 1032"],
             f"{N}::OverlappingTemplateMatchingImpl": ["assert [C12] args[1] == 1032 and args[2] == 9 and len(args[0]) >= 1"]}
  props = ["C12"]


# C12, Maurer's universal test (NIST SP 800-22 2.9.4): the integer part of the statistic.  NIST numbers blocks from 1 and
# initialises the table with 0 ("never seen"), so a block contributes log2(i - T[b]) with i - 0 = i for a first
# occurrence; the code numbers blocks from 0, so "never seen" must be -1.  Second, independent contract on the function
# (the float tail stays assumed): the table holds, for every pattern b, the position of the LAST occurrence of b among
# the blocks processed so far, or -1 if there is none - at every distance computation.
_LAST = ("forall(b, 0, pow2(block_size), "
         "(tab[b] == 0 - 1 and forall(t, 0, {hi}, blocks[t] != b)) or "
         "(0 <= tab[b] and tab[b] < {hi} and blocks[tab[b]] == b and forall(t, tab[b] + 1, {hi}, blocks[t] != b)))")


@contract(f"{N}::UniversalImpl#table")
class UniversalImplTable:
  params = {"bits": "int", "n": "int", "block_size": "int", "q": "int"}
  returns = "opaque"
  requires = ["bits >= 0", "n >= 0", "block_size >= 1", "block_size <= 16", "q >= 0", "q <= n // block_size"]
  loops = {0: dict(invariant=["len(tab) == pow2(block_size)", ("C12", _LAST.format(hi="i"))]),
           1: dict(invariant=["len(tab) == pow2(block_size)", "j >= q", ("C12", _LAST.format(hi="j"))],
                   stop_at_exit=True)}
  # the distance handed to the logarithm: j - last, where last is the position of the previous occurrence of block j's
  # pattern, or -1 if there is none (NIST: i - T[b] with 1-based i and T == 0 for "never seen")
  on_call = {"builtin:math.log": [
      "g_last = j - args[0]",
      "assert [C12] args[1] == 2",
      "assert [C12] (g_last == 0 - 1 and forall(t, 0, j, blocks[t] != blocks[j])) or (0 <= g_last and g_last < j and "
      "blocks[g_last] == blocks[j] and forall(t, g_last + 1, j, blocks[t] != blocks[j]))"]}
  props = ["C12"]


# C12, NIST 2.4.4 (longest run of ones in a block): the integer part.  The class of a block with longest run x is
# 0 for x <= v_lower, K for x >= v_upper and x - v_lower in between; the chi-square has K degrees of freedom and one
# probability per class.  LongestRunOfOnes itself (bit-parallel) is assumed here and decided by the bounded tier (C15).
@contract(f"{U}::LongestRunOfOnes")
class LongestRunOfOnes:
  params = {"seq": "int"}
  returns = "int"
  assumed = True
  assumed_why = "bit-parallel run detection: decided by the bounded tier (C15 runs_and_run_lengths); here an uninterpreted function of the block"
  returns_expr = "ufi('longest_run_of_ones', seq)"
  ensures = ["result == ufi('longest_run_of_ones', seq)"]


impl(f"{N}::ChiSquare", {"count": "list[int]", "prob": "opaque", "k": "Optional[int]"})


@contract(f"{N}::LongestRuns#classes")
class LongestRunsClasses:
  params = {"bits": "int", "n": "int"}
  returns = "opaque"
  requires = ["bits >= 0", "n >= 128"]
  loops = {1: dict(invariant=["len(v) == v_upper - v_lower + 1", "v_lower >= 1", "v_upper > v_lower"],
                   body_end=[("C12", "implies(x <= v_lower, idx == 0)"),
                             ("C12", "implies(x >= v_upper, idx == v_upper - v_lower)"),
                             ("C12", "implies(v_lower < x and x < v_upper, idx == x - v_lower)")])}
  on_call = {f"{N}::ChiSquare": [
      "assert [C12] args[0] is v",
      "assert [C12] args[2] is not None and args[2] == v_upper - v_lower",      # K degrees of freedom, K + 1 classes
      "assert [C12] v_lower == (1 if n < 6272 else (4 if n < 750000 else 10))",
      "assert [C12] v_upper == (4 if n < 6272 else (9 if n < 750000 else 16))"]}
  # total: the class index is inside the count vector (otherwise the IndexError of v[idx] would be a path assumption
  # that hides a wrong index for long runs)
  total = True
  total_props = ["C12"]
  props = ["C12"]


# C12, NIST 2.5.4 (binary matrix rank): the integer part.  Matrix i is rows i*r .. (i+1)*r - 1; a matrix of rank R is
# counted in class min(k, r - R) (class 0 = full rank, class k = rank <= r - k); chi-square with k degrees of freedom.
impl(f"{N}::RankDistribution", {"r": "int", "c": "int", "k": "int", "allow_approximation": "bool"})


@contract(f"{N}::BinaryMatrixRankImpl#classes")
class BinaryMatrixRankImplClasses:
  params = {"rows": "list[int]", "r": "int", "c": "int", "k": "int"}
  returns = "opaque"
  requires = ["r >= 1", "c >= 1", "k >= 0", "len(rows) >= r"]
  loops = {0: dict(invariant=["len(v) == k + 1", "num_matrices == len(rows) // r", "num_matrices >= 1"],
                   body_end=[("C12", "len(mat) == r"),
                             ("C12", "forall(t, 0, r, mat[t] == rows[(i - 1) * r + t])"),
                             ("C12", "v[min(k, r - g_rank)] == g_v0[min(k, r - g_rank)] + 1"),
                             ("C12", "forall(t, 0, k + 1, t == min(k, r - g_rank) or v[t] == g_v0[t])")],
                   head=["g_v0 = v[:]"])}
  entry_ghost = ["g_rank = 0", "g_v0 = 0"]
  on_call = {f"{U}::BinaryMatrixRank": ["g_rank = ret", "assert [C12] args[0] is mat"],
             f"{N}::ChiSquare": ["assert [C12] args[0] is v", "assert [C12] args[2] is not None and args[2] == k"],
             f"{N}::RankDistribution": ["assert [C12] args[0] == r and args[1] == c and args[2] == k"]}
  total = True
  total_props = ["C12"]
  props = ["C12"]


# C19, lattice_suite.Bias: the integer part of the statistic.  Every (sample, transform) pair contributes the distance of
# a*s + b to the closest multiple of n, and the Irwin-Hall CDF is evaluated for as many summands as there are pairs.
L_ = "paranoid_crypto/lib/randomness_tests/lattice_suite.py"
impl(f"{U}::UniformSumCdf", {"n": "int", "x": "opaque"})


@contract(f"{L_}::Bias#integer")
class BiasInteger:
  params = {"sample": "list[int]", "n": "int", "transforms": "list[tuple[int,int]]"}
  returns = "opaque"
  requires = ["n >= 1"]
  loops = {0: dict(invariant=["t >= 0"]),
           1: dict(invariant=["t >= 0"],
                   body_end=[("C19", "0 <= v and 2 * v <= n"),
                             ("C19", "divmod_def(a * s + b, n)"),
                             ("C19", "v == (a * s + b) % n or v == n - (a * s + b) % n"),
                             # v is the distance of x = a*s + b to a multiple of n (below or above); with 2v <= n the closest
                             ("C19", "a * s + b - v == n * idiv(a * s + b, n) or a * s + b + v == n * (idiv(a * s + b, n) + 1)"),
                             ("C19", "t == pre_t + v")])}
  on_call = {f"{U}::UniformSumCdf": ["assert [C19] args[0] == len(sample) * len(transforms)"]}
  props = ["C19"]


# C12, NIST 2.10 (linear complexity): the integer part.  A block of complexity L is counted in class
# clamp(L - median, -3, 3) + 3, where median - the centre of the seven classes - is the complexity that exactly half of all
# m-bit sequences have (Rueppel's count, the closed form proved for LfsrCount / LfsrLogProbability under C14):
# ceil(m / 2).  The Berlekamp-Massey routine itself is assumed here (C14's bounded tier decides it).
BMPY = "paranoid_crypto/lib/randomness_tests/berlekamp_massey.py"


@contract(f"{BMPY}::LinearComplexity")
class BmLinearComplexity:
  params = {"s": "int", "length": "int"}
  returns = "int"
  assumed = True
  assumed_why = "Berlekamp-Massey (C++ through pybind): decided by the bounded tier of C14; here an uninterpreted function"
  returns_expr = "ufi('linear_complexity', s, length)"
  ensures = ["result == ufi('linear_complexity', s, length)"]


@contract(f"{N}::LinearComplexityImpl#classes")
class LinearComplexityImplClasses:
  params = {"blocks": "list[int]", "m": "int"}
  returns = "opaque"
  requires = ["m >= 1"]
  entry_ghost = ["g_v0 = 0"]
  loops = {0: dict(invariant=["len(v) == 7", "k == 6"], head=["g_v0 = v[:]"],
                   body_end=[("C12", "v[min(6, max(0, length - median + 3))] == g_v0[min(6, max(0, length - median + 3))] + 1"),
                             ("C12", "forall(t, 0, 7, t == min(6, max(0, length - median + 3)) or v[t] == g_v0[t])")])}
  on_call = {f"{N}::ChiSquare": [
      "assert [C12] args[0] is v and args[2] is not None and args[2] == 6",
      "assert [C12] 2 * lfsr_count_spec(m, median) == pow2(m)",
      "stop"]}
  total = True
  total_props = ["C12"]
  props = ["C12"]


# C12, NIST 2.8 (overlapping template matching): a block with c occurrences of the all-ones template is counted in class
# min(5, c); the class probabilities are those of blocks of n bits and templates of m bits with K = 5; 5 degrees of freedom.
@contract(f"{U}::OverlappingRunsOfOnes")
class OverlappingRunsOfOnes:
  params = {"seq": "int", "m": "int"}
  returns = "int"
  assumed = True
  assumed_why = "bit-parallel run counting: decided by the bounded tier (C15 runs_and_run_lengths); here an uninterpreted function, >= 0"
  returns_expr = "ufi('overlapping_runs_of_ones', seq, m)"
  ensures = ["result == ufi('overlapping_runs_of_ones', seq, m)", "result >= 0"]


impl(f"{N}::OverlappingTemplateMatchingDistribution", {"n": "int", "m": "int", "k": "int"})


@contract(f"{N}::OverlappingTemplateMatchingImpl#classes")
class OverlappingTemplateMatchingImplClasses:
  params = {"blocks": "list[int]", "n": "int", "m": "int"}
  returns = "opaque"
  requires = ["n >= 1", "m >= 1"]
  entry_ghost = ["g_v0 = 0", "g_cnt = 0"]
  loops = {0: dict(invariant=["len(v) == 6", "k == 5"], head=["g_v0 = v[:]"],
                   body_end=[("C12", "cnt == ufi('overlapping_runs_of_ones', block, m)"),
                             ("C12", "v[min(5, cnt)] == g_v0[min(5, cnt)] + 1"),
                             ("C12", "forall(t, 0, 6, t == min(5, cnt) or v[t] == g_v0[t])")])}
  on_call = {f"{N}::OverlappingTemplateMatchingDistribution": ["assert [C12] args[0] == n and args[1] == m and args[2] == 5"],
             f"{N}::ChiSquare": ["assert [C12] args[0] is v and args[2] is not None and args[2] == 5"]}
  total = True
  total_props = ["C12"]
  props = ["C12"]
