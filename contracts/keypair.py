"""Contracts for paranoid_crypto/lib/keypair_generator.py (C01, C06): the vulnerable Keypair generator re-implemented by
the library.  What the checks rely on is only the SIZE of what it returns (two integers >= 2^(bits//2 - 1), so a product
equal to the modulus is a proper factorisation); which primes come out is AES/SHA-1 output and is decided by the bounded
tier (bounded/c06.py: regenerated keys against the shipped table)."""
from pyvc.contracts import contract

K = "paranoid_crypto/lib/keypair_generator.py"
GEN_FIELDS = {"key": "bytes", "seed": "bytes", "orig_key": "bytes"}


@contract(f"{K}::Generator.__init__")
class GeneratorInit:
  params = {"seed": "bytes"}
  self_fields = GEN_FIELDS
  assumed = True
  assumed_why = "SHA-1 key schedule (hashlib): opaque bytes; the state is 16 + 16 bytes"
  ensures = ["blen(self.key) == 16", "blen(self.seed) == 16"]


@contract(f"{K}::Generator.generate_prime")
class GeneratePrime:
  params = {"p_size_bits": "int"}
  self_fields = GEN_FIELDS
  returns = "int"
  requires = ["p_size_bits >= 2"]
  loops = {0: dict(invariant=["True"]), 1: dict(invariant=["True"]),
           2: dict(invariant=["p >= pow2(p_size_bits - 1)", "idx >= 0"])}
  ensures = [("C01,C06", "result >= pow2(p_size_bits - 1)")]
  modifies = ["self.key", "self.seed"]
  props = ["C01", "C06"]


@contract(f"{K}::Generator.generate_key")
class GenerateKey:
  params = {"bits": "int"}
  self_fields = GEN_FIELDS
  returns = "tuple[int,int]"
  requires = ["bits >= 4"]
  # the loop returns only when the product has exactly the requested length; p is the larger prime
  loops = {0: dict(invariant=["p >= pow2(idiv(bits, 2) - 1)", "q >= pow2(idiv(bits, 2) - 1)", "p_size_bits == idiv(bits, 2)"])}
  ensures = [("C01,C06", "result[0] >= pow2(idiv(bits, 2) - 1) and result[1] >= pow2(idiv(bits, 2) - 1)"),
             ("C01,C06", "result[0] >= 2 and result[1] >= 2"),
             ("C06", "bit_length(result[0] * result[1]) == bits and result[0] >= result[1]")]
  modifies = ["self.key", "self.seed"]
  props = ["C01", "C06"]
