"""Sidecar contracts for google/paranoid_crypto (no file of /repo is edited)."""
