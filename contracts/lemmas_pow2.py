"""Lemmas about powers of two, proved on every run from the theory axioms (definition of // and %, uniqueness of
Euclidean division, pow2(a+b) == pow2(a)*pow2(b)) and instantiated with lemma('<name>', args...) in contracts."""
from pyvc.contracts import lemma


@lemma("pow2_div_div")
class Pow2DivDiv:
  """(x // 2^A) // 2^S == x // 2^(A+S)"""
  vars = {"x": "int", "A": "int", "S": "int"}
  hyps = ["A >= 0", "S >= 0"]
  proof = ["let q1 = idiv(x, pow2(A))", "let q2 = idiv(q1, pow2(S))",
           "divmod_def(x, pow2(A)) and divmod_def(q1, pow2(S)) and pow2_add(A, S)",
           "let r = x % pow2(A) + pow2(A) * (q1 % pow2(S))",
           "by(x == r + pow2(A) * pow2(S) * q2, x == pow2(A) * q1 + x % pow2(A), q1 == pow2(S) * q2 + q1 % pow2(S), "
           "r == x % pow2(A) + pow2(A) * (q1 % pow2(S)))",
           "by(0 <= r and r < pow2(A) * pow2(S), r == x % pow2(A) + pow2(A) * (q1 % pow2(S)), 0 <= x % pow2(A), "
           "x % pow2(A) < pow2(A), 0 <= q1 % pow2(S), q1 % pow2(S) <= pow2(S) - 1, pow2(A) >= 1)",
           "euclid(x, pow2(A + S), r, q2)"]
  concl = ["idiv(idiv(x, pow2(A)), pow2(S)) == idiv(x, pow2(A + S))"]


@lemma("pow2_mod_div_mod")
class Pow2ModDivMod:
  """((Y % 2^B) // 2^s) % 2^m == (Y // 2^s) % 2^m   when s + m <= B: bits s .. s+m-1 of Y survive a reduction mod 2^B"""
  vars = {"Y": "int", "B": "int", "s": "int", "m": "int"}
  hyps = ["s >= 0", "m >= 0", "B >= s + m"]
  proof = ["let r = Y % pow2(B)", "let q = idiv(Y, pow2(B))", "let t = idiv(r, pow2(s))", "let r0 = r % pow2(s)",
           "let u = t % pow2(m)", "let v = idiv(t, pow2(m))",
           "divmod_def(Y, pow2(B)) and divmod_def(r, pow2(s)) and divmod_def(t, pow2(m))",
           "pow2_add(s, B - s) and pow2_add(m, B - s - m)",
           # Y // 2^s == t + 2^(B-s) * q
           "by(Y == r0 + pow2(s) * (t + pow2(B - s) * q), Y == pow2(B) * q + r, r == pow2(s) * t + r0, "
           "pow2(B) == pow2(s) * pow2(B - s))",
           "euclid(Y, pow2(s), r0, t + pow2(B - s) * q)",
           # (t + 2^(B-s) q) % 2^m == u
           "by(t + pow2(B - s) * q == u + pow2(m) * (v + pow2(B - s - m) * q), t == pow2(m) * v + u, "
           "pow2(B - s) == pow2(m) * pow2(B - s - m))",
           "euclid(t + pow2(B - s) * q, pow2(m), u, v + pow2(B - s - m) * q)"]
  concl = ["idiv(Y % pow2(B), pow2(s)) % pow2(m) == idiv(Y, pow2(s)) % pow2(m)"]


@lemma("mod_mul_r")
class ModMulR:
  """(a * (b % m)) % m == (a * b) % m"""
  vars = {"a": "int", "b": "int", "m": "int"}
  hyps = ["m >= 1"]
  proof = ["let q = idiv(b, m)", "let r = b % m", "let q2 = idiv(a * r, m)", "let r2 = (a * r) % m",
           "divmod_def(b, m) and divmod_def(a * r, m)",
           "by(a * b == r2 + m * (q2 + a * q), b == m * q + r, a * r == m * q2 + r2)",
           "euclid(a * b, m, r2, q2 + a * q)"]
  concl = ["(a * (b % m)) % m == (a * b) % m"]


@lemma("mod_eq_iff")
class ModEqIff:
  """two residues are equal exactly when the represented integers are congruent"""
  vars = {"A": "int", "B": "int", "m": "int"}
  hyps = ["m >= 1"]
  proof = ["let qa = idiv(A, m)", "let qb = idiv(B, m)", "let k = idiv(A - B, m)",
           "divmod_def(A, m) and divmod_def(B, m) and divmod_def(A - B, m)",
           "implies(A % m == B % m, by(A - B == 0 + m * (qa - qb), A == m * qa + A % m, B == m * qb + B % m, "
           "A % m == B % m))",
           "implies(A % m == B % m, euclid(A - B, m, 0, qa - qb))",
           "implies((A - B) % m == 0, by(A % m - B % m == m * (k - qa + qb), A == m * qa + A % m, "
           "B == m * qb + B % m, A - B == m * k + (A - B) % m, (A - B) % m == 0))",
           "implies((A - B) % m == 0, by(k - qa + qb == 0, A % m - B % m == m * (k - qa + qb), 0 <= A % m, A % m < m, "
           "0 <= B % m, B % m < m, m >= 1))"]
  concl = ["(A % m == B % m) == ((A - B) % m == 0)"]


@lemma("cong_lin")
class CongLin:
  """multiples of n are closed under integer linear combinations"""
  vars = {"x": "int", "y": "int", "u": "int", "v": "int", "n": "int"}
  hyps = ["n >= 1", "x % n == 0", "y % n == 0"]
  proof = ["let k1 = idiv(x, n)", "let k2 = idiv(y, n)", "divmod_def(x, n) and divmod_def(y, n)",
           "by(u * x + v * y == 0 + n * (u * k1 + v * k2), x == n * k1, y == n * k2)",
           "euclid(u * x + v * y, n, 0, u * k1 + v * k2)"]
  concl = ["(u * x + v * y) % n == 0"]
