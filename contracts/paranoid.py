"""Contracts for paranoid_crypto/lib/paranoid.py (C16, C18): the entry points return the OR over their checks."""
from pyvc.contracts import contract

P = "paranoid_crypto/lib/paranoid.py"


@contract(f"{P}::_CheckArtifacts")
class CheckArtifacts:
  params = {"artifacts": "opaque", "check_items": "list[tuple[str,ref:BaseCheck]]", "log_level": "int"}
  returns = "bool"
  # each check object's Check(artifacts) is abstracted as a boolean function of the check object (its own contract is
  # verified separately per check class); the entry point returns True exactly when some check did
  ref_methods = {("BaseCheck", "Check"): "pure:bool:check_result"}
  ensures = [("C16", "result == exists(j, 0, len(check_items), ufb('check_result', check_items[j][1]))")]
  loops = {0: dict(invariant=[("C16", "any_weak == exists(j, 0, _i, ufb('check_result', check_items[j][1]))")])}
  total = True
  props = ["C16", "C18"]
