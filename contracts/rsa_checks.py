"""Contracts for the Check methods of rsa_single_checks.py / rsa_aggregate_checks.py (C01, C03, C05, C06, C16, C18).

Ghost state (names g_*), updated by on_call hooks at the util.* call sites and reset at every loop head:
  g_sets   number of util.SetTestResult calls on this artifact in this iteration
  g_res / g_sev / g_name   fields of the entry written
  g_attached               util.AttachFactors was called in this iteration
  g_any                    OR of every result written in this call (return value must equal it)
  g_N                      the artifact's modulus, Bytes2Int(key.rsa_info.n)
"""
from pyvc.contracts import contract

S = "paranoid_crypto/lib/rsa_single_checks.py"
A = "paranoid_crypto/lib/rsa_aggregate_checks.py"
SET = "paranoid_crypto/lib/util.py::SetTestResult"
ATT = "paranoid_crypto/lib/util.py::AttachFactors"

WELLFORMED = ["forall(j, 0, len(artifacts), bval(artifacts[j].rsa_info.n) >= 2 ** 63)"]
SELF_BASE = {"severity": "Optional[int]", "check_name": "str"}
REQ_SELF = ["self.severity is not None", "self.severity >= 0"]
ENTRY = ["g_sets = 0", "g_res = False", "g_sev = 0 - 1", "g_name = ''", "g_attached = False", "g_any = False",
         "g_N = 0"]
HEAD = ["g_sets = 0", "g_res = False", "g_sev = 0 - 1", "g_name = ''", "g_attached = False",
        "g_N = bval(key.rsa_info.n)"]
ON_SET = ["assert [C16,C17] args[0] is key.test_info", "g_sets = g_sets + 1", "g_res = args[1].result",
          "g_sev = args[1].severity", "g_name = args[1].test_name", "g_any = g_any or args[1].result"]
# every recorded value divides the modulus; the two-element records are exact factorisations
ON_ATT_PRODUCT = [
    "assert [C01,C16,C17] args[0] is key.test_info",
    "assert [C01] args[1] == 'N_FACTORS'",
    "assert [C01] len(args[2]) == 2 and args[2][0] * args[2][1] == g_N",
    "g_attached = True"]
ON_ATT_PROPER = ["assert [C01] 1 < args[2][0] and args[2][0] < g_N"]
BODY_END = [
    ("C16", "g_sets == 1"), ("C16", "g_name == self.check_name"), ("C16", "g_sev == self.severity"),
    ("C01", "implies(g_attached, g_res)"),
]
INV = [("C16", "any_weak == g_any")]
RET = [("C16", "result == g_any")]


# checks that flag a key only together with its factorisation: the entry written for THIS key is positive exactly when
# factors were attached in THIS iteration (a result object carried over from an earlier key would break it)
FACTORING_ONLY = {"CheckFermat", "CheckHighAndLowBitsEqual", "CheckSmallUpperDifferences", "CheckUnseededRand",
                  "CheckKeypairDenylist", "CheckBitPatterns", "CheckPermutedBitPatterns"}


def single(cls, self_fields=None, requires=(), criterion=None, crit_props="C06", on_att=ON_ATT_PRODUCT + ON_ATT_PROPER,
           body_end=None, loops_extra=None, ref_methods=None, extra=None):
  """Registers the contract of <cls>.Check for a check that judges keys one by one (loop 0 is `for key in artifacts`)."""
  be = list(BODY_END if body_end is None else body_end)
  if cls in FACTORING_ONLY:
    be.append(("C01,C04,C05,C16,C17", "g_res == g_attached"))
  if criterion:
    be.append((crit_props, f"g_res == ({criterion})"))
  loops = {0: dict(invariant=list(INV), head=list(HEAD), body_end=be, independent=True)}
  if loops_extra:
    for k, v in loops_extra.items():
      if k == 0:
        loops[0]["invariant"] += v.get("invariant", [])
        loops[0]["body_end"] += v.get("body_end", [])
        loops[0]["head"] += v.get("head", [])
        for kk in ("types", "keep"):
          if kk in v:
            loops[0][kk] = v[kk]
      else:
        loops[k] = v
  ns = dict(
      params={"artifacts": "list[ref:RSAKey]"}, returns="bool",
      self_fields=dict(SELF_BASE, **(self_fields or {})),
      requires=REQ_SELF + WELLFORMED + list(requires),
      entry_ghost=list(ENTRY), loops=loops, on_call={SET: list(ON_SET), ATT: list(on_att)},
      return_hints=list(RET), total=True, props=["C01", "C04", "C05", "C06", "C16", "C17", "C18"],
      ref_methods=dict(ref_methods or {}))
  if extra:
    ns.update(extra)
  k = type(cls + "Check", (), ns)
  return contract(f"{S}::{cls}.Check")(k)


single("CheckSizes", criterion="bit_length(g_N) < 2048")
single("CheckExponents", criterion="bval(key.rsa_info.e) != 65537")
single("CheckFermat", self_fields={"_max_steps": "int"}, requires=["self._max_steps >= 0"],
       on_att=ON_ATT_PRODUCT)

ROCA_OBJ = "obj:paranoid_crypto/lib/roca.py::ROCAKeyDetector"
ROCAV_OBJ = "obj:paranoid_crypto/lib/roca.py::ROCAKeyVariantDetector"
single("CheckROCA", self_fields={"_fc": ROCA_OBJ}, criterion="ufb('roca_weak', g_N)")
single("CheckROCAVariant", self_fields={"_fcv": ROCAV_OBJ}, criterion="ufb('roca_variant_weak', g_N)")
single("CheckHighAndLowBitsEqual", on_att=ON_ATT_PRODUCT)
single("CheckOpensslDenylist", self_fields={"_storage": "ref:Storage", "_weak_keylist": "ref:StrSet"})
# checks that also flag on suspicion (the library function says weak without producing factors): the entry of THIS key is
# positive exactly when the verdict returned by the library function for THIS key's modulus is (C05: "flagged when ...";
# the verdict itself is pinned by the callee's contract, e.g. the gcd gate and the g > 1 criterion of Pollardpm1)
RU = "paranoid_crypto/lib/rsa_util.py"


def _suspicion(fn, verdict="ret[0]"):
  return dict(on_call={SET: list(ON_SET), ATT: list(ON_ATT_PRODUCT + ON_ATT_PROPER),
                       f"{RU}::{fn}": ["g_calls = g_calls + 1", f"g_weak = {verdict}",
                                       "assert [C05,C06,C17] args[0] == g_N"]},
              entry_ghost=list(ENTRY) + ["g_weak = False", "g_calls = 0"])


_SUSP_HEAD = {0: dict(head=["g_weak = False", "g_calls = 0"],
                      body_end=[("C05,C06,C17", "g_calls == 1"), ("C05,C06,C17", "g_res == g_weak")])}
single("CheckContinuedFractions", self_fields={"_bound": "int"}, loops_extra=_SUSP_HEAD,
       extra=_suspicion("CheckContinuedFraction", "not ret[0]"))   # returns (ok, factors)
single("CheckPollardpm1", self_fields={"_m": "int"}, requires=["self._m >= 1"], loops_extra=_SUSP_HEAD,
       extra=_suspicion("Pollardpm1"))
single("CheckSmallUpperDifferences")
_LHW_BE = [c for c in BODY_END if "g_sev" not in c[1]] + [
    # documented exception: suspected-only keys (weak without factorisation) carry SEVERITY_UNKNOWN
    ("C16", "g_sev == (paranoid_pb2.SeverityType.SEVERITY_UNKNOWN if (g_res and not g_attached) else self.severity)")]
_lhw = _suspicion("CheckLowHammingWeight")
_lhw["on_call"][ATT] = list(ON_ATT_PRODUCT)
single("CheckLowHammingWeight", on_att=ON_ATT_PRODUCT, body_end=_LHW_BE, loops_extra=_SUSP_HEAD, extra=_lhw)

_SEARCH_INV = [("C16", "any_weak == g_any"), ("C01,C04,C05,C16,C17,C18", "not test_result.result"),
               ("C01,C04,C05,C16,C17,C18", "not g_attached"), ("C16,C18", "g_sets == 0"),
               ("C16", "test_result.severity == self.severity"), ("C16", "test_result.test_name == self.check_name")]
single("CheckBitPatterns", self_fields={"_pattern_sizes": "Optional[list[int]]"},
       requires=["self._pattern_sizes is None or forall(j, 0, len(self._pattern_sizes), self._pattern_sizes[j] >= 1)"],
       loops_extra={1: dict(cut=True, invariant=list(_SEARCH_INV), keep={'g_N'})})
single("CheckPermutedBitPatterns",
       loops_extra={1: dict(cut=True, invariant=list(_SEARCH_INV), keep={'g_N'}),
                    2: dict(cut=True, invariant=list(_SEARCH_INV), keep={'g_N'})})
FWG = "paranoid_crypto/lib/special_case_factoring.py::FactorWithGuess"
single("CheckUnseededRand", self_fields={"_storage": "ref:Storage"},
       ref_methods={("Storage", "GetUnseededRands"): ("list[int]", ["forall(j, 0, len(result), result[j] >= 1)"])},
       # C04 "a prime within a prime gap of a listed output": the table consulted is the one for the prime size of THIS
       # modulus, ceil(bits / 2) - two L-bit primes have a product of 2L or 2L - 1 bits - and the top-bit variants set
       # bits L - 1 and L - 2 of that size
       loops_extra={0: dict(body_end=[("C04", "psize == idiv(bit_length(g_N) + 1, 2)"),
                                      ("C04", "msb_1 == pow2(psize - 1) and msb_11 == bor(msb_1, pow2(psize - 2))")]),
                    1: dict(cut=True, invariant=list(_SEARCH_INV), types={"factors": "Optional[list[int]]"},
                            keep={'g_N'},
                            head=["g_t0 = False", "g_t1 = False", "g_t2 = False"],
                            # C04 search space: unless an earlier guess already factored n, the listed output AND both
                            # top-bit variants (msb set, two msbs set) are handed to FactorWithGuess
                            body_end=[("C04", "implies(not factors, g_t0 and g_t1 and g_t2)")])},
       extra={"on_call": {SET: list(ON_SET), ATT: list(ON_ATT_PRODUCT + ON_ATT_PROPER),
                          FWG: ["g_t0 = g_t0 or args[1] == p_0", "g_t1 = g_t1 or args[1] == bor(p_0, msb_1)",
                                "g_t2 = g_t2 or args[1] == bor(p_0, msb_11)"]},
              "entry_ghost": list(ENTRY) + ["g_t0 = False", "g_t1 = False", "g_t2 = False"],
              "props": ["C01", "C04", "C06", "C16", "C17", "C18"]})


def aggregate(cls, head_n, on_att, crit, extra_fields=None, requires=()):
  be = list(BODY_END) + [("C03,C06", f"g_res == ({crit})")]
  ns = dict(
      params={"artifacts": "list[ref:RSAKey]"}, returns="bool", self_fields=dict(SELF_BASE, **(extra_fields or {})),
      requires=REQ_SELF + WELLFORMED + list(requires), entry_ghost=list(ENTRY),
      loops={0: dict(invariant=list(INV) + ["len(gcds) == len(artifacts)",
                                            "forall(j, 0, len(artifacts), gcds[j] >= 1 and "
                                            f"({head_n.replace('[_i0]', '[j]')}) % gcds[j] == 0)"],
                     head=[h for h in HEAD if "g_N" not in h] + [f"g_N = {head_n}"], body_end=be, independent=True)},
      on_call={SET: [s.replace("key.test_info", "artifacts[_i0].test_info") for s in ON_SET],
               ATT: [s.replace("key.test_info", "artifacts[_i0].test_info") for s in on_att]},
      return_hints=list(RET), total=True, props=["C01", "C03", "C16", "C17", "C18"])
  return contract(f"{A}::{cls}.Check")(type(cls + "Check", (), ns))


aggregate("CheckGCD", "bval(artifacts[_i0].rsa_info.n)",
          ["assert [C01,C16] args[0] is artifacts[_i0].test_info", "assert [C01] args[1] == 'N_FACTORS'",
           "assert [C01,C03] len(args[2]) == 2 and args[2][0] * args[2][1] == g_N and args[2][0] == gcds[_i0]",
           "g_attached = True"],
          "gcds[_i0] != 1")
aggregate("CheckGCDN1", "bval(artifacts[_i0].rsa_info.n) - 1",
          ["assert [C01,C16] args[0] is artifacts[_i0].test_info", "assert [C01] args[1] == 'N-1_FACTORS'",
           "assert [C01,C03] len(args[2]) == 1 and g_N % args[2][0] == 0 and args[2][0] == gcds[_i0]",
           "g_attached = True"],
          "gcds[_i0] >= self._gcd_bound", extra_fields={"_gcd_bound": "int"})

# CheckKeypairDenylist: the regenerated key is attached only after p * q == n has been tested by the check itself
single("CheckKeypairDenylist", self_fields={"_storage": "ref:Storage", "_table": "dict[int,bytes]"},
       # the shipped table (any table a Storage supplies must have this shape): one seed byte followed by
       # (position, value) pairs with positions inside the 32-byte seed
       requires=["forall((k,), dict_has(self._table, k), blen(self._table[k]) % 2 == 1 and "
                 "forall(t, 0, blen(self._table[k]), implies(t % 2 == 1, self._table[k][t] < 32)))"],
       loops_extra={1: dict(invariant=list(_SEARCH_INV) + ["len(seed) == 32", "i % 2 == 1"], keep={'g_N'})},
       extra={"on_assign": {"n": ["pow2_const(bit_length(n), 63)", "assert [C18] bit_length(n) >= 64"]}})


# C04 "below the configured step bound": the bound the caller configures is the bound FermatFactor receives (a
# constructor that replaces a configured bound, e.g. `max_steps or DEFAULT`, changes what "configured" means)
@contract(f"{S}::CheckFermat.__init__")
class CheckFermatInit:
  params = {"max_steps": "Optional[int]"}
  self_fields = dict(SELF_BASE, _max_steps="Optional[int]")
  ensures = [("C04", "implies(max_steps is not None, self._max_steps is not None and self._max_steps == max_steps)")]
  modifies = ["self._max_steps", "self.severity", "self.check_name"]
  props = ["C04"]


@contract(f"{S}::CheckContinuedFractions.__init__")
class CheckContinuedFractionsInit:
  params = {"bound": "Optional[int]"}
  self_fields = dict(SELF_BASE, _bound="Optional[int]")
  ensures = [("C05", "implies(bound is not None, self._bound is not None and self._bound == bound)")]
  modifies = ["self._bound", "self.severity", "self.check_name"]
  props = ["C05"]
