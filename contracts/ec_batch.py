"""C11: the batched affine operations (Montgomery's shared inversion + the chord / tangent formulas inline) against the
textbook law, ring pass, for every modulus and every list.

Pattern (as BatchAddX in contracts/ec_util.py): loop 0 collects the denominators (x1 - x2, resp. 2y), BatchInverse's
PROVED contract turns them into v with v * den == 1 + mod * K (one K for the whole list), and right after the assignment
of the last coordinate of an entry the hook proves, for the slope t of that entry,
    t * (x1 - x2) == y1 - y2 (mod p),  x3 == t^2 - x1 - x2,  y3 == t (x1 - x3) - y1          (chord)
    t * 2y == 3 x^2 + a (mod p),       x2 == t^2 - 2x,       y2 == t (x - x2) - y            (tangent)
which is the statement Add / Double are proved against (contracts/ec_arith.py).  Entries that take the fallback call
Add / Double themselves.  Value pass: shapes (one result per input)."""
from pyvc.contracts import contract

E = "paranoid_crypto/lib/ec_util.py"
F = {"a": "int", "b": "int", "mod": "int", "n": "int", "h": "int", "g": "tuple[int,int]"}
CURVE_REQ = ["self.mod >= 3", "self.n >= 2", "self.h >= 1"]
BINV = f"{E}::EcCurve.BatchInverse"
GK = "g_K = invert_k(ufi('pp', len(args[0])), self.mod)"


def chord(v, x1, y1, x2, y2, t="t", x="x", y="y"):
  d, e = f"({x1} - {x2})", f"({y1} - {y2})"
  return ["begin_scope",
          f"assert [C11] {v} * {d} == 1 + self.mod * g_K",
          f"assert [C11] by({t} * {d} - {e} == self.mod * ({e} * g_K), {t} == {v} * {e}, {v} * {d} == 1 + self.mod * g_K)",
          f"euclid({t} * {d} - {e}, self.mod, 0, {e} * g_K)",
          f"assert [C11] ({t} * {d} - {e}) % self.mod == 0",
          "end_scope",
          f"assert [C11] {x} == {t} * {t} - {x1} - {x2}",
          f"assert [C11] {y} == {t} * ({x1} - {x}) - {y1}"]


PRIME_FIELD_ADD = ("p[0] is None or points[k][0] is None or (p[0] - points[k][0]) % self.mod == 0 or "
                   "gcd(p[0] - points[k][0], self.mod) == 1")


@contract(f"{E}::EcCurve.BatchAdd")
class BatchAdd:
  params = {"p": "point", "points": "list[point]"}
  self_fields = F
  returns = "list[point]"
  congruence_mod = "self.mod"
  requires = CURVE_REQ + ["(p[0] is None) == (p[1] is None)",
                          "forall(k, 0, len(points), (points[k][0] is None) == (points[k][1] is None))",
                          ("VALUE", f"forall(k, 0, len(points), {PRIME_FIELD_ADD})"),
                          ("VALUE", "p[0] is None or p[1] % self.mod == 0 or gcd(2 * p[1], self.mod) == 1")]
  raises = {"ArithmeticError": None}
  ensures = [("C11", "len(result) == len(points)")]
  caller_ensures = ["len(result) == len(points)"]
  entry_ghost = ["g_K = 0"]
  on_call = {BINV: [GK, "assert [C11] forall(k, 0, len(points), ret[k] is None or "
                        "ret[k] * (p[0] - points[k][0]) == 1 + self.mod * g_K)"]}
  on_assign = {"y": chord("v", "p[0]", "p[1]", "points[i][0]", "points[i][1]")}
  loops = {0: dict(invariant=["len(tmp) == len(points)",
                              ("C11", "forall(k, 0, i, implies(tmp[k] is not None, tmp[k] == p[0] - points[k][0]))"),
                              ("C11", "forall(k, i, len(points), tmp[k] is None)")],
                   types={"tmp": "list[Optional[int]]"}),
           1: dict(invariant=["len(tmp) == len(points)", "len(res) == len(points)",
                              ("C11", "forall(k, 0, len(points), tmp[k] is None or "
                                      "tmp[k] * (p[0] - points[k][0]) == 1 + self.mod * g_K)")],
                   types={"res": "list[point]"}, keep={"g_K"})}
  var_types = {"tmp": "list[Optional[int]]", "res": "list[point]"}
  props = ["C11"]


@contract(f"{E}::EcCurve.BatchAddList")
class BatchAddList:
  params = {"p_list": "list[point]", "q_list": "list[point]"}
  self_fields = F
  returns = "list[point]"
  congruence_mod = "self.mod"
  requires = CURVE_REQ + ["forall(k, 0, len(p_list), (p_list[k][0] is None) == (p_list[k][1] is None))",
                          "forall(k, 0, len(q_list), (q_list[k][0] is None) == (q_list[k][1] is None))",
                          ("VALUE", "forall(k, 0, len(p_list), k >= len(q_list) or p_list[k][0] is None or q_list[k][0] is None or "
                                    "(p_list[k][0] - q_list[k][0]) % self.mod == 0 or "
                                    "gcd(p_list[k][0] - q_list[k][0], self.mod) == 1)"),
                          ("VALUE", "forall(k, 0, len(p_list), p_list[k][0] is None or p_list[k][1] % self.mod == 0 or "
                                    "gcd(2 * p_list[k][1], self.mod) == 1)")]
  raises = {"ArithmeticError": None, "ValueError": ("C11", "len(p_list) != len(q_list)")}
  ensures = [("C11", "len(result) == len(p_list)")]
  caller_ensures = ["len(result) == len(p_list)"]
  entry_ghost = ["g_K = 0"]
  on_call = {BINV: [GK, "assert [C11] forall(k, 0, size, ret[k] is None or "
                        "ret[k] * (p_list[k][0] - q_list[k][0]) == 1 + self.mod * g_K)"]}
  on_assign = {"y": chord("v", "p[0]", "p[1]", "q[0]", "q[1]")}
  loops = {0: dict(invariant=["len(tmp) == size", "size == len(p_list)", "size == len(q_list)",
                              ("C11", "forall(k, 0, i, implies(tmp[k] is not None, tmp[k] == p_list[k][0] - q_list[k][0]))"),
                              ("C11", "forall(k, i, size, tmp[k] is None)")],
                   types={"tmp": "list[Optional[int]]"}),
           1: dict(invariant=["len(tmp) == size", "len(res) == size", "size == len(p_list)", "size == len(q_list)",
                              ("C11", "forall(k, 0, size, tmp[k] is None or "
                                      "tmp[k] * (p_list[k][0] - q_list[k][0]) == 1 + self.mod * g_K)")],
                   types={"res": "list[point]"}, keep={"g_K"})}
  var_types = {"tmp": "list[Optional[int]]", "res": "list[point]"}
  props = ["C11"]


@contract(f"{E}::EcCurve.BatchDouble")
class BatchDouble:
  params = {"p_list": "list[point]"}
  self_fields = F
  returns = "list[point]"
  congruence_mod = "self.mod"
  requires = CURVE_REQ + ["forall(k, 0, len(p_list), (p_list[k][0] is None) == (p_list[k][1] is None))",
                          ("VALUE", "forall(k, 0, len(p_list), p_list[k][0] is None or p_list[k][1] % self.mod == 0 or "
                                    "gcd(2 * p_list[k][1], self.mod) == 1)")]
  raises = {"ArithmeticError": None}
  ensures = [("C11", "len(result) == len(p_list)")]
  caller_ensures = ["len(result) == len(p_list)"]
  entry_ghost = ["g_K = 0"]
  on_call = {BINV: [GK, "assert [C11] forall(k, 0, size, ret[k] is None or ret[k] * (2 * p_list[k][1]) == 1 + self.mod * g_K)"]}
  on_assign = {"y2": [
      "begin_scope",
      "assert [C11] tmp[i] * (2 * y) == 1 + self.mod * g_K",
      "assert [C11] by(t * (2 * y) - num == self.mod * (num * g_K), t == num * tmp[i], tmp[i] * (2 * y) == 1 + self.mod * g_K)",
      "euclid(t * (2 * y) - num, self.mod, 0, num * g_K)",
      "assert [C11] (t * (2 * y) - (3 * x * x + self.a)) % self.mod == 0",
      "end_scope",
      "assert [C11] x2 == t * t - 2 * x", "assert [C11] y2 == t * (x - x2) - y"]}
  loops = {0: dict(invariant=["len(tmp) == size", "size == len(p_list)",
                              ("C11", "forall(k, 0, i, implies(tmp[k] is not None, tmp[k] == 2 * p_list[k][1]))"),
                              ("C11", "forall(k, i, size, tmp[k] is None)")],
                   types={"tmp": "list[Optional[int]]"}),
           1: dict(invariant=["len(tmp) == size", "len(res) == size", "size == len(p_list)",
                              ("C11", "forall(k, 0, size, tmp[k] is None or tmp[k] * (2 * p_list[k][1]) == 1 + self.mod * g_K)")],
                   types={"res": "list[point]"}, keep={"g_K"})}
  var_types = {"tmp": "list[Optional[int]]", "res": "list[point]"}
  props = ["C11"]
