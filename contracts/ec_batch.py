"""C11: the batched affine operations (Montgomery's shared inversion + the chord / tangent formulas inline) against the
textbook law, ring pass, for every modulus and every list.

Pattern (as BatchAddX in contracts/ec_util.py): loop 0 collects the denominators (x1 - x2, resp. 2y), BatchInverse's
PROVED contract turns them into v with v * den == 1 + mod * K (one K for the whole list), and right after the assignment
of the last coordinate of an entry the hook proves, for the slope t of that entry,
    t * (x1 - x2) == y1 - y2 (mod p),  x3 == t^2 - x1 - x2,  y3 == t (x1 - x3) - y1          (chord)
    t * 2y == 3 x^2 + a (mod p),       x2 == t^2 - 2x,       y2 == t (x - x2) - y            (tangent)
which is the statement Add / Double are proved against (contracts/ec_arith.py).  Entries that take the fallback call
Add / Double themselves.  Value pass: shapes (one result per input)."""
from pyvc.contracts import contract

E = "paranoid_crypto/lib/ec_util.py"
F = {"a": "int", "b": "int", "mod": "int", "n": "int", "h": "int", "g": "tuple[int,int]"}
CURVE_REQ = ["self.mod >= 3", "self.n >= 2", "self.h >= 1"]
BINV = f"{E}::EcCurve.BatchInverse"
GK = "g_K = invert_k(ufi('pp', len(args[0])), self.mod)"


def chord(v, x1, y1, x2, y2, t="t", x="x", y="y"):
  d, e = f"({x1} - {x2})", f"({y1} - {y2})"
  return ["begin_scope",
          f"assert [C11] {v} * {d} == 1 + self.mod * g_K",
          f"assert [C11] by({t} * {d} - {e} == self.mod * ({e} * g_K), {t} == {v} * {e}, {v} * {d} == 1 + self.mod * g_K)",
          f"euclid({t} * {d} - {e}, self.mod, 0, {e} * g_K)",
          f"assert [C11] ({t} * {d} - {e}) % self.mod == 0",
          "end_scope",
          f"assert [C11] {x} == {t} * {t} - {x1} - {x2}",
          f"assert [C11] {y} == {t} * ({x1} - {x}) - {y1}"]


PRIME_FIELD_ADD = ("p[0] is None or points[k][0] is None or (p[0] - points[k][0]) % self.mod == 0 or "
                   "gcd(p[0] - points[k][0], self.mod) == 1")


@contract(f"{E}::EcCurve.BatchAdd")
class BatchAdd:
  params = {"p": "point", "points": "list[point]"}
  self_fields = F
  returns = "list[point]"
  congruence_mod = "self.mod"
  requires = CURVE_REQ + ["(p[0] is None) == (p[1] is None)",
                          "forall(k, 0, len(points), (points[k][0] is None) == (points[k][1] is None))",
                          ("VALUE", f"forall(k, 0, len(points), {PRIME_FIELD_ADD})"),
                          ("VALUE", "p[0] is None or p[1] % self.mod == 0 or gcd(2 * p[1], self.mod) == 1")]
  raises = {"ArithmeticError": None}
  ensures = [("C11", "len(result) == len(points)")]
  caller_ensures = ["len(result) == len(points)"]
  entry_ghost = ["g_K = 0"]
  on_call = {BINV: [GK, "assert [C11] forall(k, 0, len(points), ret[k] is None or "
                        "ret[k] * (p[0] - points[k][0]) == 1 + self.mod * g_K)"]}
  on_assign = {"y": chord("v", "p[0]", "p[1]", "points[i][0]", "points[i][1]")}
  loops = {0: dict(invariant=["len(tmp) == len(points)",
                              ("C11", "forall(k, 0, i, implies(tmp[k] is not None, tmp[k] == p[0] - points[k][0]))"),
                              ("C11", "forall(k, i, len(points), tmp[k] is None)")],
                   types={"tmp": "list[Optional[int]]"}),
           1: dict(invariant=["len(tmp) == len(points)", "len(res) == len(points)",
                              ("C11", "forall(k, 0, len(points), tmp[k] is None or "
                                      "tmp[k] * (p[0] - points[k][0]) == 1 + self.mod * g_K)")],
                   types={"res": "list[point]"}, keep={"g_K"})}
  var_types = {"tmp": "list[Optional[int]]", "res": "list[point]"}
  props = ["C11"]


@contract(f"{E}::EcCurve.BatchAddList")
class BatchAddList:
  params = {"p_list": "list[point]", "q_list": "list[point]"}
  self_fields = F
  returns = "list[point]"
  congruence_mod = "self.mod"
  requires = CURVE_REQ + ["forall(k, 0, len(p_list), (p_list[k][0] is None) == (p_list[k][1] is None))",
                          "forall(k, 0, len(q_list), (q_list[k][0] is None) == (q_list[k][1] is None))",
                          ("VALUE", "forall(k, 0, len(p_list), k >= len(q_list) or p_list[k][0] is None or q_list[k][0] is None or "
                                    "(p_list[k][0] - q_list[k][0]) % self.mod == 0 or "
                                    "gcd(p_list[k][0] - q_list[k][0], self.mod) == 1)"),
                          ("VALUE", "forall(k, 0, len(p_list), p_list[k][0] is None or p_list[k][1] % self.mod == 0 or "
                                    "gcd(2 * p_list[k][1], self.mod) == 1)")]
  raises = {"ArithmeticError": None, "ValueError": ("C11", "len(p_list) != len(q_list)")}
  ensures = [("C11", "len(result) == len(p_list)")]
  caller_ensures = ["len(result) == len(p_list)"]
  entry_ghost = ["g_K = 0"]
  on_call = {BINV: [GK, "assert [C11] forall(k, 0, size, ret[k] is None or "
                        "ret[k] * (p_list[k][0] - q_list[k][0]) == 1 + self.mod * g_K)"]}
  on_assign = {"y": chord("v", "p[0]", "p[1]", "q[0]", "q[1]")}
  loops = {0: dict(invariant=["len(tmp) == size", "size == len(p_list)", "size == len(q_list)",
                              ("C11", "forall(k, 0, i, implies(tmp[k] is not None, tmp[k] == p_list[k][0] - q_list[k][0]))"),
                              ("C11", "forall(k, i, size, tmp[k] is None)")],
                   types={"tmp": "list[Optional[int]]"}),
           1: dict(invariant=["len(tmp) == size", "len(res) == size", "size == len(p_list)", "size == len(q_list)",
                              ("C11", "forall(k, 0, size, tmp[k] is None or "
                                      "tmp[k] * (p_list[k][0] - q_list[k][0]) == 1 + self.mod * g_K)")],
                   types={"res": "list[point]"}, keep={"g_K"})}
  var_types = {"tmp": "list[Optional[int]]", "res": "list[point]"}
  props = ["C11"]


@contract(f"{E}::EcCurve.BatchDouble")
class BatchDouble:
  params = {"p_list": "list[point]"}
  self_fields = F
  returns = "list[point]"
  congruence_mod = "self.mod"
  requires = CURVE_REQ + ["forall(k, 0, len(p_list), (p_list[k][0] is None) == (p_list[k][1] is None))",
                          ("VALUE", "forall(k, 0, len(p_list), p_list[k][0] is None or p_list[k][1] % self.mod == 0 or "
                                    "gcd(2 * p_list[k][1], self.mod) == 1)")]
  raises = {"ArithmeticError": None}
  ensures = [("C11", "len(result) == len(p_list)")]
  caller_ensures = ["len(result) == len(p_list)"]
  entry_ghost = ["g_K = 0"]
  on_call = {BINV: [GK, "assert [C11] forall(k, 0, size, ret[k] is None or ret[k] * (2 * p_list[k][1]) == 1 + self.mod * g_K)"]}
  on_assign = {"y2": [
      "begin_scope",
      "assert [C11] tmp[i] * (2 * y) == 1 + self.mod * g_K",
      "assert [C11] by(t * (2 * y) - num == self.mod * (num * g_K), t == num * tmp[i], tmp[i] * (2 * y) == 1 + self.mod * g_K)",
      "euclid(t * (2 * y) - num, self.mod, 0, num * g_K)",
      "assert [C11] (t * (2 * y) - (3 * x * x + self.a)) % self.mod == 0",
      "end_scope",
      "assert [C11] x2 == t * t - 2 * x", "assert [C11] y2 == t * (x - x2) - y"]}
  loops = {0: dict(invariant=["len(tmp) == size", "size == len(p_list)",
                              ("C11", "forall(k, 0, i, implies(tmp[k] is not None, tmp[k] == 2 * p_list[k][1]))"),
                              ("C11", "forall(k, i, size, tmp[k] is None)")],
                   types={"tmp": "list[Optional[int]]"}),
           1: dict(invariant=["len(tmp) == size", "len(res) == size", "size == len(p_list)",
                              ("C11", "forall(k, 0, size, tmp[k] is None or tmp[k] * (2 * p_list[k][1]) == 1 + self.mod * g_K)")],
                   types={"res": "list[point]"}, keep={"g_K"})}
  var_types = {"tmp": "list[Optional[int]]", "res": "list[point]"}
  props = ["C11"]


@contract(f"{E}::EcCurve.BatchJacobianToX")
class BatchJacobianToX:
  """Ring pass: every finite entry is X w^2 with w Z == 1 (mod p) (the x-coordinate of JacobianToAffine); value pass: one
  slot per triple, None exactly for Z == 0."""
  params = {"p_list": "list[jpoint]"}
  self_fields = F
  returns = "list[Optional[int]]"
  congruence_mod = "self.mod"
  requires = CURVE_REQ
  raises = {"ArithmeticError": None}
  SHAPE = "forall(k, 0, len(p_list), (result[k] is None) == (p_list[k][2] == 0))"
  ensures = [("C11", "len(result) == len(p_list)")]
  caller_ensures = ["len(result) == len(p_list)", SHAPE]
  entry_ghost = ["g_K = 0"]
  on_call = {BINV: [GK, "assert [C11] forall(k, 0, len(p_list), ret[k] is None or ret[k] * p_list[k][2] == 1 + self.mod * g_K)"]}
  on_assign = {"wsqr": ["assert [C11] w * p[2] == 1 + self.mod * g_K", "euclid(w * p[2] - 1, self.mod, 0, g_K)",
                        "assert [C11] (w * p[2] - 1) % self.mod == 0", "assert [C11] wsqr == w * w"]}
  loops = {0: dict(invariant=["len(res) == len(p_list)", "len(inverses) == len(p_list)",
                              "forall(k, 0, len(p_list), (inverses[k] is None) == (p_list[k][2] == 0))",
                              "forall(k, 0, len(p_list), (res[k] is None) == (p_list[k][2] == 0 or k >= i))",
                              ("C11", "forall(k, 0, len(p_list), inverses[k] is None or "
                                      "inverses[k] * p_list[k][2] == 1 + self.mod * g_K)")],
                   types={"res": "list[Optional[int]]"}, keep={"g_K"},
                   # `i` is already the next index here: this iteration wrote res[i - 1]
                   body_end=[("C11", "implies(inverses[i - 1] is not None, res[i - 1] == p_list[i - 1][0] * "
                                     "(inverses[i - 1] * inverses[i - 1]))")])}
  var_types = {"res": "list[Optional[int]]"}
  props = ["C11"]


def chord_x(xv, v, x1, y1, x2, y2):
  """Inverse-free x-coordinate of the chord law for the entry just written: xv * d^2 == e^2 - (x1 + x2) d^2 (mod p)."""
  d, e, s_ = f"({x1} - {x2})", f"({y1} - ({y2}))", f"({x1} + {x2})"
  K2 = f"({e} * {e} * g_K * (2 + self.mod * g_K))"
  return ["begin_scope",
          f"assert [C11] {v} * {d} == 1 + self.mod * g_K",
          f"assert [C11] by(t * {d} == {e} + self.mod * ({e} * g_K), t == {v} * {e}, {v} * {d} == 1 + self.mod * g_K)",
          f"assert [C11] by((t * {d}) * (t * {d}) == {e} * {e} + self.mod * {K2}, t * {d} == {e} + self.mod * ({e} * g_K))",
          f"assert [C11] by({xv} * {d} * {d} - {e} * {e} + {s_} * {d} * {d} == self.mod * {K2}, "
          f"{xv} == t * t - {x1} - {x2}, (t * {d}) * (t * {d}) == {e} * {e} + self.mod * {K2})",
          f"euclid({xv} * {d} * {d} - {e} * {e} + {s_} * {d} * {d}, self.mod, 0, {K2})",
          f"assert [C11] ({xv} * {d} * {d} - {e} * {e} + {s_} * {d} * {d}) % self.mod == 0",
          "end_scope"]


@contract(f"{E}::EcCurve.BatchAddSubtractX")
class BatchAddSubtractX:
  """Ring pass: sums[i] / diffs[i] computed by the shared-inversion branch are the x-coordinates of p + q_i and
  p - q_i = p + (x_i, -y_i) by the chord law (inverse-free form, see BatchAddX)."""
  params = {"p": "point", "points": "list[point]"}
  self_fields = F
  returns = "tuple[list[Optional[int]],list[Optional[int]]]"
  congruence_mod = "self.mod"
  requires = BatchAdd.requires
  raises = {"ArithmeticError": None}
  ensures = [("C11", "len(result[0]) == len(points) and len(result[1]) == len(points)")]
  caller_ensures = ["len(result[0]) == len(points) and len(result[1]) == len(points)"]
  entry_ghost = ["g_K = 0"]
  on_call = {BINV: [GK, "assert [C11] forall(k, 0, len(points), ret[k] is None or "
                        "ret[k] * (p[0] - points[k][0]) == 1 + self.mod * g_K)"]}
  # sums#0 / diffs#0 are the two initialisations are Name targets; the element assignments in the loop: #0 formula, #1 fallback
  on_assign = {"sums#0": chord_x("sums[i]", "v", "p[0]", "p[1]", "q[0]", "q[1]"),
               "diffs#0": chord_x("diffs[i]", "v", "p[0]", "p[1]", "q[0]", "0 - q[1]")}
  loops = {0: dict(invariant=["len(tmp) == len(points)",
                              ("C11", "forall(k, 0, i, implies(tmp[k] is not None, tmp[k] == p[0] - points[k][0]))"),
                              ("C11", "forall(k, i, len(points), tmp[k] is None)")],
                   types={"tmp": "list[Optional[int]]"}),
           1: dict(invariant=["len(tmp) == len(points)", "len(sums) == len(points)", "len(diffs) == len(points)",
                              ("C11", "forall(k, 0, len(points), tmp[k] is None or "
                                      "tmp[k] * (p[0] - points[k][0]) == 1 + self.mod * g_K)")],
                   types={"sums": "list[Optional[int]]", "diffs": "list[Optional[int]]"}, keep={"g_K"})}
  var_types = {"tmp": "list[Optional[int]]", "sums": "list[Optional[int]]", "diffs": "list[Optional[int]]"}
  props = ["C11"]
