"""Contracts for randomness_tests/util.py numeric helpers (C13, C19): control structure only, floats abstracted."""
from pyvc.contracts import contract

U = "paranoid_crypto/lib/randomness_tests/util.py"


@contract(f"{U}::Igamc")
class Igamc:
  params = {"a": "opaque", "x": "opaque"}
  returns = "real"
  assumed = True
  assumed_why = "scipy.special.gammaincc (float): not modelled"


@contract(f"{U}::CombinedPValue")
class CombinedPValue:
  params = {"pvalues": "list[real]"}
  returns = "real"
  requires = ["forall(j, 0, len(pvalues), 0 <= pvalues[j])"]
  raises = {"ValueError": ("C13,C19", "len(pvalues) == 0")}
  ensures = [("C13,C19", "implies(len(pvalues) == 1, result == pvalues[0])"),
             ("C13,C19", "implies(len(pvalues) >= 2 and exists(j, 0, len(pvalues), pvalues[j] == 0), result == 0)")]
  total = True
  props = ["C13", "C19"]
