"""Contracts for ec_single_checks.py / ec_aggregate_checks.py Check methods (C02, C06, C16, C17, C18)."""
from pyvc.contracts import contract

S = "paranoid_crypto/lib/ec_single_checks.py"
A = "paranoid_crypto/lib/ec_aggregate_checks.py"
SET = "paranoid_crypto/lib/util.py::SetTestResult"
INFO = "paranoid_crypto/lib/util.py::AttachInfo"

SELF_BASE = {"severity": "Optional[int]", "check_name": "str"}
REQ_SELF = ["self.severity is not None", "self.severity >= 0"]
ENTRY = ["g_sets = 0", "g_res = False", "g_sev = 0 - 1", "g_name = ''", "g_attached = False", "g_any = False"]
HEAD = ["g_sets = 0", "g_res = False", "g_sev = 0 - 1", "g_name = ''", "g_attached = False"]
ON_SET = ["assert [C16,C17] args[0] is key.test_info", "g_sets = g_sets + 1", "g_res = args[1].result",
          "g_sev = args[1].severity", "g_name = args[1].test_name", "g_any = g_any or args[1].result"]
INV = [("C16", "any_weak == g_any")]
RET = [("C16", "result == g_any")]


@contract(f"{S}::CheckValidECKey.Check")
class CheckValidECKey:
  params = {"artifacts": "list[ref:ECKey]"}
  returns = "bool"
  self_fields = dict(SELF_BASE)
  requires = list(REQ_SELF)
  entry_ghost = list(ENTRY)
  loops = {0: dict(independent=True, invariant=list(INV), head=list(HEAD), body_end=[
      ("C16", "g_sets == 1"), ("C16", "g_name == self.check_name"), ("C16", "g_sev == self.severity"),
      # flagged exactly: unknown / unsupported curve, or the point is not a valid public key of the curve
      ("C06", "g_res == (curve is None or not ufb('valid_key', curve.a, curve.b, curve.mod, curve.n, curve.h, False, "
              "bval(key.ec_info.x), bval(key.ec_info.y)))")])}
  on_call = {SET: list(ON_SET)}
  return_hints = list(RET)
  feasibility = False
  total = True
  props = ["C06", "C16", "C17", "C18"]


@contract(f"{S}::CheckWeakCurve.Check")
class CheckWeakCurve:
  params = {"artifacts": "list[ref:ECKey]"}
  returns = "bool"
  self_fields = dict(SELF_BASE)
  requires = list(REQ_SELF)
  entry_ghost = list(ENTRY)
  loops = {0: dict(independent=True, invariant=list(INV), head=list(HEAD), body_end=[
      # an entry exists exactly for keys on a known curve; positive exactly when the order is shorter than 224 bits
      ("C16,C06", "g_sets == (0 if curve is None else 1)"),
      ("C16", "implies(g_sets == 1, g_name == self.check_name and g_sev == self.severity)"),
      ("C06", "implies(curve is not None, g_res == (bit_length(curve.n) < 224))")],
      types={"test_result": "rec:TestResultsEntry"})}
  on_call = {SET: list(ON_SET)}
  return_hints = list(RET)
  feasibility = False
  total = True
  props = ["C06", "C16", "C17", "C18"]

KEY_BODY_END = [("C16", "g_sets == 1"), ("C16", "g_name == self.check_name"), ("C16", "g_sev == self.severity"),
                ("C02,C16", "implies(g_attached, g_res)")]


@contract(f"{S}::CheckWeakECPrivateKey.Check")
class CheckWeakECPrivateKey:
  params = {"artifacts": "list[ref:ECKey]"}
  returns = "bool"
  self_fields = dict(SELF_BASE)
  requires = list(REQ_SELF)
  entry_ghost = list(ENTRY)
  loops = {0: dict(cut=True, cases=True, invariant=list(INV), independent=True), 1: dict(independent=True, 
      invariant=list(INV) + ["len(discrete_logs) == len(keys)", "len(points) == len(keys)"],
      head=list(HEAD),
      body_end=list(KEY_BODY_END) + [
          # flagged exactly when the search returned a logarithm for THIS key (index mapping through the partition)
          ("C02,C10,C17", "g_res == (discrete_logs[_i1] is not None)")],
      keep={"curve", "curve_id", "keys", "points", "discrete_logs"})}
  on_call = {SET: list(ON_SET),
             INFO: ["assert [C02,C16,C17] args[0] is key.test_info",
                    "assert [C02] args[1] == 'DISCRETE_LOG'",
                    # the recorded value is the hex form of a true discrete logarithm of this key's public point
                    # (over the logarithm view of the group: for a public point inside <G>; every point of a named
                    # curve of cofactor 1 that passes CheckValidECKey is)
                    "assert [C02] discrete_logs[_i1] is not None and args[2] == hex_of(discrete_logs[_i1]) and "
                    "implies(in_group(curve, bval(key.ec_info.x), bval(key.ec_info.y)), "
                    "is_dlog(curve, discrete_logs[_i1], bval(key.ec_info.x), bval(key.ec_info.y)))",
                    "g_attached = True"]}
  return_hints = list(RET)
  total = True
  # the only exception left open: BatchInverse's internal self-check, reached through ExtendedBatchDL -> BatchDL
  # and Multiply's degenerate-tangent ValueError, possible only for a key that is not on its curve (ExtendedBatchDL's
  # raises_only_if); no key of the batch is validated before the search, so it stays open here: bounded tier
  raises = {"ArithmeticError": None, "ValueError": None}
  props = ["C02", "C10", "C16", "C17", "C18"]


@contract(f"{A}::CheckECKeySmallDifference.Check")
class CheckECKeySmallDifference:
  params = {"artifacts": "list[ref:ECKey]"}
  returns = "bool"
  self_fields = dict(SELF_BASE, _max_diff="int")
  requires = list(REQ_SELF)
  entry_ghost = list(ENTRY)
  loops = {0: dict(cut=True, cases=True, invariant=list(INV), independent=True), 1: dict(independent=True, 
      invariant=list(INV) + ["len(result) == len(keys)"],
      head=list(HEAD),
      body_end=list(KEY_BODY_END) + [("C02,C10,C17", "g_res == (result[_i1] is not None)")],
      keep={"curve", "curve_id", "keys", "points", "result"})}
  on_call = {SET: list(ON_SET),
             INFO: ["assert [C02,C16,C17] args[0] is key.test_info", "assert [C02] args[1] == 'DISCRETE_LOG_DIFF'",
                    "assert [C02] result[_i1] is not None and args[2] == result[_i1]", "g_attached = True"]}
  return_hints = list(RET)
  total = True
  # the only exception left open: BatchInverse's internal self-check, reached through BatchDLOfDifferences -> PointTable
  raises = {"ArithmeticError": None}
  props = ["C02", "C10", "C16", "C17", "C18"]
