"""Contracts for paranoid_crypto/lib/ntheory_util.py (C19, C03, C18)."""
from pyvc.contracts import contract

NT = "paranoid_crypto/lib/ntheory_util.py"


@contract(f"{NT}::DivmodRounded")
class DivmodRounded:
  params = {"a": "int", "b": "int"}
  returns = "tuple[int,int]"
  requires = ["b >= 1"]
  ensures = [("C19", "result[0] * b + result[1] == a"),
             ("C19", "-((b + 1) // 2) <= result[1] and result[1] < b - (b + 1) // 2"),
             ("C19", "2 * result[1] < b and -b <= 2 * result[1]")]
  total = True


@contract(f"{NT}::ContinuedFraction")
class ContinuedFraction:
  params = {"a": "int", "b": "int"}
  returns = "list[tuple[int,int,int]]"
  requires = ["a >= 0", "b >= 0"]
  ensures = []
  total = True


@contract(f"{NT}::Inverse2exp")
class Inverse2exp:
  params = {"n": "int", "k": "int"}
  returns = "Optional[int]"
  requires = ["k >= 1"]
  ensures = [("C19", "(result is None) == (n % 2 == 0)"),
             ("C19", "result is None or (result * n) % pow2(k) == 1")]
  loops = {0: dict(
      invariant=["t >= 2", "t <= k or t == 2", "(a * n) % pow2(t) == 1"],
      variant="k - t",
      # Hensel step: a*n = 1 + c*P  ==>  a(2-an)n = 1 - c^2 P^2, and P' = pow2(t') divides P^2 = pow2(2*pre_t)
      body_end=["pow2_add(pre_t, pre_t)", "pow2_add(t, 2 * pre_t - t)",
                "a * n == 1 + pow2(t) * (-pow2(2 * pre_t - t) * idiv(pre_a * n, pow2(pre_t)) * idiv(pre_a * n, pow2(pre_t))"
                " - idiv(pre_a * (2 - pre_a * n), pow2(t)) * n)",
                "euclid(a * n, pow2(t), 1, -pow2(2 * pre_t - t) * idiv(pre_a * n, pow2(pre_t)) * idiv(pre_a * n, pow2(pre_t))"
                " - idiv(pre_a * (2 - pre_a * n), pow2(t)) * n)"])}
  total = True


@contract(f"{NT}::InverseSqrt2exp")
class InverseSqrt2exp:
  params = {"n": "int", "k": "int"}
  returns = "Optional[int]"
  requires = ["k >= 0"]
  ensures = [
      ("C19", "result is None or (result * result * n) % pow2(k) == 1"),
      ("C19", "implies(k >= 3, (result is None) == (n % 8 != 1))"),
      ("C19", "implies(k < 3, (result is None) == forall(c, 0, pow2(k), (c * c * n) % pow2(k) != 1))"),
  ]
  loops = {
      0: dict(invariant=["forall(c, 0, a, (c * c * n) % pow2(k) != 1)"]),
      1: dict(
          invariant=["t >= 3", "t <= k or t == 3", "(a * a * n) % pow2(t) == 1"],
          variant="k - t",
          body_end=[
              "let P = pow2(pre_t)", "let Q = pow2(t)", "let e = pow2(2 * pre_t - 2 - t)",
              "let E = pre_a * pre_a * n - 1", "let c = idiv(pre_a * pre_a * n, P)", "let h = idiv(E, 2)",
              "let q = idiv(idiv(pre_a * (3 - pre_a * pre_a * n), 2), Q)",
              "pow2_add(t, 2 * pre_t - 2 - t)", "pow2_add(2 * pre_t - 2, 2)", "pow2_add(pre_t, pre_t)",
              "P * P == 4 * Q * e", "E == P * c", "E == 2 * h",
              "idiv(pre_a * (3 - pre_a * pre_a * n), 2) == pre_a * (1 - h)",
              "a == pre_a * (1 - h) - Q * q",
              "4 * ((pre_a * (1 - h)) * (pre_a * (1 - h)) * n - 1) == E * E * (E - 3)",
              "(pre_a * (1 - h)) * (pre_a * (1 - h)) * n - 1 == Q * (e * c * c * (E - 3))",
              "a * a * n == 1 + Q * (e * c * c * (E - 3) - q * n * (2 * pre_a * (1 - h)) + q * q * Q * n)",
              "euclid(a * a * n, Q, 1, e * c * c * (E - 3) - q * n * (2 * pre_a * (1 - h)) + q * q * Q * n)",
          ]),
  }
  total = True
