"""Contracts for paranoid_crypto/lib/ntheory_util.py (C19, C03, C18)."""
from pyvc.contracts import contract

NT = "paranoid_crypto/lib/ntheory_util.py"


@contract(f"{NT}::DivmodRounded")
class DivmodRounded:
  params = {"a": "int", "b": "int"}
  returns = "tuple[int,int]"
  requires = ["b >= 1"]
  # definition: q = round(a/b) (ties allowed either way), r = a - q*b  <=>  a == q*b + r and |2r| <= b
  ensures = [("C19", "result[0] * b + result[1] == a"),
             ("C19", "-b <= 2 * result[1] and 2 * result[1] <= b")]
  total = True


@contract(f"{NT}::ContinuedFraction")
class ContinuedFraction:
  params = {"a": "int", "b": "int"}
  returns = "list[tuple[int,int,int]]"
  requires = ["a >= 0", "b >= 0"]
  ensures = [
      "forall(j, 0, len(result), result[j][0] >= 0 and result[j][1] >= 0 and result[j][2] >= 0)",
      # convergent recurrence r_j = q_j r_{j-1} + r_{j-2}, t_j likewise, with (r_-1, r_-2) = (1, 0), (t_-1, t_-2) = (0, 1)
      ("C19", "implies(len(result) >= 1, result[0][1] == result[0][0] and result[0][2] == 1)"),
      ("C19", "implies(len(result) >= 2, result[1][1] == result[1][0] * result[0][1] + 1 "
              "and result[1][2] == result[1][0] * result[0][2])"),
      ("C19", "forall(j, 2, len(result), result[j][1] == result[j][0] * result[j - 1][1] + result[j - 2][1] "
              "and result[j][2] == result[j][0] * result[j - 1][2] + result[j - 2][2])"),
      # the last convergent is the fraction itself: a * t_last == b * r_last
      ("C19", "implies(len(result) >= 1, a * result[len(result) - 1][2] == b * result[len(result) - 1][1])"),
      ("C19", "(len(result) == 0) == (b == 0)"),
  ]
  loops = {0: dict(
      invariant=[
          "a >= 0", "b >= 0", "r >= 0", "s >= 0", "t >= 0", "u >= 0",
          "forall(j, 0, len(res), res[j][0] >= 0 and res[j][1] >= 0 and res[j][2] >= 0)",
          ("C19", "old(a) == r * a + s * b"), ("C19", "old(b) == t * a + u * b"),
          ("C19", "r * u - s * t == 1 or r * u - s * t == -1"),
          ("C19", "implies(len(res) == 0, r == 1 and s == 0 and t == 0 and u == 1 and a == old(a) and b == old(b))"),
          ("C19", "implies(len(res) >= 1, r == res[len(res) - 1][1] and t == res[len(res) - 1][2])"),
          ("C19", "implies(len(res) == 1, s == 1 and u == 0)"),
          ("C19", "implies(len(res) >= 2, s == res[len(res) - 2][1] and u == res[len(res) - 2][2])"),
          ("C19", "implies(len(res) >= 1, res[0][1] == res[0][0] and res[0][2] == 1)"),
          ("C19", "implies(len(res) >= 2, res[1][1] == res[1][0] * res[0][1] + 1 and res[1][2] == res[1][0] * res[0][2])"),
          ("C19", "forall(j, 2, len(res), res[j][1] == res[j][0] * res[j - 1][1] + res[j - 2][1] "
                  "and res[j][2] == res[j][0] * res[j - 1][2] + res[j - 2][2])"),
          ("C19", "implies(len(res) >= 1, old(b) > 0)"),
      ],
      types={"res": "list[tuple[int,int,int]]"},
      body_end=[("C19", "implies(len(res) >= 3, res[len(res) - 1][1] == res[len(res) - 1][0] * res[len(res) - 2][1] "
                        "+ res[len(res) - 3][1] and res[len(res) - 1][2] == res[len(res) - 1][0] * res[len(res) - 2][2] "
                        "+ res[len(res) - 3][2])"),
                ("C19", "implies(len(res) == 2, res[1][1] == res[1][0] * res[0][1] + 1 and res[1][2] == res[1][0] * res[0][2])"),
                ("C19", "forall(j, 2, len(res) - 1, res[j][1] == res[j][0] * res[j - 1][1] + res[j - 2][1] "
                        "and res[j][2] == res[j][0] * res[j - 1][2] + res[j - 2][2])")],
      variant="b")}
  total = True


@contract(f"{NT}::Inverse2exp")
class Inverse2exp:
  params = {"n": "int", "k": "int"}
  returns = "Optional[int]"
  requires = ["k >= 1"]
  ensures = [("C19", "(result is None) == (n % 2 == 0)"),
             ("C19", "result is None or (result * n) % pow2(k) == 1")]
  loops = {0: dict(
      invariant=["t >= 2", "t <= k or t == 2", "(a * n) % pow2(t) == 1"],
      variant="k - t",
      at_exit=["t == k or (t == 2 and k == 1)",
               "by((a * n) % pow2(k) == 1, (a * n) % pow2(t) == 1, t == k or (t == 2 and k == 1), "
               "pow2(1) == 2, pow2(2) == 4)"],
      # Hensel step: a*n = 1 + c*P  ==>  a(2-an)n = 1 - c^2 P^2, and P' = pow2(t') divides P^2 = pow2(2*pre_t)
      body_end=[
          "let P = pow2(pre_t)", "let Q = pow2(t)", "let e = pow2(2 * pre_t - t)",
          "let c = idiv(pre_a * n, P)", "let X = pre_a * (2 - pre_a * n)", "let q = idiv(X, Q)",
          "pow2_add(pre_t, pre_t)", "pow2_add(t, 2 * pre_t - t)", "divmod_def(pre_a * n, P)", "divmod_def(X, Q)",
          "P * P == Q * e", "pre_a * n == P * c + 1", "a == X - Q * q",
          "by(a * n == 1 + Q * (-e * c * c - q * n), P * P == Q * e, pre_a * n == P * c + 1, a == X - Q * q)",
          "euclid(a * n, Q, 1, -e * c * c - q * n)"])}
  total = True


@contract(f"{NT}::InverseSqrt2exp")
class InverseSqrt2exp:
  params = {"n": "int", "k": "int"}
  returns = "Optional[int]"
  requires = ["k >= 0"]
  ensures = [
      ("C19", "result is None or (result * result * n) % pow2(k) == 1"),
      ("C19", "implies(k >= 3, (result is None) == (n % 8 != 1))"),
      ("C19", "implies(k < 3, (result is None) == forall(c, 0, pow2(k), (c * c * n) % pow2(k) != 1))"),
  ]
  loops = {
      0: dict(unroll=True),     # k < 3: the range 2**k has at most 4 elements -> case split on its size, then unrolled
      1: dict(
          invariant=["t >= 3", "t <= k or t == 3", "(a * a * n) % pow2(t) == 1"],
          variant="k - t",
          at_exit=["t == k"],
          body_end=[
              "let P = pow2(pre_t)", "let Q = pow2(t)", "let e = pow2(2 * pre_t - 2 - t)",
              "let E = pre_a * pre_a * n - 1", "let c = idiv(pre_a * pre_a * n, P)", "let h = idiv(E, 2)",
              "let q = idiv(idiv(pre_a * (3 - pre_a * pre_a * n), 2), Q)",
              "pow2_add(t, 2 * pre_t - 2 - t)", "pow2_add(2 * pre_t - 2, 2)", "pow2_add(pre_t, pre_t)",
              "divmod_def(pre_a * pre_a * n, P)", "P * P == 4 * Q * e",
              "by(E == P * c, pre_a * pre_a * n == P * c + 1)",
              "P == 2 * pow2(pre_t - 1)",
              "by(E == 2 * h, E == P * c, P == 2 * pow2(pre_t - 1))",
              "let y = pre_a * (1 - h)",
              "by(idiv(pre_a * (3 - pre_a * pre_a * n), 2) == y, E == 2 * h)",
              "divmod_def(y, Q)", "a == y - Q * q",
              "by(4 * (y * y * n - 1) == E * E * (E - 3), E == 2 * h)",
              "by(y * y * n - 1 == Q * (e * c * c * (E - 3)), 4 * (y * y * n - 1) == E * E * (E - 3), "
              "E == P * c, P * P == 4 * Q * e)",
              "by(a * a * n == 1 + Q * (e * c * c * (E - 3) - q * n * (2 * y) + q * q * Q * n), "
              "y * y * n - 1 == Q * (e * c * c * (E - 3)), a == y - Q * q)",
              "euclid(a * a * n, Q, 1, e * c * c * (E - 3) - q * n * (2 * y) + q * q * Q * n)",
          ]),
  }
  total = True


@contract(f"{NT}::Sqrt2exp")
class Sqrt2exp:
  params = {"n": "int", "k": "int"}
  returns = "list[int]"
  requires = []
  raises = {"ValueError": ("C19,C18", "n % 2 == 0 or k < 0")}
  ensures = [
      ("C19", "forall(j, 0, len(result), (result[j] * result[j] - n) % pow2(k) == 0)"),
      ("C19", "implies(k >= 3, (len(result) == 0) == (n % 8 != 1))"),
      ("C19", "implies(k >= 3 and n % 8 == 1, len(result) == 4)"),
      # k < 3: the comprehension is the definition (all x in [0, 2^k) with x*x == n mod 2^k)
      ("C19", "implies(k < 3, forall(x, 0, pow2(k), implies((x * x - n) % pow2(k) == 0, "
              "exists(j, 0, len(result), result[j] == x))))"),
  ]
  return_hints = [
      ("C19", "let P = pow2(k)"), ("C19", "let H = pow2(k - 1)"), ("C19", "let T = pow2(k - 2)"),
      ("C19", "implies(len(result) == 4 and k >= 3, P == 2 * H and pow2_add(k - 1, k - 1) and pow2_add(k, k - 2))"),
      ("C19", "implies(len(result) == 4 and k >= 3, H * H == P * T)"),
      ("C19", "let c1 = idiv(s * s * n, P) if len(result) == 4 and k >= 3 else 0"),
      ("C19", "let c2 = idiv(r * s, P) if len(result) == 4 and k >= 3 else 0"),
      ("C19", "let w = (r * r * (2 * c2 + P * c2 * c2 - c1) - (2 * c2 + P * c2 * c2) * (r * r - n)) if len(result) == 4 and k >= 3 else 0"),
      ("C19", "implies(len(result) == 4 and k >= 3, divmod_def(s * s * n, P) and divmod_def(r * s, P))"),
      ("C19", "implies(len(result) == 4 and k >= 3, s * s * n == 1 + P * c1 and r * s == 1 + P * c2)"),
      ("C19", "implies(len(result) == 4 and k >= 3, by(r * r - n == P * w, s * s * n == 1 + P * c1, r * s == 1 + P * c2, "
              "w == r * r * (2 * c2 + P * c2 * c2 - c1) - (2 * c2 + P * c2 * c2) * (r * r - n)))"),
      ("C19", "let q3 = idiv(H - r, P) if len(result) == 4 and k >= 3 else 0"), ("C19", "let q4 = idiv(H + r, P) if len(result) == 4 and k >= 3 else 0"),
      ("C19", "implies(len(result) == 4 and k >= 3, divmod_def(H - r, P) and divmod_def(H + r, P))"),
      ("C19", "implies(len(result) == 4 and k >= 3, result[0] == r and result[1] == P - r and result[2] == H - r - P * q3 "
              "and result[3] == H + r - P * q4)"),
      ("C19", "implies(len(result) == 4 and k >= 3, by(result[0] * result[0] - n == P * w, result[0] == r, r * r - n == P * w))"),
      ("C19", "implies(len(result) == 4 and k >= 3, by(result[1] * result[1] - n == P * (P - 2 * r + w), result[1] == P - r, r * r - n == P * w))"),
      ("C19", "implies(len(result) == 4 and k >= 3, by(result[2] * result[2] - n == P * (T - r + w - 2 * q3 * (H - r) + P * q3 * q3), "
              "result[2] == H - r - P * q3, r * r - n == P * w, H * H == P * T, P == 2 * H))"),
      ("C19", "implies(len(result) == 4 and k >= 3, by(result[3] * result[3] - n == P * (T + r + w - 2 * q4 * (H + r) + P * q4 * q4), "
              "result[3] == H + r - P * q4, r * r - n == P * w, H * H == P * T, P == 2 * H))"),
      ("C19", "implies(len(result) == 4 and k >= 3, euclid(result[0] * result[0] - n, P, 0, w) and "
              "euclid(result[1] * result[1] - n, P, 0, P - 2 * r + w) and "
              "euclid(result[2] * result[2] - n, P, 0, T - r + w - 2 * q3 * (H - r) + P * q3 * q3) and "
              "euclid(result[3] * result[3] - n, P, 0, T + r + w - 2 * q4 * (H + r) + P * q4 * q4))"),
      ("C19", "implies(len(result) == 4 and k >= 3, (result[0] * result[0] - n) % P == 0 and (result[1] * result[1] - n) % P == 0 and "
              "(result[2] * result[2] - n) % P == 0 and (result[3] * result[3] - n) % P == 0)"),
  ]
  total = True
