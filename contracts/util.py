"""Contracts for paranoid_crypto/lib/util.py against the protobuf view (C16, C09, C18).

View: test_info is a record (weak, paranoid_lib_version, test_results: repeated {test_name, result, severity},
attached_info: repeated {info_name, value}); well_formed = names pairwise distinct."""
from pyvc.contracts import contract, macro

U = "paranoid_crypto/lib/util.py"

macro("wf_results", ["ti"],
      "forall((i, j), 0 <= i and i < j and j < len(ti.test_results), "
      "ti.test_results[i].test_name != ti.test_results[j].test_name)")
macro("wf_info", ["ti"],
      "forall((i, j), 0 <= i and i < j and j < len(ti.attached_info), "
      "ti.attached_info[i].info_name != ti.attached_info[j].info_name)")
# entry named `nm` (if any) of test_info ti has result r / severity s
macro("has_entry", ["ti", "nm"],
      "exists(j, 0, len(ti.test_results), ti.test_results[j].test_name == nm)")


@contract(f"{U}::GetTestResult")
class GetTestResult:
  params = {"test_info": "rec:TestInfo", "test_name": "str"}
  returns = "Optional[elem:test_info.test_results]"
  ensures = [
      "(result is None) == forall(j, 0, len(test_info.test_results), test_info.test_results[j].test_name != test_name)",
      "result is None or (0 <= index(result) and index(result) < len(test_info.test_results) "
      "and test_info.test_results[index(result)].test_name == test_name "
      "and forall(j, 0, index(result), test_info.test_results[j].test_name != test_name))",
  ]
  loops = {0: dict(invariant=["forall(j, 0, _i, test_info.test_results[j].test_name != test_name)"])}
  total = True
  props = ["C01", "C02", "C03", "C05", "C06", "C16", "C17", "C18"]


@contract(f"{U}::GetAttachedInfo")
class GetAttachedInfo:
  params = {"test_info": "rec:TestInfo", "info_name": "str"}
  returns = "Optional[elem:test_info.attached_info]"
  ensures = [
      "(result is None) == forall(j, 0, len(test_info.attached_info), test_info.attached_info[j].info_name != info_name)",
      "result is None or (0 <= index(result) and index(result) < len(test_info.attached_info) "
      "and test_info.attached_info[index(result)].info_name == info_name "
      "and forall(j, 0, index(result), test_info.attached_info[j].info_name != info_name))",
  ]
  loops = {0: dict(invariant=["forall(j, 0, _i, test_info.attached_info[j].info_name != info_name)"])}
  total = True
  props = ["C01", "C02", "C03", "C05", "C06", "C16", "C17", "C18"]


@contract(f"{U}::GetHighestSeverity")
class GetHighestSeverity:
  params = {"test_info": "rec:TestInfo"}
  returns = "Optional[int]"
  requires = ["forall(j, 0, len(test_info.test_results), test_info.test_results[j].severity >= 0)"]
  ensures = [
      # None iff no positive entry; else the maximum severity over positive entries
      ("C16", "(result is None) == forall(j, 0, len(test_info.test_results), not test_info.test_results[j].result)"),
      ("C16", "result is None or forall(j, 0, len(test_info.test_results), "
              "implies(test_info.test_results[j].result, test_info.test_results[j].severity <= result))"),
      ("C16", "result is None or exists(j, 0, len(test_info.test_results), "
              "test_info.test_results[j].result and test_info.test_results[j].severity == result)"),
  ]
  loops = {0: dict(invariant=[
      "highest_severity >= -1",
      "(highest_severity == -1) == forall(j, 0, _i, not test_info.test_results[j].result)",
      "forall(j, 0, _i, implies(test_info.test_results[j].result, test_info.test_results[j].severity <= highest_severity))",
      "highest_severity == -1 or exists(j, 0, _i, test_info.test_results[j].result and "
      "test_info.test_results[j].severity == highest_severity)"])}
  total = True
  props = ["C01", "C02", "C03", "C05", "C06", "C16", "C17", "C18"]


@contract(f"{U}::SetTestResult")
class SetTestResult:
  params = {"test_info": "rec:TestInfo", "test_result": "rec:TestResultsEntry"}
  returns = "none"
  requires = ["wf_results(test_info)"]
  modifies = ["test_info"]
  ensures = [
      ("C16", "wf_results(test_info)"),
      # version recorded (kept if already present), weak flag monotone and set by a positive result
      ("C16", "test_info.paranoid_lib_version == (old(test_info.paranoid_lib_version) "
              "if str_nonempty(old(test_info.paranoid_lib_version)) else current_version())"),
      # C01: a key with recorded factors is marked weak -- the Check methods pass result=True with the factors
      ("C01,C16", "test_info.weak == (old(test_info.weak) or test_result.result)"),
      # attached info untouched
      ("C16", "len(test_info.attached_info) == old(len(test_info.attached_info)) and "
              "forall(j, 0, len(test_info.attached_info), test_info.attached_info[j].info_name == "
              "old(test_info.attached_info[j].info_name) and test_info.attached_info[j].value == "
              "old(test_info.attached_info[j].value))"),
      # existing name: same entry count, that entry or-ed / max-ed, all others unchanged
      ("C16", "implies(old(has_entry(test_info, test_result.test_name)), "
              "len(test_info.test_results) == old(len(test_info.test_results)) and "
              "forall(j, 0, len(test_info.test_results), "
              "test_info.test_results[j].test_name == old(test_info.test_results[j].test_name) and "
              "(test_info.test_results[j].result == (old(test_info.test_results[j].result) or test_result.result) and "
              "test_info.test_results[j].severity == max(old(test_info.test_results[j].severity), test_result.severity) "
              "if old(test_info.test_results[j].test_name) == test_result.test_name else "
              "test_info.test_results[j].result == old(test_info.test_results[j].result) and "
              "test_info.test_results[j].severity == old(test_info.test_results[j].severity))))"),
      # new name: exactly one entry appended carrying test_result's fields, all others unchanged
      ("C16", "implies(not old(has_entry(test_info, test_result.test_name)), "
              "len(test_info.test_results) == old(len(test_info.test_results)) + 1 and "
              "test_info.test_results[len(test_info.test_results) - 1].test_name == test_result.test_name and "
              "test_info.test_results[len(test_info.test_results) - 1].result == test_result.result and "
              "test_info.test_results[len(test_info.test_results) - 1].severity == test_result.severity and "
              "forall(j, 0, len(test_info.test_results) - 1, "
              "test_info.test_results[j].test_name == old(test_info.test_results[j].test_name) and "
              "test_info.test_results[j].result == old(test_info.test_results[j].result) and "
              "test_info.test_results[j].severity == old(test_info.test_results[j].severity)))"),
  ]
  total = True
  props = ["C01", "C02", "C03", "C05", "C06", "C16", "C17", "C18"]


@contract(f"{U}::AttachInfo")
class AttachInfo:
  params = {"test_info": "rec:TestInfo", "info_name": "str", "value": "str"}
  returns = "none"
  requires = ["wf_info(test_info)"]
  modifies = ["test_info"]
  ensures = [
      ("C16", "wf_info(test_info)"),
      ("C16", "test_info.weak == old(test_info.weak) and "
              "test_info.paranoid_lib_version == old(test_info.paranoid_lib_version)"),
      ("C16", "len(test_info.test_results) == old(len(test_info.test_results)) and "
              "forall(j, 0, len(test_info.test_results), "
              "test_info.test_results[j].test_name == old(test_info.test_results[j].test_name) and "
              "test_info.test_results[j].result == old(test_info.test_results[j].result) and "
              "test_info.test_results[j].severity == old(test_info.test_results[j].severity))"),
      ("C16", "exists(j, 0, len(test_info.attached_info), test_info.attached_info[j].info_name == info_name "
              "and test_info.attached_info[j].value == value)"),
      ("C16", "len(test_info.attached_info) >= old(len(test_info.attached_info)) and "
              "forall(j, 0, old(len(test_info.attached_info)), "
              "test_info.attached_info[j].info_name == old(test_info.attached_info[j].info_name) and "
              "(test_info.attached_info[j].value == old(test_info.attached_info[j].value) or "
              "test_info.attached_info[j].info_name == info_name))"),
  ]
  total = True
  props = ["C01", "C02", "C03", "C05", "C06", "C16", "C17", "C18"]


@contract(f"{U}::Bytes2Int")
class Bytes2Int:
  params = {"bytes_val": "bytes"}
  returns = "int"
  ensures = ["result == bval(bytes_val)", "result >= 0", ("C09", "result < pow2(8 * blen(bytes_val))")]
  returns_expr = "bval(bytes_val)"
  total = True
  props = ["C09", "C18"]


@contract(f"{U}::Int2Bytes")
class Int2Bytes:
  params = {"int_val": "int"}
  returns = "bytes"
  requires = ["int_val >= 0"]
  ensures = [("C09", "bval(result) == int_val"), ("C09", "blen(result) == (bit_length(int_val) + 7) // 8")]
  total = True
  props = ["C09", "C18"]


# the decoded factor set recorded under `nm`: x is in it  <=>  some entry named nm has a value whose hex-string set
# contains x (library theory: str(S) / ast.literal_eval round trip for sets of lowercase hex strings)
macro("recorded", ["ti", "nm", "x"],
      "exists(j, 0, len(ti.attached_info), ti.attached_info[j].info_name == nm and hexset_has(ti.attached_info[j].value, x))")


@contract(f"{U}::GetAttachedFactors")
class GetAttachedFactors:
  """Proved against the body: None exactly when no entry carries the name; otherwise the decoded set of that entry."""
  frame_props = ["C01", "C16"]
  params = {"test_info": "rec:TestInfo", "info_name": "str"}
  returns = "Optional[intset]"
  requires = ["wf_info(test_info)"]
  ensures = [("C01,C16", "(result is None) == forall(j, 0, len(test_info.attached_info), "
                         "test_info.attached_info[j].info_name != info_name)"),
             ("C01,C16", "result is None or forall((x,), True, member(result, x) == recorded(test_info, info_name, x))")]
  props = ["C01", "C16"]


@contract(f"{U}::AttachFactors")
class AttachFactors:
  """Proved against the body (serialisation through the set-of-hex-strings theory): afterwards the set recorded under
  info_name is exactly the OLD recorded set united with the new factors - re-running never clears a recorded factor -,
  entries under other names, result entries, weak flag and version are untouched."""
  frame_props = ["C01", "C16"]
  params = {"test_info": "rec:TestInfo", "info_name": "str", "factors": "ref:IntIterable"}
  returns = "none"
  requires = ["wf_info(test_info)"]
  modifies = ["test_info"]
  ensures = [
      ("C01,C16", "wf_info(test_info)"),
      ("C01,C16", "forall((x,), True, recorded(test_info, info_name, x) == "
                  "(iter_has(factors, x) or old(recorded(test_info, info_name, x))))"),
      ("C16", "test_info.weak == old(test_info.weak) and "
              "test_info.paranoid_lib_version == old(test_info.paranoid_lib_version)"),
      ("C16", "len(test_info.test_results) == old(len(test_info.test_results)) and "
              "forall(j, 0, len(test_info.test_results), "
              "test_info.test_results[j].test_name == old(test_info.test_results[j].test_name) and "
              "test_info.test_results[j].result == old(test_info.test_results[j].result) and "
              "test_info.test_results[j].severity == old(test_info.test_results[j].severity))"),
      ("C16", "len(test_info.attached_info) >= old(len(test_info.attached_info)) and "
              "forall(j, 0, old(len(test_info.attached_info)), "
              "test_info.attached_info[j].info_name == old(test_info.attached_info[j].info_name) and "
              "(test_info.attached_info[j].value == old(test_info.attached_info[j].value) or "
              "test_info.attached_info[j].info_name == info_name))"),
  ]
  props = ["C01", "C16"]
