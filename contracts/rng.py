"""Contracts for paranoid_crypto/lib/randomness_tests/rng.py (C20): every RandomBits(n) returns r with 0 <= r < 2^n."""
from pyvc.contracts import contract

R = "paranoid_crypto/lib/randomness_tests/rng.py"
P = {"n": "int", "seed": "Optional[int]"}
FITS = [("C20", "0 <= result and result < pow2(n)")]
# with a non-zero seed no fresh randomness is drawn: the result is a function of (generator, n, seed)
PURE = [("C20", "implies(seed is not None and seed != 0, not used_urandom())")]


def rng(cls, self_fields=None, requires=(), loops=None, return_hints=(), ensures=None, extra=None):
  ctor = {"TruncLcgRand": "TruncLcgRand(self_output_size)", "LcgNist": "LcgNist(self_a)",
          "Mwc": "Mwc(self_a, self_b)", "Lehmer": "Lehmer(self_a, self_mod, self_bits)",
          "SubsetSum": "SubsetSum(self_bits, self_n)", "NumpyRng": "Pcg64()"}.get(cls, cls + "()")
  ns = dict(params=dict(P), returns="int", self_fields=dict(self_fields or {}), requires=["n >= 1"] + list(requires),
            replay_self=ctor,
            ensures=list(FITS if ensures is None else ensures) + (list(PURE) if cls not in ("Urandom", "SubsetSum") else []),
            loops=dict(loops or {}),
            return_hints=list(return_hints), props=["C20"])
  if extra:
    ns.update(extra)
  return contract(f"{R}::{cls}.RandomBits")(type(cls, (), ns))


_SHIFT_HINT = [("C20", "pow2_add(imod(0 - n, 8), n)"),
               ("C20", "div_lt(int_le({ba}), pow2(imod(0 - n, 8)), pow2(n))")]
rng("Urandom", return_hints=[(p_, t.format(ba="ba")) for p_, t in _SHIFT_HINT])
rng("Shake128", return_hints=[("C20", "pow2_add(imod(0 - n, 8), n)")])
rng("Mt19937")
rng("XorShift128plus", loops={0: dict(invariant=["len(blocks) == _i"], types={"blocks": "list[int]"})})
rng("XorShiftStar", loops={0: dict(invariant=["len(blocks) == _i"], types={"blocks": "list[int]"})})
rng("Xorwow", loops={0: dict(invariant=["len(blocks) == _i"], types={"blocks": "list[int]"})})
rng("JavaRandom", loops={0: dict(invariant=["len(ba) == 4 * values", "forall(j, 0, len(ba), 0 <= ba[j] and ba[j] < 256)"],
                                 head=["g_prev = state"])},
    return_hints=[("C20", "pow2_add(8 * (num_bytes - 1), n % 8)"), ("C20", "pow2_add(8 * (num_bytes - 1), 8)")],
    # java.util.Random.next(32): seed' = (seed * 0x5DEECE66D + 0xB) mod 2^48, output = seed' >>> 16 (32 bits)
    extra={"entry_ghost": ["g_prev = 0"],
           "on_assign": {
               # java.util.Random(seed): the scrambled initial state is (seed ^ 0x5DEECE66D) mod 2^48
               "state@0": ["assert [C20] state == bxor(seed, 25214903917) % 281474976710656"],
               "output": [
               "assert [C20] state == (g_prev * 25214903917 + 11) % 281474976710656",
               "assert [C20] output == idiv(state, 65536) and 0 <= output and output < 4294967296"]}})
rng("LcgNist", self_fields={"a": "int"},
    loops={1: dict(invariant=["len(res) == (n + 7) // 8", "forall(j, 0, len(res), 0 <= res[j] and res[j] < 256)",
                              "0 <= seed and seed < 2 ** 31"]),
           2: dict(invariant=["0 <= b and b < pow2(j)", "0 <= seed and seed < 2 ** 31"])},
    return_hints=[("C20", "pow2_add(8 * ((n + 7) // 8 - 1), n % 8)"), ("C20", "pow2_add(8 * ((n + 7) // 8 - 1), 8)")])
rng("Mwc", self_fields={"a": "int", "b": "int", "ab1": "int", "output_bits": "int"},
    requires=["self.output_bits >= 8", "self.output_bits % 8 == 0", "self.ab1 >= 1", "self.b >= 1"])
rng("NumpyRng", self_fields={"bit_generator": "opaque"})
rng("Lehmer", self_fields={"a": "int", "mod": "int", "bits": "int"},
    requires=["self.bits >= 8", "self.bits % 8 == 0", "self.mod >= 1"])
rng("SubsetSum", self_fields={"bits": "int", "n": "int"}, requires=["self.bits >= 8", "self.bits % 8 == 0"])
# TruncLcgRand: known finding F6 (mask applied to the least significant byte of a little-endian value):
# the obligation is split into the claimed part (n % 8 == 0) and the known-failing part (n % 8 != 0)
rng("TruncLcgRand", self_fields={"output_size": "int", "a": "int", "c": "int"},
    requires=["self.output_size >= 1"],
    ensures=[("C20", "implies(n % 8 == 0, 0 <= result and result < pow2(n))"),
             ("C20", "implies(n % 8 != 0, 0 <= result and result < pow2(n))", "K:F6")],
    loops={0: dict(invariant=["len(ba) == num_outputs * output_size_bytes",
                              "forall(j, 0, len(ba), 0 <= ba[j] and ba[j] < 256)"],
                   head=["g_prev = state"])},
    # the generator it models (GMP's lc_2exp): state' = (a * state + c) mod 2^(2s), output = the upper s bits of state'
    extra={"entry_ghost": ["g_prev = 0"],
           "on_assign": {"output": [
               "assert [C20] state == (g_prev * self.a + self.c) % pow2(state_size_bits)",
               "assert [C20] 0 <= state and state < pow2(state_size_bits)",
               "pow2_add(output_size_bits, output_size_bits)",
               "div_lt(state, pow2(output_size_bits), pow2(output_size_bits))",
               "assert [C20] output == idiv(state, pow2(output_size_bits)) and 0 <= output and "
               "output < pow2(output_size_bits)"]}})
