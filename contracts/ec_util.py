"""Contracts for paranoid_crypto/lib/ec_util.py (C02, C06, C09, C10, C11, C18)."""
from pyvc.contracts import contract, macro

E = "paranoid_crypto/lib/ec_util.py"
CURVE_FIELDS = {"a": "int", "b": "int", "mod": "int", "n": "int", "h": "int", "g": "tuple[int,int]"}
CURVE_REQ = ["self.mod >= 3", "self.n >= 2", "self.h >= 1"]
# a well-formed affine point: both coordinates None (infinity) or both integers
macro("wf_point", ["p"], "(p[0] is None) == (p[1] is None)")
macro("is_inf", ["p"], "p[0] is None and p[1] is None")


@contract(f"{E}::EcCurve.TransformOrderLen")
class TransformOrderLen:
  params = {"h": "int", "hlen": "int"}
  self_fields = CURVE_FIELDS
  requires = CURVE_REQ + ["h >= 0", "hlen >= 0"]
  returns = "int"
  # RFC 6979 2.4 (bits2int): keep the leftmost qlen bits when the hash is longer than the order, then reduce mod n
  ensures = [("C09", "result == idiv(h, pow2(max(0, hlen - bit_length(self.n)))) % self.n"),
             ("C09", "0 <= result and result < self.n")]
  total = True
  props = ["C09", "C18"]


@contract(f"{E}::EcCurve.HiddenNumberParams")
class HiddenNumberParams:
  params = {"r": "int", "s": "int", "z": "int"}
  self_fields = CURVE_FIELDS
  requires = CURVE_REQ + ["gcd(s, self.n) == 1"]
  returns = "tuple[int,int]"
  ensures = [("C09", "0 <= result[0] and result[0] < self.n and 0 <= result[1] and result[1] < self.n")]
  # for every private key d and nonce k with s*k == z + r*d (mod n):  k == a + b*d (mod n)
  ghost_params = {"d": "int", "k": "int"}
  ghost_requires = ["(s * k - z - r * d) % self.n == 0"]
  ghost_ensures = [("C09", "(result[0] + result[1] * d - k) % self.n == 0")]
  return_hints = [
      ("C09", "let N = self.n"), ("C09", "let m1 = idiv(s * k - z - r * d, N)"), ("C09", "divmod_def(s * k - z - r * d, N)"),
      ("C09", "let k0 = idiv(s * si - 1, N)"), ("C09", "divmod_def(s * si - 1, N)"),
      ("C09", "s * si - 1 == N * k0"),
      ("C09", "let q1 = idiv(z * si, N)"), ("C09", "let q2 = idiv(r * si, N)"),
      ("C09", "divmod_def(z * si, N)"), ("C09", "divmod_def(r * si, N)"),
      ("C09", "result[0] + result[1] * d - k == N * (k * k0 - si * m1 - q1 - q2 * d)"),
      ("C09", "euclid(result[0] + result[1] * d - k, N, 0, k * k0 - si * m1 - q1 - q2 * d)"),
  ]
  total = True
  props = ["C09", "C18"]
