"""Contracts for paranoid_crypto/lib/ec_util.py (C02, C06, C09, C10, C11, C18)."""
from pyvc.contracts import contract, macro, spec_axiom

E = "paranoid_crypto/lib/ec_util.py"
CURVE_FIELDS = {"a": "int", "b": "int", "mod": "int", "n": "int", "h": "int", "g": "tuple[int,int]"}
CURVE_REQ = ["self.mod >= 3", "self.n >= 2", "self.h >= 1"]
REPLAY_CURVE = "EcCurve('replay', self_a, self_b, self_mod, self_g[0], self_g[1], self_n, self_h)"
# a well-formed affine point: both coordinates None (infinity) or both integers
macro("wf_point", ["p"], "(p[0] is None) == (p[1] is None)")
macro("is_inf", ["p"], "p[0] is None and p[1] is None")


@contract(f"{E}::EcCurve.TransformOrderLen")
class TransformOrderLen:
  replay_self = REPLAY_CURVE
  params = {"h": "int", "hlen": "int"}
  self_fields = CURVE_FIELDS
  requires = CURVE_REQ + ["h >= 0", "hlen >= 0"]
  returns = "int"
  # RFC 6979 2.4 (bits2int): keep the leftmost qlen bits when the hash is longer than the order, then reduce mod n
  ensures = [("C09", "result == idiv(h, pow2(max(0, hlen - bit_length(self.n)))) % self.n"),
             ("C09", "0 <= result and result < self.n")]
  total = True
  props = ["C09", "C18"]


@contract(f"{E}::EcCurve.HiddenNumberParams")
class HiddenNumberParams:
  replay_self = REPLAY_CURVE
  params = {"r": "int", "s": "int", "z": "int"}
  self_fields = CURVE_FIELDS
  requires = CURVE_REQ + ["gcd(s, self.n) == 1"]
  returns = "tuple[int,int]"
  ensures = [("C09", "0 <= result[0] and result[0] < self.n and 0 <= result[1] and result[1] < self.n")]
  # for every private key d and nonce k with s*k == z + r*d (mod n):  k == a + b*d (mod n)
  ghost_params = {"d": "int", "k": "int"}
  ghost_requires = ["(s * k - z - r * d) % self.n == 0"]
  ghost_ensures = [("C09", "(result[0] + result[1] * d - k) % self.n == 0")]
  return_hints = [
      ("C09", "let N = self.n"), ("C09", "let m1 = idiv(s * k - z - r * d, N)"), ("C09", "divmod_def(s * k - z - r * d, N)"),
      ("C09", "let k0 = idiv(s * si - 1, N)"), ("C09", "divmod_def(s * si - 1, N)"),
      ("C09", "let q1 = idiv(z * si, N)"), ("C09", "let q2 = idiv(r * si, N)"),
      ("C09", "divmod_def(z * si, N)"), ("C09", "divmod_def(r * si, N)"),
      ("C09", "s * si - 1 == N * k0"), ("C09", "s * k - z - r * d == N * m1"),
      ("C09", "result[0] == z * si - N * q1"), ("C09", "result[1] == r * si - N * q2"),
      ("C09", "by(z == s * k - r * d - N * m1, s * k - z - r * d == N * m1)"),
      ("C09", "by(z * si == (s * si) * k - (r * si) * d - N * (m1 * si), z == s * k - r * d - N * m1)"),
      ("C09", "by(z * si == k + N * (k0 * k) - (r * si) * d - N * (m1 * si), "
              "z * si == (s * si) * k - (r * si) * d - N * (m1 * si), s * si - 1 == N * k0)"),
      ("C09", "by(result[0] + result[1] * d - k == N * (k * k0 - si * m1 - q1 - q2 * d), "
              "z * si == k + N * (k0 * k) - (r * si) * d - N * (m1 * si), "
              "result[0] == z * si - N * q1, result[1] == r * si - N * q2)"),
      ("C09", "euclid(result[0] + result[1] * d - k, N, 0, k * k0 - si * m1 - q1 - q2 * d)"),
  ]
  total = True
  props = ["C09", "C18"]


@contract(f"{E}::EcCurve.OnCurve")
class OnCurve:
  replay_self = REPLAY_CURVE
  params = {"p": "point"}
  self_fields = CURVE_FIELDS
  requires = CURVE_REQ + ["wf_point(p)"]
  returns = "bool"
  ensures = [("C06", "result == (is_inf(p) or (p[1] * p[1] - (p[0] * p[0] * p[0] + self.a * p[0] + self.b)) % self.mod == 0)"),
             ("C06", "result == ufb('on_curve', self.a, self.b, self.mod, p[0] is None, p[0], p[1])")]
  defines = ["ufb('on_curve', self.a, self.b, self.mod, p[0] is None, p[0], p[1]) == "
             "(is_inf(p) or (p[1] * p[1] - (p[0] * p[0] * p[0] + self.a * p[0] + self.b)) % self.mod == 0)"]
  return_hints = [("C06", "implies(not is_inf(p), euclid(p[1] * p[1] - (p[0] * p[0] * p[0] + self.a * p[0] + self.b), "
                          "self.mod, imod(0 - ((p[0] * p[0] + self.a) * p[0] + self.b - p[1] * p[1]), self.mod), "
                          "0 - idiv((p[0] * p[0] + self.a) * p[0] + self.b - p[1] * p[1], self.mod) - "
                          "(1 if imod((p[0] * p[0] + self.a) * p[0] + self.b - p[1] * p[1], self.mod) != 0 else 0)))")]
  total = True
  props = ["C06", "C18"]


@contract(f"{E}::EcCurve.IsValidPublicKey")
class IsValidPublicKey:
  replay_self = REPLAY_CURVE
  params = {"p": "point"}
  self_fields = CURVE_FIELDS
  requires = CURVE_REQ + ["wf_point(p)"]
  returns = "bool"
  # valid == on the curve, not infinity, in the subgroup (checked only when the cofactor is > 1), coordinates in range
  ensures = [("C06", "result == (ufb('on_curve', self.a, self.b, self.mod, p[0] is None, p[0], p[1]) and not is_inf(p) "
                     "and (self.h <= 1 or ufb('ec_mul_is_inf', self.a, self.b, self.mod, p[0] is None, p[0], p[1], self.n)) "
                     "and 0 <= p[0] and p[0] < self.mod and 0 <= p[1] and p[1] < self.mod)"),
             ("C06", "result == ufb('valid_key', self.a, self.b, self.mod, self.n, self.h, p[0] is None, p[0], p[1])")]
  defines = ["ufb('valid_key', self.a, self.b, self.mod, self.n, self.h, p[0] is None, p[0], p[1]) == "
             "(ufb('on_curve', self.a, self.b, self.mod, p[0] is None, p[0], p[1]) and not is_inf(p) "
             "and (self.h <= 1 or ufb('ec_mul_is_inf', self.a, self.b, self.mod, p[0] is None, p[0], p[1], self.n)) "
             "and 0 <= p[0] and p[0] < self.mod and 0 <= p[1] and p[1] < self.mod)"]
  on_call = {f"{E}::EcCurve.OnCurve": ["implies(p[0] is not None, lemma('oncv_def', self.a, self.b, self.mod, p[0], p[1]))"]}
  total = True
  props = ["C06", "C18"]


@contract(f"{E}::PublicPoint")
class PublicPoint:
  params = {"key": "ref:ECKeyInfo"}
  returns = "tuple[int,int]"
  ensures = [("C09", "result[0] == bval(key.x) and result[1] == bval(key.y)"), "result[0] >= 0 and result[1] >= 0"]
  returns_expr = "(bval(key.x), bval(key.y))"
  total = True
  props = ["C09", "C18"]


@contract(f"{E}::ECDSAValues")
class ECDSAValues:
  params = {"sig": "ref:ECDSASignatureInfo", "curve": "obj:paranoid_crypto/lib/ec_util.py::EcCurve"}
  returns = "tuple[int,int,int]"
  requires = ["curve.n >= 2", "curve.mod >= 3", "curve.h >= 1"]
  # r, s are the big-endian values; z is the hash truncated to the order length (RFC 6979 2.4) with hlen = 8 * len(hash)
  ensures = [("C09", "result[0] == bval(sig.r) and result[1] == bval(sig.s)"),
             ("C09", "result[2] == idiv(bval(sig.message_hash), pow2(max(0, 8 * blen(sig.message_hash) - "
                     "bit_length(curve.n)))) % curve.n")]
  total = True
  props = ["C09", "C18"]


@contract(f"{E}::EcCurve.__fields__")
class EcCurveFields:
  """Field declaration for objects of type obj:...EcCurve created symbolically."""
  self_fields = CURVE_FIELDS
  assumed = True

# abstract group view used by the discrete-log contracts: is_dlog(curve, d, P)  <=>  d * G == P on that curve
# logarithm view of the cyclic group <G>: every point P of the subgroup has a unique log dlog(P) in [0, n);
# d is a discrete log of P  <=>  d == dlog(P) (mod n).  in_group(P): P is a non-infinity point of <G>.
macro("dlog", ["c", "px", "py"], "ufi('dlog', c.a, c.b, c.mod, c.g[0], c.g[1], c.n, px, py)")
macro("in_group", ["c", "px", "py"], "ufb('in_group', c.a, c.b, c.mod, c.g[0], c.g[1], c.n, px, py)")
macro("is_dlog", ["c", "d", "px", "py"], "(d - dlog(c, px, py)) % c.n == 0")


@contract(f"{E}::EcCurve.BatchInverse")
class BatchInverse:
  """Montgomery's trick, for every modulus and every list (congruence mode: the body is executed with `% self.mod`
  dropped, so the running products are the exact integer products): with pp(k) the product of the truthy entries
  before position k and r = invert(pp(len), mod), every truthy entry satisfies result[k] * values[k] == r * pp(len),
  which is 1 + mod * invert_k(...) by the definition of the modular inverse - i.e. result[k] is an inverse of values[k]
  modulo self.mod; falsy entries (None, 0) keep None.  The shape (one slot per input) is what callers assume."""
  params = {"values": "list[Optional[int]]"}
  self_fields = CURVE_FIELDS
  returns = "list[Optional[int]]"
  congruence_mod = "self.mod"
  requires = CURVE_REQ
  raises = {"ArithmeticError": None}
  defines = ["ufi('pp', 0) == 1",
             "forall(k, 0, len(values), ufi('pp', k + 1) == (ufi('pp', k) * values[k] if values[k] else ufi('pp', k)))"]
  ensures = [("C10,C11,C17", "len(result) == len(values)"),
             ("C11", "forall(k, 0, len(values), implies(not values[k], result[k] is None))"),
             ("C11", "forall(k, 0, len(values), implies(values[k], result[k] * values[k] == "
                     "invert(ufi('pp', len(values)), self.mod) * ufi('pp', len(values))))"),
             ("C11", "invert(ufi('pp', len(values)), self.mod) * ufi('pp', len(values)) == "
                     "1 + self.mod * invert_k(ufi('pp', len(values)), self.mod)")]
  # shape, for callers (proved in the value pass): one slot per input, None exactly for the falsy entries
  NONE_IFF = "forall(k, 0, len(values), (result[k] is None) == (not values[k]))"
  caller_ensures = ["len(result) == len(values)", NONE_IFF]
  loops = {0: dict(invariant=["len(res) == len(values)",
                              "forall(k, 0, len(values), (res[k] is None) == (not values[k] or k >= i))",
                              ("C11", "product == ufi('pp', i)"),
                              ("C11", "forall(k, 0, i, implies(values[k], res[k] == ufi('pp', k)))"),
                              ("C11", "forall(k, 0, len(values), implies(not values[k] or k >= i, res[k] is None))")],
                   types={"res": "list[Optional[int]]", "product": "int"},
                   body_end=[("C11", "ufi('pp', _i0 + 1) == (ufi('pp', _i0) * values[_i0] if values[_i0] else "
                                     "ufi('pp', _i0))")]),
           1: dict(body_end=[("C11", "let c = i + 1"),      # the index handled by this iteration (i is the next one)
                             ("C11", "ufi('pp', c + 1) == (ufi('pp', c) * values[c] if values[c] else ufi('pp', c))"),
                             ("C11", "implies(values[c], by(inverse * ufi('pp', c) == pre_inverse * ufi('pp', c + 1), "
                                     "inverse == pre_inverse * values[c], ufi('pp', c + 1) == ufi('pp', c) * values[c]))"),
                             ("C11", "by(inverse * ufi('pp', c) == invert(product, self.mod) * product, "
                                     "inverse * ufi('pp', c) == pre_inverse * ufi('pp', c + 1), "
                                     "pre_inverse * ufi('pp', c + 1) == invert(product, self.mod) * product)"),
                             ("C11", "implies(values[c], by(res[c] * values[c] == pre_inverse * ufi('pp', c + 1), "
                                     "res[c] == ufi('pp', c) * pre_inverse, ufi('pp', c + 1) == ufi('pp', c) * values[c]))"),
                             ("C11", "implies(values[c], by(res[c] * values[c] == invert(product, self.mod) * product, "
                                     "res[c] * values[c] == pre_inverse * ufi('pp', c + 1), "
                                     "pre_inverse * ufi('pp', c + 1) == invert(product, self.mod) * product))")],
                   invariant=["len(res) == len(values)",
                              "forall(k, 0, len(values), (res[k] is None) == (not values[k]))",
                              ("C11", "inverse * ufi('pp', i + 1) == invert(product, self.mod) * product"),
                              ("C11", "forall(k, 0, i + 1, implies(values[k], res[k] == ufi('pp', k)))"),
                              ("C11", "forall(k, i + 1, len(values), implies(values[k], res[k] * values[k] == "
                                      "invert(product, self.mod) * product))"),
                              ("C11", "forall(k, 0, len(values), implies(not values[k], res[k] is None))")],
                   types={"res": "list[Optional[int]]", "inverse": "int"})}
  var_types = {"res": "list[Optional[int]]"}
  props = ["C10", "C11", "C17"]


BINV = f"{E}::EcCurve.BatchInverse"
# the inverse-free x-coordinate of the chord law: x3 * (x1 - x2)^2 == (y1 - y2)^2 - (x1 + x2) * (x1 - x2)^2  (mod p)
_CHORD_X = ("(x * (p[0] - points[i][0]) * (p[0] - points[i][0]) - (p[1] - points[i][1]) * (p[1] - points[i][1]) + "
            "(p[0] + points[i][0]) * (p[0] - points[i][0]) * (p[0] - points[i][0])) % self.mod == 0")


@contract(f"{E}::EcCurve.BatchAddX")
class BatchAddX:
  """Ring pass (every modulus, every list): each x-coordinate computed by the shared-inversion branch satisfies the
  textbook chord law for p and points[i] in its inverse-free form - the inverses come from BatchInverse's proved
  contract (v * (x1 - x2) == 1 + mod * K), the slope is t = v * (y1 - y2).  The other entries are Add(p, q)[0] (Add's own
  contract).  Value pass: one x-coordinate per input point (what callers assume)."""
  params = {"p": "point", "points": "list[point]"}
  self_fields = CURVE_FIELDS
  returns = "list[Optional[int]]"
  congruence_mod = "self.mod"
  # prime-field hypotheses of the value pass (stated, not proved - as for Add / Double): a difference of x-coordinates is
  # 0 or a unit, 2y is 0 or a unit
  requires = CURVE_REQ + ["wf_point(p)", "forall(k, 0, len(points), wf_point(points[k]))",
                          ("VALUE", "forall(k, 0, len(points), p[0] is None or points[k][0] is None or "
                                    "(p[0] - points[k][0]) % self.mod == 0 or gcd(p[0] - points[k][0], self.mod) == 1)"),
                          ("VALUE", "p[0] is None or p[1] % self.mod == 0 or gcd(2 * p[1], self.mod) == 1")]
  raises = {"ArithmeticError": None}
  ensures = [("C10,C11,C17", "len(result) == len(points)")]
  caller_ensures = ["len(result) == len(points)"]
  entry_ghost = ["g_K = 0"]
  on_call = {BINV: ["g_K = invert_k(ufi('pp', len(args[0])), self.mod)",
                    "assert [C11] forall(k, 0, len(points), ret[k] is None or "
                    "ret[k] * (p[0] - points[k][0]) == 1 + self.mod * g_K)"]}
  on_assign = {"x": [
      "begin_scope",
      "let d = p[0] - points[i][0]", "let e = p[1] - points[i][1]", "let s = p[0] + points[i][0]",
      "assert [C11] v * d == 1 + self.mod * g_K",
      "assert [C11] by(t * d == e + self.mod * (e * g_K), t == v * e, v * d == 1 + self.mod * g_K)",
      "assert [C11] by((t * d) * (t * d) == e * e + self.mod * (e * e * g_K * (2 + self.mod * g_K)), "
      "t * d == e + self.mod * (e * g_K))",
      "assert [C11] by(x * d * d - e * e + s * d * d == self.mod * (e * e * g_K * (2 + self.mod * g_K)), "
      "x == t * t - p[0] - points[i][0], (t * d) * (t * d) == e * e + self.mod * (e * e * g_K * (2 + self.mod * g_K)), "
      "s == p[0] + points[i][0])",
      "euclid(x * d * d - e * e + s * d * d, self.mod, 0, e * e * g_K * (2 + self.mod * g_K))",
      "assert [C11] " + _CHORD_X,
      "end_scope"]}
  loops = {0: dict(invariant=["len(tmp) == len(points)",
                              ("C11", "forall(k, 0, i, implies(tmp[k] is not None, tmp[k] == p[0] - points[k][0]))"),
                              ("C11", "forall(k, i, len(points), tmp[k] is None)")],
                   types={"tmp": "list[Optional[int]]"}),
           1: dict(invariant=["len(tmp) == len(points)",
                              ("C11", "forall(k, i, len(points), tmp[k] is None or "
                                      "tmp[k] * (p[0] - points[k][0]) == 1 + self.mod * g_K)")],
                   types={"tmp": "list[Optional[int]]"}, keep={"g_K"})}
  var_types = {"tmp": "list[Optional[int]]"}
  props = ["C10", "C11", "C17"]


@contract(f"{E}::EcCurve.PointTable")
class PointTable:
  """For every n and every curve.  (1) Index space: the inner loop stores the value i*m + j for every
  i < len(sequence_high), j < len(sequence_low) with len(sequence_low) == m (the stride), and these index pairs reach
  every value in [0, n).  (2) Group view (bridge clauses of PointSequence's callees and of BatchAddX assumed): the result
  is a correct baby-step table - every v * base with v < n has its key (the canonical x-coordinate, or the key None for
  the identity) in the table, and every stored value v' under a key k satisfies x(v' * base) == k."""
  frame_props = ["C10", "C11", "C17"]
  params = {"base": "point", "n": "int"}
  self_fields = CURVE_FIELDS
  returns = "dict[int,int]"
  requires = CURVE_REQ + ["wf_point(base)", "onp(self, base)"]
  raises = {"ArithmeticError": None}
  ensures = [("C10", "table_ok(self, result, n, eltp(self, base))")]
  caller_ensures = ["table_ok(self, result, n, eltp(self, base))"]
  B_ = "eltp(self, base)"
  on_call = {f"{E}::EcCurve.BatchAddX": [
      "assert [C10,C11,C17] m >= 1 and len(args[1]) == m and len(sequence_low) == m",
      "assert [C10,C11,C17] im == i * m",
      # every index x in [0, n) is (x // m) * m + (x % m) with x // m < len(sequence_high)
      "check [C10,C11,C17] forall(x, 0, n, divmod_def(x, m) and 0 <= idiv(x, m) and idiv(x, m) < len(sequence_high) "
      "and 0 <= x - idiv(x, m) * m and x - idiv(x, m) * m < len(args[1]))",
      # p == i * (m * base) == (i m) * base
      "lemma('gmul_mul', self.a, self.b, self.mod, i, m, eltp(self, base))",
      "assert [C10] eltp(self, p) == gmul(self, i * m, eltp(self, base))"]}
  KEYS = ("forall((k,), dict_has(res, k), gmul(self, res[k], eltp(self, base)) != gzero(self) and "
          "gxc(self, gmul(self, res[k], eltp(self, base))) == k) and "
          "implies(dict_has(res, None), gmul(self, res[None], eltp(self, base)) == gzero(self))")
  COV = ("forall(v, 0, %s, (dict_has(res, None) if gmul(self, v, eltp(self, base)) == gzero(self) else "
         "dict_has(res, gxc(self, gmul(self, v, eltp(self, base))))))")
  loops = {0: dict(invariant=[("C10", "m >= 1 and len(sequence_low) == m and len(sequence_high) * m >= n"),
                              ("C10", "forall(k, 0, len(sequence_low), onp(self, sequence_low[k]) and "
                                      "eltp(self, sequence_low[k]) == gmul(self, k, eltp(self, base)))"),
                              ("C10", "forall(k, 0, len(sequence_high), onp(self, sequence_high[k]) and eltp(self, sequence_high[k]) "
                                      "== gmul(self, k, gmul(self, m, eltp(self, base))))"),
                              ("C10", KEYS), ("C10", COV % "i * m")],
                   types={"res": "dict[int,int]"}),
           1: dict(invariant=["im == i * m", ("C10", KEYS), ("C10", COV % "i * m + j")], types={"res": "dict[int,int]"},
                   body_end=[("C10,C11,C17", "res[x] == i * m + _i1"),
                             # the entry just written: its key is the x-coordinate (or None) of (i m + j) * base
                             ("C10", "lemma('gmul_add', self.a, self.b, self.mod, i * m, _i1, eltp(self, base))")])}
  var_types = {"res": "dict[int,int]"}
  props = ["C10", "C11", "C17"]


# The discrete-log view of the group <G> (specification theory, no statement about code): dlog / in_group are
# uninterpreted; the generator has logarithm 1, and the point with the negated y-coordinate (any representative) is the
# inverse.  Code is tied to this view only through Multiply's (assumed, C11) contract.
LOG_AXIOMS = ["in_group(self, self.g[0], self.g[1]) and dlog(self, self.g[0], self.g[1]) == 1",
              "oncv(self, self.g[0], self.g[1])"]


@spec_axiom("log_neg")
class LogNeg:
  """(x, y') with y + y' == 0 (mod p) is the inverse of (x, y): same subgroup, negated logarithm."""
  vars = {"ca": "int", "cb": "int", "cm": "int", "gx": "int", "gy": "int", "cn": "int", "ax": "int", "ay": "int",
          "by": "int"}
  hyps = ["ufb('in_group', ca, cb, cm, gx, gy, cn, ax, ay)", "(ay + by) % cm == 0"]
  concl = ["ufb('in_group', ca, cb, cm, gx, gy, cn, ax, by)",
           "(ufi('dlog', ca, cb, cm, gx, gy, cn, ax, ay) + ufi('dlog', ca, cb, cm, gx, gy, cn, ax, by)) % cn == 0"]


macro("log_neg", ["c", "ax", "ay", "by"], "lemma('log_neg', c.a, c.b, c.mod, c.g[0], c.g[1], c.n, ax, ay, by)")
_SOUND = ("(implies(points[k][0] is None, res[k] is None or res[k] == 0) and implies(points[k][0] is not None, "
          "res[k] is None or implies(in_group(self, points[k][0], points[k][1]), "
          "is_dlog(self, res[k], points[k][0], points[k][1]))))")


@contract(f"{E}::EcCurve.BatchDL")
class BatchDL:
  """Discharged for all n, all list lengths and all curves: (1) the search SPACE - the giant steps j*t, j < giant_steps,
  together with the baby-step window |delta| < table_size reach every x in [0, n), and the table cached on the curve is at
  least as large as the window; (2) SOUNDNESS of the search loop over the logarithm view - a value is stored only after
  Multiply(G, dl) has been compared with the target, so every returned value is a discrete logarithm of its own
  point (0 for the point at infinity).  Completeness of the baby-step lookups (keys of the table are the right
  x-coordinates) is group arithmetic: bounded tier."""
  params = {"points": "list[point]", "n": "int"}
  self_fields = dict(CURVE_FIELDS, _table="dict[int,int]", _table_size="int")
  returns = "list[Optional[int]]"
  requires = CURVE_REQ + ["n >= 1", "self._table_size >= 0", "forall(k, 0, len(points), wf_point(points[k]))",
                          "wf_point(self.g) and self.g[0] is not None"]
  spec_axioms = LOG_AXIOMS
  raises = {"ArithmeticError": None}    # BatchInverse's internal self-check (reached through PointTable / BatchAddX)
  ensures = [("C10", "len(result) == len(points)"),
             ("C02,C10", "forall(k, 0, len(result), implies(points[k][0] is None, result[k] is None or result[k] == 0) and "
                         "implies(points[k][0] is not None, result[k] is None or "
                         "implies(in_group(self, points[k][0], points[k][1]), "
                         "is_dlog(self, result[k], points[k][0], points[k][1]))))")]
  on_call = {f"{E}::EcCurve.PointSequence": [
      "assert [C10,C17] implies(len(points) >= 1, table_size >= 1) and t == 2 * table_size - 1",
      # every x in [0, n) lies within the baby-step window of a giant step; explicit witness j = (x + table_size - 1) // t
      "check [C10,C17] implies(len(points) >= 1, forall(x, 0, n, divmod_def(x + table_size - 1, t) and "
      "0 <= idiv(x + table_size - 1, t) and "
      "idiv(x + table_size - 1, t) < args[1] and 0 - table_size < x - idiv(x + table_size - 1, t) * t and "
      "x - idiv(x + table_size - 1, t) * t < table_size))",
      "assert [C10,C17] self._table_size >= table_size"],
             # candidate verification: y = Multiply(G, dl); whichever comparison with the target p succeeds afterwards,
             # the value stored is a logarithm of p
             f"{E}::EcCurve.Multiply": [
      "begin_scope",
      "let ON = defined('res') and ret[0] is not None and p[0] is not None",
      "let DLY = (dlog(self, ret[0], ret[1]) if ON else 0)",
      "let DLP = (dlog(self, p[0], p[1]) if ON else 0)",
      "let DLN = (dlog(self, ret[0], p[1]) if ON else 0)",
      "let dl_ = args[1]",
      # Multiply's log view with dlog(G) == 1: dlog(y) == dl (mod n), in either orientation
      "assert [C02,C10] implies(ON, (DLY - dl_) % self.n == 0)",
      "implies(ON, lemma('cong_lin', DLY - dl_, 0, 0 - 1, 0, self.n))",
      "assert [C02,C10] implies(ON, by((dl_ - DLY) % self.n == 0, ((0 - 1) * (DLY - dl_) + 0 * 0) % self.n == 0))",
      # case y == p
      "assert [C02,C10] implies(ON and ret[0] == p[0] and ret[1] == p[1], is_dlog(self, dl_, p[0], p[1]))",
      # case y == -p: ret[1] == (-p[1]) % mod  ==>  (ret[1] + p[1]) % mod == 0  ==>  dlog(p) == -dlog(y)
      "implies(ON, divmod_def(0 - p[1], self.mod) and euclid(ret[1], self.mod, ret[1], 0) and "
      "lemma('mod_eq_iff', ret[1], 0 - p[1], self.mod))",
      "assert [C02,C10] implies(ON and ret[1] == (0 - p[1]) % self.mod, by((ret[1] + p[1]) % self.mod == 0, "
      "ret[1] % self.mod == (0 - p[1]) % self.mod, "
      "(ret[1] % self.mod == (0 - p[1]) % self.mod) == ((ret[1] - (0 - p[1])) % self.mod == 0)))",
      "implies(ON, log_neg(self, ret[0], ret[1], p[1]))",
      "assert [C02,C10] implies(ON and ret[0] == p[0] and (ret[1] + p[1]) % self.mod == 0, "
      "in_group(self, ret[0], p[1]) and (DLY + DLN) % self.n == 0)",
      "implies(ON and ret[0] == p[0] and (ret[1] + p[1]) % self.mod == 0, "
      "lemma('cong_lin', DLY - dl_, DLY + DLN, 1, 0 - 1, self.n))",
      "assert [C02,C10] implies(ON and ret[0] == p[0] and (ret[1] + p[1]) % self.mod == 0, "
      "by((0 - dl_ - DLN) % self.n == 0, (1 * (DLY - dl_) + (0 - 1) * (DLY + DLN)) % self.n == 0))",
      "assert [C02,C10] implies(ON and ret[0] == p[0] and ret[1] == (0 - p[1]) % self.mod, "
      "is_dlog(self, 0 - dl_, p[0], p[1]))",
      "end_scope"]}
  INV = ["len(res) == len(points)", ("C02,C10", "forall(k, 0, len(points), %s)" % _SOUND)]
  loops = {0: dict(invariant=INV, types={"res": "list[Optional[int]]"}),
           1: dict(invariant=INV, types={"res": "list[Optional[int]]"},
                   # the slot of the current point after this baby-step candidate: still sound
                   body_end=[("C02,C10", "implies(p[0] is not None, res[i] is None or implies(in_group(self, p[0], p[1]), "
                                         "is_dlog(self, res[i], p[0], p[1])))")])}
  var_types = {"res": "list[Optional[int]]"}
  feasibility = False
  props = ["C02", "C10", "C17"]


# relation between the transformed point T = all_points[t] and its source, t = i + num_points * j (flat index, written with
# the code's own t // num_points and t % num_points): T = inverses[j] * points[i] in the logarithm view (this is Multiply's
# contract, recorded per entry)
def _rel(t):
  jj, ii = f"fdiv({t}, num_points)", f"fmod({t}, num_points)"
  T0, T1 = f"all_points[{t}][0]", f"all_points[{t}][1]"
  L = f"dlog(self, points[{ii}][0], points[{ii}][1])"
  return (f"(wf_point(all_points[{t}]) and implies(in_group(self, points[{ii}][0], points[{ii}][1]), "
          f"(({T0} is None) == cmod0(inverses[{jj}] * {L}, self.n)) and "
          f"implies({T0} is not None, in_group(self, {T0}, {T1}) and "
          f"cmod0(dlog(self, {T0}, {T1}) - inverses[{jj}] * {L}, self.n))))")


P3 = "C02,C10,C17"


def _bdl(k):      # BatchDL's postcondition for slot k of (all_points, discrete_logs)
  return (f"(implies(all_points[{k}][0] is None, discrete_logs[{k}] is None or discrete_logs[{k}] == 0) and "
          f"implies(all_points[{k}][0] is not None, discrete_logs[{k}] is None or "
          f"implies(in_group(self, all_points[{k}][0], all_points[{k}][1]), "
          f"is_dlog(self, discrete_logs[{k}], all_points[{k}][0], all_points[{k}][1]))))")


_XSOUND = ("(res[i2] is None or implies(in_group(self, points[i2][0], points[i2][1]), "
           "is_dlog(self, res[i2], points[i2][0], points[i2][1])))")


@contract(f"{E}::EcCurve.ExtendedBatchDL")
class ExtendedBatchDL:
  """Soundness for every curve, every list of finite points and ANY list of multipliers (the two loops that build the
  multiplier list are abstracted: the argument does not depend on their values): the transformed point
  all_points[i + num*j] is inverses[j] * points[i]; BatchDL returns a logarithm d of it; the value stored for point
  i = k % num is d * multipliers[k // num], and inverses[j] * multipliers[j] == 1 (mod n), so it is a logarithm of
  points[i] - in the logarithm view of the group (Multiply's assumed contract, C11).  WHICH logarithms are found
  (completeness) is the bounded tier."""
  params = {"points": "list[tuple[int,int]]"}
  self_fields = dict(CURVE_FIELDS, _table="dict[int,int]", _table_size="int")
  returns = "list[Optional[int]]"
  requires = CURVE_REQ + ["self._table_size >= 0", "wf_point(self.g) and self.g[0] is not None"]
  spec_axioms = LOG_AXIOMS
  raises = {"ArithmeticError": None}
  # Multiply's degenerate-tangent error (JacobianToAffine's ValueError) is possible only for a point off the curve
  raises_only_if = {"ValueError": "exists(k, 0, len(points), not oncv(self, points[k][0], points[k][1]))"}
  ensures = ["len(result) == len(points)",
             ("C02,C10,C17", "forall(k, 0, len(result), result[k] is None or implies(in_group(self, points[k][0], points[k][1]), "
                             "is_dlog(self, result[k], points[k][0], points[k][1])))")]
  FILL = ["len(all_points) == len(multipliers) * num_points", "num_points == len(points)",
          "len(inverses) == len(multipliers)",
          "forall(t, 0, len(inverses), inverses[t] * multipliers[t] == 1 + self.n * invert_k(multipliers[t], self.n))"]
  loops = {0: dict(abstract=True, types={"multipliers": "list[int]"}),
           1: dict(abstract=True, types={"multipliers": "list[int]"}),
           2: dict(invariant=FILL + [("C02,C10,C17", "forall(t, 0, num_points * j, %s)" % _rel("t"))],
                   types={"all_points": "list[point]"}),
           3: dict(invariant=FILL + [("C02,C10,C17", "forall(t, 0, num_points * j + i, %s)" % _rel("t"))],
                   types={"all_points": "list[point]"}, keep={"j", "inverse"},
                   body_end=[("C02,C10,C17", "begin_scope"),
                             ("C02,C10,C17", "let t0 = _i3 + num_points * j"),
                             ("C02,C10,C17", "euclid(t0, num_points, _i3, j) and flat_def(t0, num_points)"),
                             ("C02,C10,C17", "fdiv(t0, num_points) == j and fmod(t0, num_points) == _i3 and inverse == inverses[j]"),
                             ("C02,C10,C17", "cmod0_def(inverse * dlog(self, point[0], point[1]), self.n)"),
                             ("C02,C10,C17", "implies(all_points[t0][0] is not None, cmod0_def(dlog(self, all_points[t0][0], "
                                             "all_points[t0][1]) - inverse * dlog(self, point[0], point[1]), self.n))"),
                             ("C02,C10,C17", _rel("t0")), ("C02,C10,C17", "end_scope")]),
           4: dict(invariant=["len(res) == num_points", ("C02,C10,C17", "forall(i2, 0, num_points, %s)" % _XSOUND)],
                   types={"res": "list[Optional[int]]"},
                   body_end=[(P3, h) for h in [
                       "begin_scope",
                       "let k_ = _i4", "let jj = idiv(k_, num_points)", "let ii = k_ % num_points",
                       "let d = discrete_logs[k_]", "let ON = d is not None",
                       "divmod_def(k_, num_points) and flat_def(k_, num_points) and "
                       "div_lt(k_, num_points, len(multipliers))",
                       "implies(ON, by(0 <= ii and ii < num_points and 0 <= jj and jj < len(multipliers) and "
                       "fdiv(k_, num_points) == jj and fmod(k_, num_points) == ii, "
                       "k_ == num_points * idiv(k_, num_points) + k_ % num_points, 0 <= k_ % num_points, "
                       "k_ % num_points < num_points, num_points >= 1, k_ >= 0, k_ < num_points * len(multipliers), "
                       "idiv(k_, num_points) < len(multipliers), idiv(k_, num_points) >= 0, jj == idiv(k_, num_points), "
                       "ii == k_ % num_points, fdiv(k_, num_points) == idiv(k_, num_points), "
                       "fmod(k_, num_points) == k_ % num_points))",
                       "let m_ = multipliers[jj] if ON else 1", "let inv_ = inverses[jj] if ON else 1",
                       "let kk = invert_k(m_, self.n)",
                       "let L = dlog(self, points[ii][0], points[ii][1]) if ON else 0",
                       "let G_ = ON and in_group(self, points[ii][0], points[ii][1])",
                       "implies(ON, by(inv_ * m_ == 1 + self.n * kk, forall(t, 0, len(inverses), inverses[t] * "
                       "multipliers[t] == 1 + self.n * invert_k(multipliers[t], self.n)), 0 <= jj and jj < len(inverses), "
                       "m_ == multipliers[jj], inv_ == inverses[jj], kk == invert_k(multipliers[jj], self.n)))",
                       "implies(ON, res[ii] == d * m_)",
                       # instances of the two quantified facts (fill relation, BatchDL's postcondition) at k_
                       "implies(ON, by(%s, forall(t, 0, num_points * len(multipliers), %s), "
                       "0 <= k_ and k_ < num_points * len(multipliers)))" % (_rel("k_"), _rel("t")),
                       "implies(ON, by(%s, forall(k, 0, len(discrete_logs), %s), 0 <= k_ and k_ < len(discrete_logs)))"
                       % (_bdl("k_"), _bdl("k")),
                       "let T0 = all_points[k_][0] if ON else None", "let T1 = all_points[k_][1] if ON else None",
                       "let DT = (dlog(self, T0, T1) if ON and T0 is not None else 0)",
                       "implies(ON, cmod0_def(inv_ * L, self.n)) and implies(ON and T0 is not None, "
                       "cmod0_def(DT - inv_ * L, self.n))",
                       "euclid(self.n, self.n, 0, 1)",
                       # transformed point at infinity: d == 0, and L == 0 (mod n) because inv * L == 0 and inv is a unit
                       "implies(G_ and T0 is None, d == 0 and (inv_ * L) % self.n == 0)",
                       "implies(G_ and T0 is None, lemma('cong_lin', inv_ * L, self.n, m_, 0 - kk * L, self.n))",
                       "implies(G_ and T0 is None, by(L % self.n == 0, (m_ * (inv_ * L) + (0 - kk * L) * self.n) % self.n == 0, "
                       "inv_ * m_ == 1 + self.n * kk))",
                       "implies(G_ and T0 is None, lemma('cong_lin', L, 0, 0 - 1, 0, self.n))",
                       "implies(G_ and T0 is None, by((res[ii] - L) % self.n == 0, ((0 - 1) * L + 0 * 0) % self.n == 0, "
                       "res[ii] == d * m_, d == 0))",
                       # finite transformed point: d == dlog(T), dlog(T) == inv * L, inv * m == 1 (all mod n)
                       "implies(G_ and T0 is not None, in_group(self, T0, T1) and (DT - inv_ * L) % self.n == 0 and "
                       "(d - DT) % self.n == 0)",
                       "implies(G_ and T0 is not None, lemma('cong_lin', d - DT, DT - inv_ * L, m_, m_, self.n))",
                       "implies(G_ and T0 is not None, lemma('cong_lin', m_ * (d - DT) + m_ * (DT - inv_ * L), self.n, 1, "
                       "kk * L, self.n))",
                       "implies(G_ and T0 is not None, by((res[ii] - L) % self.n == 0, "
                       "(1 * (m_ * (d - DT) + m_ * (DT - inv_ * L)) + (kk * L) * self.n) % self.n == 0, "
                       "inv_ * m_ == 1 + self.n * kk, res[ii] == d * m_))",
                       "implies(ON, implies(in_group(self, points[ii][0], points[ii][1]), "
                       "is_dlog(self, res[ii], points[ii][0], points[ii][1])))",
                       "end_scope"]])}
  var_types = {"res": "list[Optional[int]]", "all_points": "list[point]", "multipliers": "list[int]",
               "inverses": "list[int]"}
  feasibility = False
  props = ["C02", "C10", "C17"]


@contract(f"{E}::EcCurve.BatchDLOfDifferences")
class BatchDLOfDifferences:
  """Discharged here for every batch: one slot per point; nothing is searched (and no table built) when fewer than two
  points are involved, otherwise the cached table covers max_diff; and the INDEX BOOKKEEPING of the pair search:
  position len(other_points) + k of the running list `negated` always holds the negation of points[k] (so the list
  grows by exactly one entry per point, duplicates included), and the partner key credited with a relation,
  key2 = j - len(other_points), is an earlier point of the batch (0 <= key2 < i) and the very point whose negation
  produced the hit.  That the reported multiple is the discrete log of the difference is the `diff == diff2`
  guard evaluated by Multiply (group arithmetic: bounded tier)."""
  params = {"points": "list[tuple[int,int]]", "other_points": "Optional[list[tuple[int,int]]]", "max_diff": "int"}
  self_fields = dict(CURVE_FIELDS, _table="dict[int,int]", _table_size="int")
  returns = "list[Optional[str]]"
  requires = CURVE_REQ + ["self._table_size >= 0", "wf_point(self.g) and self.g[0] is not None"]
  spec_axioms = ["oncv(self, self.g[0], self.g[1])"]      # the generator is on the curve (named curves: ground check)
  raises = {"ArithmeticError": None}    # BatchInverse's internal self-check (reached through PointTable / BatchAddX)
  ensures = [("C10", "len(result) == len(points)")]
  caller_ensures = ["len(result) == len(points)"]
  return_hints = [("C10", "implies(defined('negated'), self._table_size >= max_diff and "
                          "len(points) >= 1 and len(points) + len(other_points) >= 2)"),
                  ("C10", "implies(not defined('negated'), len(points) == 0 or len(points) + len(other_points) < 2)")]
  INV = ["len(res) == len(points)", ("C02,C10,C17", "len(negated) == len(other_points) + i"),
         ("C02,C10,C17", "forall(k, 0, i, negated[len(other_points) + k][0] == points[k][0] and "
                         "negated[len(other_points) + k][1] == (0 - points[k][1]) % self.mod)"),
         "forall(k, 0, len(negated), wf_point(negated[k]))", "self._table_size >= max_diff"]
  loops = {0: dict(invariant=INV, types={"res": "list[Optional[str]]", "negated": "list[point]"}),
           1: dict(invariant=INV, types={"res": "list[Optional[str]]"}, keep={"negated"})}
  on_assign = {"key2": ["assert [C02,C10,C17] 0 <= key2 and key2 < i and negated[j][0] == points[key2][0] and "
                        "negated[j][1] == (0 - points[key2][1]) % self.mod"]}
  var_types = {"res": "list[Optional[str]]", "negated": "list[point]"}
  props = ["C02", "C10", "C17"]
