"""Contracts for paranoid_crypto/lib/rsa_util.py and special_case_factoring.py (C01, C04, C18)."""
from pyvc.contracts import contract

RSA = "paranoid_crypto/lib/rsa_util.py"


@contract(f"{RSA}::FermatFactor")
class FermatFactor:
  params = {"n": "int", "max_steps": "int"}
  returns = "Optional[tuple[int,int]]"
  requires = ["n >= 1", "max_steps >= 0"]
  ensures = [
      ("C01", "result is None or result[0] * result[1] == n"),
      # C04 clause 1: factored exactly when some a in [ceil_sqrt(n), ceil_sqrt(n)+max_steps) has a*a-n square
      ("C04", "implies(n % 2 == 1 and not is_square(n), (result is None) == "
              "forall(a, ceil_sqrt(n), ceil_sqrt(n) + max_steps, not is_square(a * a - n)))"),
      ("C04", "implies(n % 2 == 0 or is_square(n), result is not None)"),
  ]
  loops = {0: dict(invariant=["b2 == a * a - n", "a == ceil_sqrt(n) + _i",
                              ("C04", "forall(c, ceil_sqrt(n), a, not is_square(c * c - n))")])}
  total = True


@contract(f"{RSA}::FactorHighAndLowBitsEqual")
class FactorHighAndLowBitsEqual:
  params = {"n": "int", "middle_bits": "int"}
  returns = "Optional[list[int]]"
  requires = ["n >= 1", "middle_bits >= 0"]
  ensures = [("C01", "result is None or (len(result) == 2 and result[0] * result[1] == n)")]
  # the search loops are havocked (invariant True): soundness needs only d == s*s - n at the return site
  total = True


@contract(f"{RSA}::CheckContinuedFraction")
class CheckContinuedFraction:
  params = {"n": "int", "bound": "int"}
  returns = "tuple[bool, list[int]]"
  requires = ["n >= 2"]
  ensures = [
      ("C01", "len(result[1]) == 0 or (len(result[1]) == 2 and result[1][0] * result[1][1] == n "
              "and 1 < result[1][0] < n)"),
      ("C01,C05", "implies(result[0], len(result[1]) == 0)"),
  ]
  total = True


@contract(f"{RSA}::CheckFraction")
class CheckFraction:
  params = {"n": "int", "d0": "int"}
  returns = "list[int]"
  requires = ["n >= 2", "d0 >= 1"]
  ensures = [("C01", "len(result) == 0 or (len(result) == 2 and result[0] * result[1] == n and 1 < result[0] < n)")]
  total = True


@contract(f"{RSA}::Pollardpm1")
class Pollardpm1:
  params = {"n": "int", "m": "int", "gcd_bound": "int"}
  returns = "tuple[bool, list[int]]"
  requires = ["n >= 2", "m >= 1"]
  ensures = [
      ("C01", "len(result[1]) == 0 or (len(result[1]) == 2 and result[1][0] * result[1][1] == n "
              "and 1 < result[1][0] < n)"),
      ("C01,C05", "implies(not result[0], len(result[1]) == 0)"),
      ("C05", "implies(gcd(n - 1, m) < gcd_bound, not result[0])"),
      # the mechanism the property names: base a = 2^(n-1) mod n, g = gcd(a^m - 1, n); flagged exactly when the gate is
      # open and g > 1, factored exactly when moreover g < n
      ("C05", "implies(gcd(n - 1, m) >= gcd_bound, result[0] == "
              "(gcd(powmod(powmod(2, n - 1, n), m, n) - 1, n) > 1))"),
      ("C05", "implies(gcd(n - 1, m) >= gcd_bound and 1 < gcd(powmod(powmod(2, n - 1, n), m, n) - 1, n) and "
              "gcd(powmod(powmod(2, n - 1, n), m, n) - 1, n) < n, "
              "len(result[1]) == 2 and result[1][0] == gcd(powmod(powmod(2, n - 1, n), m, n) - 1, n))"),
  ]
  total = True


@contract(f"{RSA}::CheckSmallUpperDifferences")
class CheckSmallUpperDifferences:
  params = {"n": "int"}
  returns = "Optional[list[int]]"
  requires = ["n >= 2"]
  ensures = [("C01", "result is None or (len(result) == 2 and result[0] * result[1] == n and 1 < result[0] < n)")]
  total = True


@contract("paranoid_crypto/lib/special_case_factoring.py::FactorWithGuess")
class FactorWithGuess:
  params = {"n": "int", "p_0": "int"}
  returns = "Optional[list[int]]"
  requires = ["n >= 2", "p_0 >= 1"]
  ensures = [("C01", "result is None or (len(result) == 2 and result[0] * result[1] == n and 1 < result[0] < n)")]
  total = True


@contract("paranoid_crypto/lib/lll.py::reduce")
class LllReduce:
  """fpylll is outside the verifier: assumed to return an integer matrix of the same shape, nothing about shortness."""
  params = {"mat": "opaque"}
  returns = "list[tuple[int,int,int]]"
  assumed = True
  assumed_why = "fpylll LLL (C extension); shape-only contract, rows are 3-vectors as at every call site"
  ensures = []


@contract(f"{RSA}::CheckLowHammingWeight")
class CheckLowHammingWeight:
  params = {"n": "int", "cutoff": "int", "maxsteps": "int"}
  returns = "tuple[bool, list[int]]"
  requires = ["n >= 2"]
  ensures = [("C01", "len(result[1]) == 0 or (len(result[1]) == 2 and result[1][0] * result[1][1] == n)"),
             ("C01,C05", "implies(len(result[1]) == 2, result[0])")]
  # the best-first search is havocked (invariant True): soundness needs only rem0 == n0 - p0*q0 == 0 with bit == 0
  loops = {0: dict(types={"heap": "list[tuple[int,int,int,int,int]]"}),
           1: dict(types={"heap": "list[tuple[int,int,int,int,int]]"})}
  total = True


@contract(f"{RSA}::BatchGCD")
class BatchGCD:
  frame_props = ["C01", "C03", "C17"]
  """Remainder-tree induction is outside SMT reach: assumed here (shape + divisibility), decided by the bounded tier
  (bounded/c03.py) against the definition gcd(v_i, other * prod of the other distinct values)."""
  params = {"values": "list[int]", "other_values_prod": "Optional[int]"}
  returns = "list[int]"
  assumed = True
  assumed_why = "product/remainder-tree induction; exhaustively checked for every batch size 0..130 in the bounded tier"
  requires = ["forall(j, 0, len(values), values[j] >= 1)"]
  ensures = ["len(result) == len(values)",
             "forall(j, 0, len(result), result[j] >= 1 and values[j] % result[j] == 0)"]
