#!/bin/bash
# usage: tools/mutcheck.sh <relpath> <sed-expr> <prop> [extra check args]  -- runs ./check against a scratch copy with one edit
D=$(mktemp -d /tmp/mutXXXX); cp -r /repo/paranoid_crypto $D/
sed -i "$2" $D/$1
if cmp -s $D/$1 /repo/$1; then echo "MUTATION DID NOT APPLY"; rm -rf $D; exit 9; fi
cd /verif && VERIF_REPO=$D ./check $3 ${@:4}; rc=$?; rm -rf $D; echo "exit=$rc"
