#!/bin/bash
# Harmless-edit corpus: semantics-preserving edits must keep the checks quiet (exit 0; exit 2 = undecided is tolerated
# and reported). usage: tools/harmless.sh
cd "$(dirname "$0")/.."
run() { # name relpath python-edit-expression props...
  name=$1; rel=$2; edit=$3; shift 3
  D=$(mktemp -d /tmp/harmXXXX); git -C /repo archive HEAD | tar -x -C $D
  python3 - "$D/$rel" <<PY
import sys
p=sys.argv[1]; s=open(p).read()
$edit
open(p,'w').write(s)
PY
  if cmp -s $D/$rel /repo/$rel; then echo "$name: EDIT DID NOT APPLY"; rm -rf $D; return; fi
  for P in "$@"; do
    VERIF_REPO=$D ./check $P --no-bounded > $D/out.log 2>&1; rc=$?
    echo "$name $P exit=$rc $(grep -h 'failed:\|undecided:' $D/out.log | head -2 | cut -c1-160 | tr '\n' ' ')"
  done
  rm -rf $D
}
run H1_fermat_recompute paranoid_crypto/lib/rsa_util.py 's=s.replace("    b2 += a\n    a += 1\n    b2 += a\n","    a += 1\n    b2 = a * a - n\n"); assert "b2 = a * a - n\n\n  return None" in s or True' C01 C04
run H2_settestresult_reorder paranoid_crypto/lib/util.py 'a=s.index("  if not test_info.paranoid_lib_version:"); b=s.index("  if test_result.result:"); c=s.index("  old_test_result = GetTestResult"); s=s[:a]+s[b:c]+s[a:b]+s[c:]' C16
run H3_rename_local paranoid_crypto/lib/rsa_single_checks.py 'i=s.index("class CheckSizes"); j=s.index("class CheckExponents"); s=s[:i]+s[i:j].replace("test_result","tr")+s[j:]' C16 C06
run H4_commute paranoid_crypto/lib/ec_util.py 's=s.replace("hcube = hsqr * h % mod","hcube = h * hsqr % mod")' C11
run H5_max_to_if paranoid_crypto/lib/randomness_tests/nist_suite.py 's=s.replace("  m = max(20, m)\n","  if m < 20:\n    m = 20\n")' C12
run H6_augassign paranoid_crypto/lib/randomness_tests/rng.py 's=s.replace("      x ^= x >> 12\n","      x = x ^ (x >> 12)\n")' C20
run H7_guard_order paranoid_crypto/lib/ntheory_util.py 's=s.replace("  if n % 2 == 0:\n    return None\n  a = n % 4\n","  if n % 2 != 1:\n    return None\n  a = n % 4\n")' C19
run H8_loop_var paranoid_crypto/lib/ecdsa_sig_checks.py 's=s.replace("  for i, guess_pk in enumerate(curve.BatchMultiplyG(guesses)):\n    if guess_pk in pks:\n      for idx in pks[guess_pk]:\n        issuer_dlogs[idx] = guesses[i]","  for num, guess_pk in enumerate(curve.BatchMultiplyG(guesses)):\n    if guess_pk in pks:\n      for idx in pks[guess_pk]:\n        issuer_dlogs[idx] = guesses[num]")' C02
run H9_negate_temp paranoid_crypto/lib/ec_util.py 's=s.replace("      negated.append(self.Negate(p))\n","      neg_p = self.Negate(p)\n      negated.append(neg_p)\n")' C10 C17
run H10_ladder_rewrite paranoid_crypto/lib/randomness_tests/extended_nist_suite.py 's=s.replace("  while size * size <= n:","  while n >= size * size:").replace("    size *= 2\n","    size = 2 * size\n")' C13 C12
run H11_pollard_temp paranoid_crypto/lib/rsa_util.py 's=s.replace("  if gmpy.gcd(n - 1, m) >= gcd_bound:\n    a = pow(2, n - 1, n)","  g = gmpy.gcd(n - 1, m)\n  if g >= gcd_bound:\n    e = n - 1\n    a = pow(2, e, n)")' C05 C01
run H12_jacobian_reorder paranoid_crypto/lib/ec_util.py 's=s.replace("    u1 = x1 * z2sqr % mod\n    u2 = x2 * z1sqr % mod\n    s1 = y1 * z2 * z2sqr % mod\n    s2 = y2 * z1 * z1sqr % mod\n","    u2 = x2 * z1sqr % mod\n    s2 = y2 * z1 * z1sqr % mod\n    u1 = x1 * z2sqr % mod\n    s1 = y1 * z2 * z2sqr % mod\n")' C11
run H13_check_loop_temp paranoid_crypto/lib/rsa_single_checks.py 'i=s.index("class CheckSizes"); j=s.index("class CheckExponents"); t=s[i:j]; k=t.index("      test_result = self._CreateTestResult()"); t=t[:k]+"      modulus_bytes = key.rsa_info.n\n"+t[k:]; s=s[:i]+t+s[j:]' C17 C16
run H14_split_shift_temp paranoid_crypto/lib/randomness_tests/util.py 's=s.replace("      val >>= (i * m) & 7\n","      shift = (i * m) & 7\n      val >>= shift\n")' C15
run H15_batchinverse_alias paranoid_crypto/lib/ec_util.py 's=s.replace("        res[i] = res[i] * inverse % mod\n        inverse = inverse * v % mod\n","        prefix = res[i]\n        res[i] = prefix * inverse % mod\n        inverse = v * inverse % mod\n")' C11
run H16_multiply_stmt_order paranoid_crypto/lib/ec_util.py 's=s.replace("    res = INFINITY_JACOBIAN\n    pj = self.AffineToJacobian(p)\n","    pj = self.AffineToJacobian(p)\n    res = INFINITY_JACOBIAN\n")' C11 C02
run H17_attach_factors_temp paranoid_crypto/lib/util.py 's=s.replace("  AttachInfo(test_info, info_name, str(new_set))\n","  serialized = str(new_set)\n  AttachInfo(test_info, info_name, serialized)\n")' C16 C01
run H18_batchdouble_commute paranoid_crypto/lib/ec_util.py 's=s.replace("        tmp[i] = 2 * p[1]\n","        tmp[i] = p[1] * 2\n")' C11
run H19_keypair_shift paranoid_crypto/lib/keypair_generator.py 's=s.replace("    p_size_bits = bits // 2\n    p = self.generate_prime(p_size_bits)","    p_size_bits = bits >> 1\n    p = self.generate_prime(p_size_bits)")' C01 C06
run H20_map_loop_var paranoid_crypto/lib/ecdsa_sig_checks.py 's=s.replace("  for i, sig in enumerate(sigs):\n    pks[ec_util.PublicPoint(sig.issuer_key_info)].append(i)","  for i, signature in enumerate(sigs):\n    pks[ec_util.PublicPoint(signature.issuer_key_info)].append(i)")' C02 C17
run H21_extended_dl_temp paranoid_crypto/lib/ec_util.py 's=s.replace("        res[k % num_points] = int(dlog * multipliers[k // num_points])\n","        mult = multipliers[k // num_points]\n        res[k % num_points] = int(dlog * mult)\n")' C02 C10
run H22_keypair_check_temp paranoid_crypto/lib/rsa_single_checks.py 's=s.replace("        p, q = keypair_generator.Generator(seed).generate_key(n.bit_length())\n","        gen = keypair_generator.Generator(seed)\n        p, q = gen.generate_key(n.bit_length())\n")' C01 C18
run H23_memoise_int_function paranoid_crypto/lib/util.py 's=s.replace("import ast\n","import ast\nimport functools\n",1).replace("def Bytes2Int(","@functools.lru_cache(maxsize=1024)\ndef Bytes2Int(",1)' C01 C16
run H24_pollard_check_unpack paranoid_crypto/lib/rsa_single_checks.py 's=s.replace("      weak, factors = rsa_util.Pollardpm1(n, self._m)\n","      verdict = rsa_util.Pollardpm1(n, self._m)\n      weak, factors = verdict\n")' C05
run H25_fermat_init_order paranoid_crypto/lib/rsa_single_checks.py 's=s.replace("    super().__init__(paranoid_pb2.SeverityType.SEVERITY_CRITICAL)\n    self._max_steps = max_steps\n","    self._max_steps = max_steps\n    super().__init__(paranoid_pb2.SeverityType.SEVERITY_CRITICAL)\n")' C04
run H26_exponents_fstring_small paranoid_crypto/lib/rsa_single_checks.py 's=s.replace("            \"Exponent check failed! Exponent: %d\\n%s\", e, key.rsa_info\n","            f\"Exponent check failed! Exponent bits: {e.bit_length() % 100000}\\n%s\", key.rsa_info\n")' C18
run H27_longest_runs_clamp paranoid_crypto/lib/randomness_tests/nist_suite.py 's=s.replace("    idx = max(0, min(v_upper, x) - v_lower)\n","    idx = min(v_upper, x) - v_lower\n    if idx < 0:\n      idx = 0\n")' C12
run H28_rank_class_temp paranoid_crypto/lib/randomness_tests/nist_suite.py 's=s.replace("    v[min(k, r - rank)] += 1\n","    cls = min(k, r - rank)\n    v[cls] += 1\n")' C12
run H29_bias_fold_if paranoid_crypto/lib/randomness_tests/lattice_suite.py 's=s.replace("      v = min(v, n - v)\n","      if n - v < v:\n        v = n - v\n")' C19
run H30_universal_block_temp paranoid_crypto/lib/randomness_tests/nist_suite.py 's=s.replace("    sumb += math.log(j - tab[b], 2)\n","    dist = j - tab[b]\n    sumb += math.log(dist, 2)\n")' C12
