#!/usr/bin/env python3
"""Re-evaluates every stored seeded change (seeded/<id>-<n>/) against the current checks and records the outcome in
its meta.json under "verification_current".  usage: tools/seed_all.py [tier] [jobs] [only-substring]"""
import concurrent.futures as cf
import json
import os
import re
import subprocess
import sys

ROOT = os.path.dirname(os.path.dirname(os.path.abspath(__file__)))
tier = sys.argv[1] if len(sys.argv) > 1 else "quick"
jobs = int(sys.argv[2]) if len(sys.argv) > 2 else 3
only = sys.argv[3] if len(sys.argv) > 3 else ""


def run(name):
  prop = name.split("-")[0]
  d = os.path.join(ROOT, "seeded", name)
  r = subprocess.run([os.path.join(ROOT, "tools/seed_eval.sh"), d, prop, tier], capture_output=True, text=True)
  out = r.stdout
  m = re.search(r"RESULT .*demo_clean=(\d+) demo_mutated=(\d+) check_exit=(\d+)", out)
  failed = sorted(set(re.findall(r"failed: (.*)", out)))
  res = dict(tier=tier, demo_clean=int(m.group(1)) if m else None, demo_mutated=int(m.group(2)) if m else None,
             check_exit=int(m.group(3)) if m else None, failed_obligations=[f[:200] for f in failed][:8])
  mp = os.path.join(d, "meta.json")
  meta = json.load(open(mp))
  meta.setdefault("verification_current", {})[tier] = res
  json.dump(meta, open(mp, "w"), indent=1)
  return name, res


names = sorted(n for n in os.listdir(os.path.join(ROOT, "seeded")) if re.match(r"C\d\d-\d+$", n) and only in n)
bad = 0
with cf.ThreadPoolExecutor(jobs) as ex:
  for name, res in ex.map(run, names):
    ok = res["demo_clean"] == 0 and res["demo_mutated"] not in (0, None) and res["check_exit"] == 1
    bad += not ok
    print(("caught " if ok else "MISSED ") + name, res["check_exit"], res["failed_obligations"][:2], flush=True)
print(f"{len(names) - bad}/{len(names)} seeded changes caught at tier {tier}")
sys.exit(1 if bad else 0)
