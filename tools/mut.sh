#!/bin/bash
# usage: tools/mut.sh <relpath> <sed-expr> <dev.py target> [prop]   -- runs dev.py against a scratch copy with one edit
set -e
D=$(mktemp -d /tmp/mutXXXX); cp -r /repo/paranoid_crypto $D/
sed -i "$2" $D/$1
if cmp -s $D/$1 /repo/$1; then echo "MUTATION DID NOT APPLY"; rm -rf $D; exit 9; fi
cd /verif && VERIF_REPO=$D .venv/bin/python dev.py "$3" $4 | grep -v "^  ok" ; rm -rf $D
