#!/bin/bash
# Runs every claimed quick check on the current tree (refreshes evidence/*.json). Usage: tools/run_all.sh [tier]
cd "$(dirname "$0")/.."
T=${1:-quick}
for p in $(.venv/bin/python -c "import json; print(' '.join(c['property_id'] for c in json.load(open('MANIFEST.json'))['checks']))"); do
  ./check $p --tier $T > /tmp/check_$p.log 2>&1; echo "$p exit=$? $(tail -1 /tmp/check_$p.log | cut -c1-160)"
done
