#!/usr/bin/env python3
"""Writes /verif/MANIFEST.json from the claim table below (kept in one place so the manifest is always valid)."""
import json, os
V = os.path.dirname(os.path.dirname(os.path.abspath(__file__)))
BASE = "cd /repo && /venv/bin/python -m pytest -ra -q -p no:cacheprovider --timeout=900 --continue-on-collection-errors"

TECH = "contract-based deductive verification: sidecar contracts on the real functions, VCs generated from /repo's AST on every run (pyvc), discharged by z3 5.1 with cvc5 1.4 as fallback; bounded stand-in / ground tiers labelled separately"
NOTE = "Trusted: z3/cvc5, the pyvc VC generator, CPython, the library theories and assumed contracts listed in the evidence file (gmpy2, fpylll, protobuf runtime, hashlib); Python ints are exact so no machine-arithmetic assumption."
CLAIMS = {
  # id: (category, technique, text, note, design_ref)
  "C01": ("proof", TECH,
          "Every factor-producing function (FermatFactor, FactorHighAndLowBitsEqual, CheckContinuedFraction, CheckFraction, Pollardpm1, CheckLowHammingWeight, FactorWithGuess, CheckSmallUpperDifferences) has a discharged postcondition 'recorded pair multiplies to n' (proper divisor where the code guards it); every util.AttachFactors call site of the 17 RSA Check methods carries discharged call-site obligations (same artifact, factors multiply to / divide the modulus) and 'attached implies positive entry'. BatchGCD is an assumed contract decided by the bounded tier; the CheckGCD proper-divisor clause is bounded only.",
          NOTE, "DESIGN.md 4/C01"),
  "C06": ("proof", TECH,
          "CheckSizes/CheckExponents/CheckROCA/CheckROCAVariant flag exactly their closed-form criterion (loop-body obligations over an arbitrary artifact); ROCAKeyDetector._HasDiscreteLog/IsWeak and ROCAKeyVariantDetector.IsWeak are proved against their definitions (39/48 primes, Euclidean witnesses). Denylist fingerprints, keypair table and EC criteria: see evidence (bounded / not yet under contract).",
          NOTE, "DESIGN.md 4/C06"),
  "C09": ("proof", TECH,
          "util.Bytes2Int/Int2Bytes are proved against the (length, big-endian value) bytes theory incl. round trip; EC-side (HiddenNumberParams, TransformOrderLen) see evidence.",
          NOTE, "DESIGN.md 4/C09"),
  "C16": ("proof", TECH,
          "util.GetTestResult/SetTestResult/GetAttachedInfo/AttachInfo/GetHighestSeverity are proved against their bodies over the protobuf view (frame + monotonicity + no duplicate names); BaseCheck._CreateTestResult and every RSA Check method: exactly one SetTestResult per artifact per call on that artifact's own test_info, named after the check, with the check's severity (documented LowHammingWeight exception), return value == OR of the results written.",
          NOTE, "DESIGN.md 4/C16"),
  "C18": ("proof", TECH,
          "Implicit-exception obligations (ZeroDivisionError, IndexError, KeyError, TypeError on None, ValueError of isqrt/shift/to_bytes, invert of non-unit) and 'no unexpected raise' are discharged for every function under a total contract, under the property's well-formedness precondition (moduli >= 2^63).",
          NOTE + " Termination is not claimed except where a variant is listed.", "DESIGN.md 4/C18"),
  "C19": ("proof", TECH,
          "Inverse2exp, InverseSqrt2exp, Sqrt2exp (Hensel lifting with explicit witnesses), ContinuedFraction (matrix invariant, convergent recurrence, last convergent equals the fraction) and DivmodRounded are proved for all inputs.",
          NOTE, "DESIGN.md 4/C19"),
}
NOT_YET = {}
NA = {
  "C07": "statement about the distribution of uniformly random keys/nonces (false-positive rate); no per-input postcondition exists, only population sampling (a different technique family) could estimate it",
  "C08": "detection depends on fpylll's LLL returning a particular short vector; no contract on lll.reduce within reach implies success; the glue around it is decided under C02/C16/C17",
}

def main():
  props = [json.loads(l) for l in open(os.path.join(V, "properties.jsonl"))]
  checks, na = [], []
  for p in props:
    pid = p["id"]
    if pid in CLAIMS:
      cat, tech, text, note, ref = CLAIMS[pid]
      checks.append(dict(property_id=pid, quick_cmd=f"./check {pid} --tier quick",
                         thorough_cmd=f"./check {pid} --tier thorough", evidence_file=f"evidence/{pid}.json",
                         replay_cmd_template=f"./check {pid} --replay {{path}}", engine="pyvc",
                         level_claimed=dict(category=cat, text=text, design_ref=ref), level_note=note, technique=tech))
    elif pid in NA:
      na.append(dict(property_id=pid, reason=NA[pid]))
    else:
      na.append(dict(property_id=pid, reason=NOT_YET.get(pid, "not claimed yet: contracts for this property are still being built (see DESIGN.md section 4 for the plan)")))
  m = dict(version=1, setup_cmd="./setup.sh",
           hooks=dict(guard="PARANOID_CRYPTO_VERIF", enable="none needed: VCs are generated from source text and run-time contracts wrap functions from outside; the guard name is reserved and unused",
                      baseline_off_cmd=BASE, source_commits=[], add_only=True),
           engines=[dict(name="pyvc", path="pyvc/", serves_properties=sorted(CLAIMS),
                         kind_free_text="VC generator for Python (ast -> path-wise symbolic execution, loops cut at invariants, calls replaced by contracts) + z3/cvc5; bounded stand-in and ground tiers labelled separately")],
           checks=checks, not_applicable=na,
           notes="Contracts live in /verif/contracts (sidecar, /repo untouched); known findings in known_findings.json; see DESIGN.md.")
  json.dump(m, open(os.path.join(V, "MANIFEST.json"), "w"), indent=1)
  import jsonschema
  jsonschema.validate(m, json.load(open("/root/.vp/MANIFEST.schema.json")))
  print("MANIFEST.json written:", len(checks), "checks,", len(na), "not_applicable")
main()
