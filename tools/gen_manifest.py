#!/usr/bin/env python3
"""Writes /verif/MANIFEST.json from the claim table below (kept in one place so the manifest is always valid)."""
import json, os
V = os.path.dirname(os.path.dirname(os.path.abspath(__file__)))
BASE = "cd /repo && /venv/bin/python -m pytest -ra -q -p no:cacheprovider --timeout=900 --continue-on-collection-errors"

TECH = "contract-based deductive verification: sidecar contracts on the real functions, VCs generated from /repo's AST on every run (pyvc), discharged by z3 5.1 with cvc5 1.4 as fallback; bounded stand-in / ground tiers labelled separately"
NOTE = "Trusted: z3/cvc5, the pyvc VC generator, CPython, the library theories and assumed contracts listed in the evidence file (gmpy2, fpylll, protobuf runtime, hashlib); Python ints are exact so no machine-arithmetic assumption."
CLAIMS = {
  # id: (category, technique, text, note, design_ref)
  "C01": ("proof", TECH,
          "Every factor-producing function (FermatFactor, FactorHighAndLowBitsEqual, CheckContinuedFraction, CheckFraction, Pollardpm1, CheckLowHammingWeight, FactorWithGuess, CheckSmallUpperDifferences) has a discharged postcondition 'recorded pair multiplies to n' (proper divisor where the code guards it); every util.AttachFactors call site of the 17 RSA Check methods carries discharged call-site obligations (same artifact, factors multiply to / divide the modulus) and 'attached implies positive entry'. CheckKeypairDenylist attaches the regenerated pair only after its own p * q == n test, and Generator.generate_key / generate_prime are proved to return integers >= 2^(bits/2 - 1) (so the pair is a proper factorisation); the shipped table's shape is a ground obligation. util.AttachFactors / GetAttachedFactors (serialisation and merge of the factor sets) are proved against their bodies. BatchGCD is an assumed contract decided by the bounded tier; the CheckGCD proper-divisor clause is bounded only.",
          NOTE, "DESIGN.md 4/C01"),
  "C03": ("exploration", TECH + " (glue deductive; remainder-tree induction bounded)",
          "CheckGCD / CheckGCDN1 glue is discharged (key i flagged exactly when gcds[i] != 1 resp. >= bound, recorded {g, N//g} resp. {g}, aligned with artifacts); BatchGCD itself (product / remainder tree induction) is an assumed contract decided by the bounded tier: definition gcd(v_i, other * product of the other distinct values) for every batch size 0..40 (quick) / 0..130 (thorough), sharing patterns, duplicates, permutations.",
          NOTE, "DESIGN.md 4/C03"),
  "C04": ("proof", TECH,
          "Clause 1 (Fermat factors exactly when (p+q)/2 - ceil(sqrt n) < max_steps) is discharged for all n, max_steps through the quantified loop invariant of FermatFactor. Clauses 2 and 3 (equal high/low bits, documented prime differences) are bounded stand-ins over seeded family members.",
          NOTE, "DESIGN.md 4/C04"),
  "C05": ("exploration", TECH + " (flag logic deductive; detection bounded, sampled)",
          "Detection rests on LLL / best-first heuristics: seeded members of each documented family at the documented margins (bounded, sampled). Deductive part: the Check methods flag exactly when the callee reports (CheckContinuedFraction, LowHammingWeight severity rule), search loops try candidates until the first success; Pollardpm1 is proved to be the mechanism the property names (gate gcd(n-1, m) >= bound, base 2^(n-1) mod n, flagged <=> gcd(a^m - 1, n) > 1, factored with that gcd when proper).",
          NOTE, "DESIGN.md 4/C05"),
  "C10": ("exploration", TECH + " (BatchDL and ExtendedBatchDL completeness and soundness deductive in a group view with assumed bridge clauses; search space, table, index mapping deductive; repeated-word multipliers and the small-difference sentence bounded)",
          "Deductive part (all n, all list lengths, all curves): BatchDL search space (the giant steps j*t together with the baby-step window |delta| < table_size reach every x in [0, n); the table cached on the curve is at least as large as the window), PointTable index space (the stored values i*m + j with j < m == len(sequence_low), i < len(sequence_high) reach every index in [0, n)), BatchDLOfDifferences (cached table covers max_diff whenever the search runs), CheckWeakECPrivateKey / CheckECKeySmallDifference flag key i exactly when search result i is not None (partition by curve preserves the index mapping). Soundness over the logarithm view of <G>: every value BatchDL returns is a discrete log of its own point (stored only after Multiply(G, dl) was compared with the target, both signs), and ExtendedBatchDL's value d * multiplier is a log of the original point because the transformed point is inverse * P and inverse * multiplier == 1 (mod n) - for every curve, list and multiplier list. Group view (bridge clauses on the formula-level functions assumed, see C11): Multiply returns n * P for every integer n, PointSequence entry k is k * base. COMPLETENESS of BatchDL (second, independent contract on the function): for every index i and every x with 0 <= x < n, if points[i] == x * G and the table cached on the curve is a correct baby-step table of its recorded size, then result[i] is not None - the giant step J = (x + ts - 1) // t leaves |x - J t| < ts, BatchAddX(p, list_c)[J] is the x-coordinate of (x - J t) G (None for the identity: None is a dict key of the table), the stored value v satisfies v G == +-(x - J t) G and one of the candidates J t + v, J t - v is verified and stored; the table invariant is re-established. PointTable is proved to build such a table (every v * base, v < n, has its key; every stored value has the right x-coordinate). Bridge clauses (assumed, listed): AddJacobian / DoubleJacobian / JacobianToAffine / BatchJacobianToAffine / Negate / BatchAddX compute the group operation resp. the x-coordinate of the sum on on-curve representatives; group and x-coordinate axioms of the specification theory. Second sentence (structured private keys): ExtendedBatchDL#completeness proves, for every point index, every position j of the multiplier list the function builds and every e < 2^32 with e G != 0, that a key (e * multipliers[j]) G is found (transformed point == e G because inverse * multiplier == 1 + n K and n G == 0; BatchDL's completeness; slot bookkeeping), and that the list holds 2^(8k) at position k for every 8k + 32 <= bits; that it also holds the repeated-word multipliers, and the third sentence (small differences, BatchDLOfDifferences), are decided for completeness by the bounded tier: exhaustive for all x, all list lengths and call histories on small prime-order curves, edge cases on named curves.",
          NOTE, "DESIGN.md 4/C10"),
  "C11": ("proof", TECH,
          "Formulas, for every prime field (congruence mode: the bodies are executed with `% self.mod` dropped, postconditions are integer polynomial identities over ghost affine coordinates, the chord/tangent slope stated inverse-free): AddJacobian and DoubleJacobian (both the a == -3 shortcut and the general formula) represent the textbook chord / tangent result (X3 == x3*Z3^2, Y3 == y3*Z3^3), affine Add / Double satisfy the textbook law with an explicit modular-inverse witness, Negate, AffineToJacobian, JacobianToAffine. BatchInverse (Montgomery trick) for every modulus and list. Value pass (body unmodified): which branch (chord / tangent / infinity / other operand) Add, AddJacobian, Double, DoubleJacobian take, stated as a comparison of field elements (lemmas mod_mul_r, mod_eq_iff proved on every run), results reduced to [0, p), no ZeroDivisionError under the stated prime-field hypothesis. Batched variants (ring pass, every modulus and list): BatchAddX, BatchAddSubtractX, BatchAdd, BatchAddList (chord law with the slope from the shared inversion), BatchDouble (tangent law), BatchJacobianToAffine, BatchJacobianToX (x = X w^2, y = Y w^3 with w Z == 1) - the inverses come from BatchInverse's proved contract. Scalar multiplication: Multiply is proved to return n * P for EVERY integer n (sign handling, n == 1 shortcut, double-and-add invariant res + n * pj == n0 * P) and PointSequence entry k to be k * base, in a group view whose bridge to the formulas (AddJacobian / DoubleJacobian / JacobianToAffine / Negate compute the group operation on on-curve representatives) is an ASSUMED clause justified by the ring pass plus the textbook fact that the chord/tangent law is a group law. Named-curve parameters: ground obligations. BatchMultiplyG (comb method), MultiplyAffine, non-canonical representatives end to end: bounded, exhaustive over whole small prime-order groups against an independent implementation.",
          NOTE + " Associativity of the chord/tangent law is not proved: it enters as the assumed bridge clauses and the group axioms of the specification theory (listed in the evidence).", "DESIGN.md 4/C11"),
  "C06": ("proof", TECH,
          "CheckSizes/CheckExponents/CheckROCA/CheckROCAVariant flag exactly their closed-form criterion (loop-body obligations over an arbitrary artifact); ROCAKeyDetector._HasDiscreteLog/IsWeak and ROCAKeyVariantDetector.IsWeak are proved against their definitions (39/48 primes, Euclidean witnesses). CheckKeypairDenylist flags exactly when the table lookup hits and the regenerated primes multiply to the modulus (generate_key proved to return a pair of the requested product length); OnCurve, IsValidPublicKey, CheckValidECKey, CheckWeakCurve criteria proved; the subgroup test goes through Multiply's proved group-view contract. Denylist fingerprints and which keys the vulnerable generator produces: bounded.",
          NOTE, "DESIGN.md 4/C06"),
  "C09": ("proof", TECH,
          "util.Bytes2Int/Int2Bytes are proved against the (length, big-endian value) bytes theory incl. round trip; EC-side (HiddenNumberParams, TransformOrderLen) see evidence.",
          NOTE, "DESIGN.md 4/C09"),
  "C16": ("proof", TECH,
          "util.GetTestResult/SetTestResult/GetAttachedInfo/AttachInfo/GetHighestSeverity are proved against their bodies over the protobuf view (frame + monotonicity + no duplicate names); AttachFactors/GetAttachedFactors are proved too (the set recorded afterwards is the old recorded set united with the new factors - a re-run never clears a factor; str(set)/ast.literal_eval as a library theory); BaseCheck._CreateTestResult and every RSA Check method: exactly one SetTestResult per artifact per call on that artifact's own test_info, named after the check, with the check's severity (documented LowHammingWeight exception), return value == OR of the results written.",
          NOTE, "DESIGN.md 4/C16"),
  "C02": ("proof", TECH,
          "Soundness glue of every EC/ECDSA check is discharged: _IssuerDLogs (every recorded index->d has a point under which the index is listed with d*G == point, for ARBITRARY guesses), BiasedBaseCheck.Check and CheckCr50U2f.Check (a signature is marked weak only on the branch where its index has a verified issuer discrete log; the attached DISCRETE_LOG is hex(d) with d*G == that signature's issuer point), CheckWeakECPrivateKey / CheckECKeySmallDifference (the value attached to key i is the search result for key i through the per-curve partition). BatchDL and ExtendedBatchDL are proved sound over the logarithm view (every returned value is a discrete log of its own point, for every curve / list / multiplier list), Multiply is proved against the group law for every scalar (group view, bridge clauses assumed, see C11); BatchMultiplyG stays an assumed contract decided under C11's bounded tier.",
          NOTE, "DESIGN.md 4/C02"),
  "C12": ("proof", TECH,
          "Insufficient-data guards and parameter ladders are discharged for all n: BlockFrequency (n<100; block size >= 20 and < 100 blocks), LongestRuns (n<128; M = 8/128/10^4 by NIST thresholds), BinaryMatrixRank (n < 38rc, incl. that the callee cannot raise), Universal (n<387840; largest admissible L, Q = 10*2^L), LinearComplexity, LargeBinaryMatrixRank (n<4096); SplitSequence length/range. Tables: ground obligations with exact rationals; integer statistics and invariances: bounded; floating-point p-value formulas: not decided by this family.",
          NOTE + " Floats are not modelled: function tails after the guard prefix are abstracted (listed in evidence).", "DESIGN.md 4/C12"),
  "C13": ("exploration", TECH + " (only util.CombinedPValue's control structure is deductive; the decision rule of TestStructure is a bounded stand-in)",
          "TestStructure.Run/Failed decision rule: bounded exhaustive over scripted p-value sequences against an independent Fisher combination; util.CombinedPValue control structure (empty -> ValueError, singleton identity, a zero -> 0) proved; LargeBinaryMatrixRank size ladder proved (every 64*2^j whose square fits into n is tested, the largest one included). The two statistical sentences of the property are not decidable by contracts.",
          NOTE, "DESIGN.md 4/C13"),
  "C14": ("exploration", TECH + " (closed forms deductive; Berlekamp-Massey implementations bounded)",
          "LfsrCount/LfsrLogProbability proved equal to the Rueppel closed form and consistent with each other for all n, m. The three linear-complexity implementations (pure Python, C++ with and without CLMUL compiled from the working tree) are a bounded stand-in: exhaustive over all short sequences against a brute-force shortest-LFSR oracle plus agreement on structured long sequences.",
          NOTE + " No C verifier is installed; the C++ code is only exercised, not proved.", "DESIGN.md 4/C14"),
  "C15": ("exploration", TECH + " (SplitSequence deductive; the other primitives bounded)",
          "SplitSequence proved equal to its definition for all inputs (block j == (seq >> j*m) mod 2^m on the byte-aligned and on the shift-and-mask path; little-endian bytes theory, pow2 lemmas proved on every run); every other bit-sequence primitive is checked exhaustively on all short strings and on both sides of each fast-path threshold against one-line definitions (bounded).",
          NOTE, "DESIGN.md 4/C15"),
  "C17": ("proof", TECH,
          "Non-interference by loop cut: every per-artifact loop body of the individual checks is verified from an ARBITRARY state of all loop-carried variables (havoc at the cut) and writes only to that artifact's own test_info (call-site obligations `args[0] is key.test_info`), with closed-form verdicts proved functions of the artifact alone; joint checks: verdict i is tied to search result i through the order-preserving per-curve / per-issuer partition. The EC table shared across calls: PointTable's index space and BatchDL's `self._table_size >= table_size` obligation are discharged for every request size; a syntactic frame obligation per function rules out any other state outside the arguments (module/class-level mutation, writes to self outside __init__). Batch-size dependence of the search range (finding F9) and histories on real objects: bounded tier.",
          NOTE, "DESIGN.md 4/C17"),
  "C20": ("proof", TECH,
          "0 <= RandomBits(n) < 2^n is discharged for all n >= 1 and all seeds for the 13 generator bodies (bytes/bit-length theory), TruncLcgRand restricted to n % 8 == 0 with the complementary obligation listed as known finding F6; no fresh randomness on the non-zero-seed path; the modelled recurrences: TruncLcgRand state' == (a state + c) mod 2^(2s), output == upper s bits; java.util.Random scramble (seed ^ 0x5DEECE66D) mod 2^48, state' == (0x5DEECE66D state + 0xB) mod 2^48, output == state' >> 16. Registry, determinism across calls, byte order of the assembled streams: bounded.",
          NOTE, "DESIGN.md 4/C20"),
  "C18": ("proof", TECH,
          "Implicit-exception obligations (ZeroDivisionError, IndexError, KeyError, TypeError on None, ValueError of isqrt/shift/to_bytes, invert of non-unit) and 'no unexpected raise' are discharged for every function under a total contract (every check method except CheckIssuerKey) and, through the dependency closure, for every helper under contract that they reach (85 functions in all), under the property's well-formedness precondition (moduli >= 2^63). Left open and listed: BatchInverse's internal self-check (ArithmeticError) and Multiply's degenerate-tangent ValueError, which is proved impossible for on-curve points but does occur off the curve (secp256r1, (1, p), n = 2) - CheckWeakECPrivateKey searches unvalidated keys, so that path is decided by the bounded tier only.",
          NOTE + " Termination is not claimed except where a variant is listed.", "DESIGN.md 4/C18"),
  "C19": ("proof", TECH,
          "Inverse2exp, InverseSqrt2exp, Sqrt2exp (Hensel lifting with explicit witnesses), ContinuedFraction (matrix invariant, convergent recurrence, last convergent equals the fraction) and DivmodRounded are proved for all inputs.",
          NOTE, "DESIGN.md 4/C19"),
}
NOT_YET = {}
NA = {
  "C07": "statement about the distribution of uniformly random keys/nonces (false-positive rate); no per-input postcondition exists, only population sampling (a different technique family) could estimate it",
  "C08": "detection depends on fpylll's LLL returning a particular short vector; no contract on lll.reduce within reach implies success; the glue around it is decided under C02/C16/C17",
}

def main():
  props = [json.loads(l) for l in open(os.path.join(V, "properties.jsonl"))]
  checks, na = [], []
  for p in props:
    pid = p["id"]
    if pid in CLAIMS:
      cat, tech, text, note, ref = CLAIMS[pid]
      checks.append(dict(property_id=pid, quick_cmd=f"./check {pid} --tier quick",
                         thorough_cmd=f"./check {pid} --tier thorough", evidence_file=f"evidence/{pid}.json",
                         replay_cmd_template=f"./check {pid} --replay {{path}}", engine="pyvc",
                         level_claimed=dict(category=cat, text=text, design_ref=ref), level_note=note, technique=tech))
    elif pid in NA:
      na.append(dict(property_id=pid, reason=NA[pid]))
    else:
      na.append(dict(property_id=pid, reason=NOT_YET.get(pid, "not claimed yet: contracts for this property are still being built (see DESIGN.md section 4 for the plan)")))
  m = dict(version=1, setup_cmd="./setup.sh",
           hooks=dict(guard="PARANOID_CRYPTO_VERIF", enable="none needed: VCs are generated from source text and run-time contracts wrap functions from outside; the guard name is reserved and unused",
                      baseline_off_cmd=BASE, source_commits=[], add_only=True),
           engines=[dict(name="pyvc", path="pyvc/", serves_properties=sorted(CLAIMS),
                         kind_free_text="VC generator for Python (ast -> path-wise symbolic execution, loops cut at invariants, calls replaced by contracts) + z3/cvc5; bounded stand-in and ground tiers labelled separately")],
           checks=checks, not_applicable=na,
           notes="Contracts live in /verif/contracts (sidecar, /repo untouched); known findings in known_findings.json; see DESIGN.md.")
  json.dump(m, open(os.path.join(V, "MANIFEST.json"), "w"), indent=1)
  import jsonschema
  jsonschema.validate(m, json.load(open("/root/.vp/MANIFEST.schema.json")))
  print("MANIFEST.json written:", len(checks), "checks,", len(na), "not_applicable")
main()
