#!/usr/bin/env python3
"""Writes /verif/MANIFEST.json from the claim table below (kept in one place so the manifest is always valid)."""
import json, os
V = os.path.dirname(os.path.dirname(os.path.abspath(__file__)))
BASE = "cd /repo && /venv/bin/python -m pytest -ra -q -p no:cacheprovider --timeout=900 --continue-on-collection-errors"

CLAIMS = {
  # id: (category, technique, text, note, design_ref)
  "C01": ("proof",
          "contract-based deductive verification: VCs generated from /repo's AST by pyvc, discharged by z3/cvc5",
          "Every factor-producing function of rsa_util/special_case_factoring is under a sidecar contract whose postcondition "
          "(product equals n, proper divisor where the code guards it) is discharged for all inputs; implicit exceptions are obligations.",
          "Trusted: z3/cvc5, the pyvc VC generator, the library theories (gmpy2.isqrt/gcd/..., listed in the evidence), "
          "fpylll via an assumed shape-only contract.",
          "DESIGN.md 4/C01"),
}
NOT_YET = {}
NA = {
  "C07": "statement about the distribution of uniformly random keys/nonces (false-positive rate); no per-input postcondition exists, only population sampling (a different technique family) could estimate it",
  "C08": "detection depends on fpylll's LLL returning a particular short vector; no contract on lll.reduce within reach implies success; the glue around it is decided under C02/C16/C17",
}

def main():
  props = [json.loads(l) for l in open(os.path.join(V, "properties.jsonl"))]
  checks, na = [], []
  for p in props:
    pid = p["id"]
    if pid in CLAIMS:
      cat, tech, text, note, ref = CLAIMS[pid]
      checks.append(dict(property_id=pid, quick_cmd=f"./check {pid} --tier quick",
                         thorough_cmd=f"./check {pid} --tier thorough", evidence_file=f"evidence/{pid}.json",
                         replay_cmd_template=f"./check {pid} --replay {{path}}", engine="pyvc",
                         level_claimed=dict(category=cat, text=text, design_ref=ref), level_note=note, technique=tech))
    elif pid in NA:
      na.append(dict(property_id=pid, reason=NA[pid]))
    else:
      na.append(dict(property_id=pid, reason=NOT_YET.get(pid, "not claimed yet: contracts for this property are still being built (see DESIGN.md section 4 for the plan)")))
  m = dict(version=1, setup_cmd="./setup.sh",
           hooks=dict(guard="PARANOID_CRYPTO_VERIF", enable="none needed: VCs are generated from source text and run-time contracts wrap functions from outside; the guard name is reserved and unused",
                      baseline_off_cmd=BASE, source_commits=[], add_only=True),
           engines=[dict(name="pyvc", path="pyvc/", serves_properties=sorted(CLAIMS),
                         kind_free_text="VC generator for Python (ast -> path-wise symbolic execution, loops cut at invariants, calls replaced by contracts) + z3/cvc5; bounded stand-in and ground tiers labelled separately")],
           checks=checks, not_applicable=na,
           notes="Contracts live in /verif/contracts (sidecar, /repo untouched); known findings in known_findings.json; see DESIGN.md.")
  json.dump(m, open(os.path.join(V, "MANIFEST.json"), "w"), indent=1)
  import jsonschema
  jsonschema.validate(m, json.load(open("/root/.vp/MANIFEST.schema.json")))
  print("MANIFEST.json written:", len(checks), "checks,", len(na), "not_applicable")
main()
