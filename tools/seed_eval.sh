#!/bin/bash
# usage: tools/seed_eval.sh <dir> <prop> [tier]     <dir> is a seeded/<id>-<n> directory (patch.diff, demo.py, meta.json)
#                                                   or a scratch worktree that holds them under <dir>/SEED
# 1. demo passes on a clean export of /repo HEAD and fails with the patch; 2. runs ./check <prop> against the patched
# export (VERIF_REPO: evidence goes to evidence/scratch, never to the committed evidence).  Prints one RESULT line.
W=$1; P=$2; T=${3:-quick}
SUP=$(cd "$(dirname "$0")/../seeded/_support" && pwd)     # pbstub.py (the demos look for it on sys.path)
S=$W; [ -d $W/SEED ] && S=$W/SEED
D=$(mktemp -d /tmp/seedevalXXXX)
git -C /repo archive HEAD | tar -x -C $D
mkdir $D/SEED; cp $S/patch.diff $S/demo.py $D/SEED/
cd $D
PYTHONPATH=$SUP PARANOID_REPO=$D timeout 900 /verif/.venv/bin/python SEED/demo.py > $D/demo_clean.log 2>&1; RC_CLEAN=$?
git init -q . 2>/dev/null; git apply --whitespace=nowarn SEED/patch.diff || { echo "PATCH DOES NOT APPLY"; rm -rf $D; exit 9; }
PYTHONPATH=$SUP PARANOID_REPO=$D timeout 900 /verif/.venv/bin/python SEED/demo.py > $D/demo_mut.log 2>&1; RC_MUT=$?
echo "demo: clean rc=$RC_CLEAN mutated rc=$RC_MUT ($(tail -1 $D/demo_mut.log | cut -c1-150))"
cd /verif && VERIF_REPO=$D ./check $P --tier $T > $D/check.log 2>&1; RC=$?
echo "check $P [$T] exit=$RC"; grep -h "VIOLATION\|failed:\|undecided\|checker error" $D/check.log | cut -c1-260 | head -8
mkdir -p /verif/seeded/_runs; cp $D/check.log /verif/seeded/_runs/$(basename $W)_${P}_$T.log
echo "RESULT seed=$(basename $W) prop=$P tier=$T demo_clean=$RC_CLEAN demo_mutated=$RC_MUT check_exit=$RC"
rm -rf $D
