#!/usr/bin/env python3
"""Runs the bounded/ground checks of one property in-process (development helper)."""
import sys, time, json, os
sys.path.insert(0, os.path.dirname(os.path.dirname(os.path.abspath(__file__))))
from pyvc import registry
registry.load_all()
prop = sys.argv[1]; tier = sys.argv[2] if len(sys.argv) > 2 else "quick"; pat = sys.argv[3] if len(sys.argv) > 3 else ""
seed = int(os.environ.get("VERIF_SEED", "0") or 0)
for g in registry.GROUND:
  if g["prop"] == prop and pat in g["name"] and (g["tier"] == "quick" or tier == "thorough"):
    t = time.time(); ok, detail = g["fn"](); print(f"ground  {g['name']:40s} {'ok' if ok else 'FAIL'} {time.time()-t:.1f}s {detail[:300]}")
for b in registry.BOUNDED:
  if b["prop"] == prop and pat in b["name"] and (b["tier"] == "quick" or tier == "thorough"):
    known = json.load(open(os.path.join(os.path.dirname(os.path.dirname(os.path.abspath(__file__))), "known_findings.json")))
    ctx = registry.Ctx(tier, seed, b["name"], prop=b["prop"], known=known); t = time.time(); b["fn"](ctx)
    print(f"bounded {b['name']:40s} evals={ctx.evaluations} distinct={len(ctx.nontrivial)} failures={len(ctx.failures)} known={ {k: v[0] for k, v in ctx.known_hits.items()} } {time.time()-t:.1f}s")
    for f in ctx.failures[:5]: print("   FAIL", json.dumps(f, default=str)[:600])
