"""C18 bounded stand-in: every individual check and every CheckAll* entry point returns a bool, without raising, on
well-formed batches: any size incl. 0, any curve id, coordinates of any size, degenerate RSA moduli >= 2^63 with any
exponent, r, s in [1, n-1], any hash length, any issuer key.

The oracle is the statement itself ("returns a bool, raises nothing, terminates"); field primes and group orders needed
to build the inputs are recovered from OpenSSL (pyca/cryptography), not from the repository. Every `inputs` dict carries
structural flags (batch_size, coordinate_ge_mod, duplicate_point_y_zero, odd_bit_length_table_hit, ...) so that the known
design findings F1, F7, F12 can be keyed without masking anything else.
"""
import math
import os
import signal
import subprocess
import sys

from pyvc.registry import bounded


def _rnd(ctx, tag):
  import random
  return random.Random(f"{ctx.seed}/c18/{tag}")


def _is_prime(n):
  if n < 2:
    return False
  small = (2, 3, 5, 7, 11, 13, 17, 19, 23, 29, 31, 37, 41)
  for p in small:
    if n % p == 0:
      return n == p
  d, s = n - 1, 0
  while d % 2 == 0:
    d //= 2
    s += 1
  for a in small:
    x = pow(a, d, n)
    if x in (1, n - 1):
      continue
    for _ in range(s - 1):
      x = x * x % n
      if x == n - 1:
        break
    else:
      return False
  return True


def _next_prime(x):
  x += 1 + x % 2
  while not _is_prime(x):
    x += 2
  return x


def _prime(rnd, bits):
  return _next_prime(rnd.getrandbits(bits) | (1 << (bits - 1)) | (1 << (bits - 2)))


def _i2b(x):
  return x.to_bytes((x.bit_length() + 7) // 8, "big")


def _lib():
  from pyvc import runtime
  runtime.install()
  from paranoid_crypto import paranoid_pb2
  from paranoid_crypto.lib import paranoid  # noqa: F401
  return paranoid_pb2


def _rsa_key(pb, n, e=65537):
  k = pb.RSAKey()
  k.rsa_info.n = _i2b(n)
  k.rsa_info.e = _i2b(e)
  return k


def _ec_key(pb, ct, x, y):
  k = pb.ECKey()
  k.ec_info.curve_type = ct
  k.ec_info.x = _i2b(x)
  k.ec_info.y = _i2b(y)
  return k


def _sig(pb, ct, x, y, r, s, h):
  g = pb.ECDSASignature()
  g.issuer_key_info.curve_type = ct
  g.issuer_key_info.x = _i2b(x)
  g.issuer_key_info.y = _i2b(y)
  g.ecdsa_sig_info.r = _i2b(r)
  g.ecdsa_sig_info.s = _i2b(s)
  g.ecdsa_sig_info.message_hash = h
  return g


class _Timeout(Exception):
  pass


def _total(ctx, fn, what, inputs, limit=240):
  """Runs fn(); records a failure if it raises, does not return within `limit` seconds, or returns a non-bool."""
  def _alarm(*_):
    raise _Timeout()
  armed = False
  try:
    signal.signal(signal.SIGALRM, _alarm)
    signal.alarm(limit)
    armed = True
  except ValueError:
    pass
  try:
    r = fn()
  except _Timeout:
    ctx.fail(what, dict(inputs, outcome="timeout"), observed=f"no return within {limit} s", expected="a bool")
    return None
  except Exception as ex:   # noqa: BLE001 - totality is the property
    ctx.fail(what, dict(inputs, outcome="exception", exception=type(ex).__name__),
             observed=f"{type(ex).__name__}: {str(ex)[:200]}", expected="a bool")
    return None
  finally:
    if armed:
      signal.alarm(0)
  ctx.check(isinstance(r, bool), what, dict(inputs, outcome="non-bool"), observed=repr(r)[:100], expected="a bool")
  return r


# ----------------------------------------------------------------------------------------------------------------------
# RSA

def _rsa_moduli(rnd):
  p1 = _prime(rnd, 1024)
  q1 = _prime(rnd, 1024)
  return [
      ("prime_64", _next_prime(1 << 63)), ("prime_2048", _next_prime((1 << 2047) + rnd.getrandbits(2000))),
      ("even_2048", 2 * p1 * _prime(rnd, 1023)), ("even_64", (1 << 63) + 2), ("square_2048", p1 * p1),
      ("square_65", _next_prime(1 << 32) ** 2), ("power_of_two_2^63", 1 << 63), ("power_of_two_2^64", 1 << 64),
      ("power_of_two_2^1000", 1 << 1000), ("power_of_two_2^2047", 1 << 2047), ("power_of_two_2^2048", 1 << 2048),
      ("odd_bit_length_2047", p1 * _next_prime((1 << 1022) + rnd.getrandbits(1000))),
      ("odd_bit_length_65", _next_prime(1 << 32) * _next_prime((1 << 32) + 1000)),
      ("odd_bit_length_1023", _prime(rnd, 512) * _next_prime((1 << 510) + rnd.getrandbits(500))),
      ("minimum_2^63+1", (1 << 63) + 1), ("all_ones_2048", (1 << 2048) - 1), ("all_ones_64", (1 << 64) - 1),
      ("2^64+1", (1 << 64) + 1), ("cube", _next_prime(1 << 22) ** 3), ("healthy_2048", p1 * q1),
      ("three_primes", _prime(rnd, 300) * _prime(rnd, 300) * _prime(rnd, 300)),
      ("multiple_of_small_primes", math.prod(range(1, 60, 2)) * _prime(rnd, 200)),
  ]


_EXPONENTS = (65537, 0, 1, 2, 3, (1 << 64) + 1, (1 << 2048) + 7, (1 << 20000) + 3)  # the last: > 10^4300 (int->str limit)


def _rsa_batches(rnd, moduli, pb, seven=3):
  """[(inputs, factory)] - factory builds fresh protobufs."""
  out = [(dict(batch_size=0, kinds=[]), lambda: [])]
  for i, (kind, n) in enumerate(moduli):
    for e in (_EXPONENTS if i % 4 == 0 else _EXPONENTS[:2]):
      out.append((dict(batch_size=1, kinds=[kind], exponent=e), lambda n=n, e=e: [_rsa_key(pb, n, e)]))
    out.append((dict(batch_size=2, kinds=[kind, kind], duplicate=True), lambda n=n: [_rsa_key(pb, n), _rsa_key(pb, n)]))
    k2, n2 = moduli[(i + 1) % len(moduli)]
    out.append((dict(batch_size=2, kinds=[kind, k2]), lambda n=n, n2=n2: [_rsa_key(pb, n), _rsa_key(pb, n2, 3)]))
  for _ in range(seven):
    pick = [rnd.choice(moduli) for _ in range(7)]
    out.append((dict(batch_size=7, kinds=[k for k, _ in pick]), lambda pick=pick: [_rsa_key(pb, n) for _, n in pick]))
  k0, n0 = moduli[rnd.randrange(len(moduli))]
  out.append((dict(batch_size=7, kinds=[k0] * 7, duplicate=True), lambda: [_rsa_key(pb, n0) for _ in range(7)]))
  return out


@bounded("C18", "rsa_individual_checks_total",
         bound="15 RSA checks (13 cheap ones with default constructors + CheckKeypairDenylist + CheckUnseededRand) x 22 "
               "moduli >= 2^63 (prime, even, perfect square, cube, powers of two 2^63..2^2048, odd bit lengths 65 / 1023 / "
               "2047, all-ones, three primes, smooth cofactor, healthy) x exponents {65537, empty, 1, 2, 3, 2^64+1, "
               "2^2048+7, 2^20000+3} x batch sizes 0, 1, 2 (neighbours, duplicates), 7 (seeded mixtures, 7 duplicates)",
         functions=["rsa_single_checks.*.Check", "rsa_aggregate_checks.*.Check", "rsa_util.*", "ntheory_util.*"])
def rsa_individual_total(ctx):
  pb = _lib()
  from paranoid_crypto.lib import rsa_aggregate_checks as ra, rsa_single_checks as rs
  rnd = _rnd(ctx, "rsa")
  moduli = _rsa_moduli(rnd)
  classes = [rs.CheckSizes, rs.CheckExponents, rs.CheckROCA, rs.CheckROCAVariant, rs.CheckFermat,
             rs.CheckHighAndLowBitsEqual, rs.CheckContinuedFractions, rs.CheckBitPatterns, rs.CheckPermutedBitPatterns,
             rs.CheckSmallUpperDifferences, ra.CheckGCD, ra.CheckGCDN1, rs.CheckOpensslDenylist, rs.CheckKeypairDenylist,
             rs.CheckUnseededRand]
  for cls in classes:
    chk = cls()
    slow = cls in (rs.CheckFermat, rs.CheckUnseededRand)
    batches = _rsa_batches(rnd, moduli, pb, seven=6 if ctx.thorough else 2)
    for bi, (inp, make) in enumerate(batches):
      if slow and not ctx.thorough and inp["batch_size"] == 2 and not inp.get("duplicate"):
        continue
      arts = make()
      ctx.case(key=(cls.__name__, inp["batch_size"], tuple(inp["kinds"][:2]), inp.get("exponent")))
      r = _total(ctx, lambda: chk.Check(arts), f"{cls.__name__}.Check returns a bool without raising",
                 dict(inp, check=cls.__name__))
      if r is not None:
        named = [sum(1 for t in a.test_info.test_results if t.test_name == cls.__name__) for a in arts]
        ctx.check(named == [1] * len(arts), "and leaves exactly one entry on every artifact",
                  dict(inp, check=cls.__name__), observed=named)


@bounded("C18", "rsa_expensive_checks_and_entry_point_total",
         bound="CheckPollardpm1() and CheckLowHammingWeight() on 12 of the degenerate moduli (incl. 2^2047, whose "
               "low-Hamming-weight search runs to its step limit, ~30 s) and batch sizes 0, 1, 2, 7; CheckAllRSA on [], on "
               "one healthy key, on a 7-batch of degenerate moduli (no odd-bit-length table hit, see F12)",
         functions=["rsa_single_checks.CheckPollardpm1.Check", "rsa_single_checks.CheckLowHammingWeight.Check",
                    "paranoid.CheckAllRSA"],
         tier="thorough")
def rsa_expensive_total(ctx):
  pb = _lib()
  from paranoid_crypto.lib import paranoid, rsa_single_checks as rs
  rnd = _rnd(ctx, "rsa_exp")
  moduli = dict(_rsa_moduli(rnd))
  pm1 = rs.CheckPollardpm1()
  lhw = rs.CheckLowHammingWeight()
  sel = ["prime_64", "prime_2048", "even_2048", "square_65", "power_of_two_2^63", "power_of_two_2^64", "odd_bit_length_65",
         "odd_bit_length_2047", "all_ones_64", "cube", "healthy_2048", "multiple_of_small_primes"]
  for chk in (pm1, lhw):
    name = chk.check_name
    for kind in sel + (["power_of_two_2^2047", "square_2048"] if chk is lhw else ["power_of_two_2^2047", "all_ones_2048"]):
      ctx.case(key=(name, kind))
      _total(ctx, lambda: chk.Check([_rsa_key(pb, moduli[kind])]), f"{name}.Check returns a bool without raising",
             dict(check=name, batch_size=1, kinds=[kind]), limit=400)
    ctx.case(key=(name, "empty"))
    _total(ctx, lambda: chk.Check([]), f"{name}.Check returns a bool without raising", dict(check=name, batch_size=0, kinds=[]))
    pair = ["even_2048", "square_65"]
    _total(ctx, lambda: chk.Check([_rsa_key(pb, moduli[k]) for k in pair]), f"{name}.Check returns a bool without raising",
           dict(check=name, batch_size=2, kinds=pair))
    seven = ["prime_64", "square_65", "cube", "even_64", "odd_bit_length_65", "2^64+1", "all_ones_64"]
    ctx.case(key=(name, "seven"))
    _total(ctx, lambda: chk.Check([_rsa_key(pb, moduli[k]) for k in seven]), f"{name}.Check returns a bool without raising",
           dict(check=name, batch_size=7, kinds=seven))
  for kinds in ([], ["healthy_2048"], ["prime_64", "healthy_2048"],
                ["prime_64", "square_65", "cube", "even_64", "odd_bit_length_65", "2^64+1", "healthy_2048"]):
    ctx.case(key=("CheckAllRSA", len(kinds)))
    _total(ctx, lambda: paranoid.CheckAllRSA([_rsa_key(pb, moduli[k], 3 if i % 2 else 65537) for i, k in enumerate(kinds)]),
           "CheckAllRSA returns a bool without raising", dict(entry_point="CheckAllRSA", batch_size=len(kinds), kinds=kinds),
           limit=450)


_F12_SCRIPT = r"""
import sys
sys.path.insert(0, %(verif)r)
from pyvc import runtime
runtime.install()
from paranoid_crypto import paranoid_pb2
from paranoid_crypto.lib import paranoid, rsa_single_checks
n = int(sys.argv[1])
k = paranoid_pb2.RSAKey()
k.rsa_info.n = n.to_bytes((n.bit_length() + 7) // 8, "big")
k.rsa_info.e = (65537).to_bytes(3, "big")
r = rsa_single_checks.CheckKeypairDenylist().Check([k])
print("RESULT", type(r).__name__, r)
"""


@bounded("C18", "keypair_denylist_terminates_on_table_hits",
         bound="moduli whose 64 leading bits are a key of the shipped keypair table but that are NOT generator outputs: "
               "2 table keys x bit lengths {2048, 2047, 1025, 4095, 64}: key << (bits - 64) | 1; each call of "
               "CheckKeypairDenylist.Check in its own subprocess, all concurrently, with a 45 s limit (design finding F12 for odd bit lengths: "
               "inputs.odd_bit_length_table_hit)",
         functions=["rsa_single_checks.CheckKeypairDenylist.Check", "keypair_generator.Generator.generate_key"],
         tier="thorough")
def keypair_termination(ctx):
  _lib()
  from paranoid_crypto.lib.data import default_storage
  table = default_storage.DefaultStorage().GetKeypairData().table
  keys = sorted(table)[:: max(1, len(table) // 2)][:2]
  verif = os.path.dirname(os.path.dirname(os.path.abspath(__file__)))
  jobs = []
  for tk in keys:
    for bits in (2048, 2047, 1025, 4095, 64):
      n = (tk << (bits - 64)) | (1 if bits > 64 else 0)
      assert n.bit_length() == bits and n >> (bits - 64) == tk
      p = subprocess.Popen([sys.executable, "-c", _F12_SCRIPT % dict(verif=verif), str(n)], stdout=subprocess.PIPE,
                           stderr=subprocess.PIPE, text=True, env=dict(os.environ))
      jobs.append((tk, bits, p))
  import time
  deadline = time.time() + 45          # all subprocesses run concurrently and share one deadline
  for tk, bits, p in jobs:
    inp = dict(check="CheckKeypairDenylist", table_key=tk, bits=bits, batch_size=1,
               odd_bit_length_table_hit=bool(bits % 2))
    ctx.case(key=(tk, bits), sample=inp)
    try:
      out, err = p.communicate(timeout=max(0.5, deadline - time.time()))
      ctx.check("RESULT bool" in out, "CheckKeypairDenylist.Check returns a bool without raising",
                dict(inp, outcome="exception" if p.returncode else "non-bool"), observed=(out + err)[-300:],
                expected="a bool")
    except subprocess.TimeoutExpired:
      p.kill()
      p.communicate()
      ctx.fail("CheckKeypairDenylist.Check returns (terminates)", dict(inp, outcome="timeout"),
               observed="no return within 45 s", expected="a bool")


# ----------------------------------------------------------------------------------------------------------------------
# EC / ECDSA inputs from OpenSSL

_CURVES = {"CURVE_SECP192R1": "SECP192R1", "CURVE_SECP224R1": "SECP224R1", "CURVE_SECP256R1": "SECP256R1",
           "CURVE_SECP384R1": "SECP384R1", "CURVE_SECP521R1": "SECP521R1", "CURVE_SECP256K1": "SECP256K1",
           "CURVE_BRAINPOOLP256R1": "BrainpoolP256R1", "CURVE_BRAINPOOLP384R1": "BrainpoolP384R1",
           "CURVE_BRAINPOOLP512R1": "BrainpoolP512R1"}


def _openssl_curve(name):
  """(p, n, pub) recovered from OpenSSL: p by eliminating a, b from public points, n by bisection on the key range."""
  from cryptography.hazmat.primitives.asymmetric import ec
  curve = getattr(ec, name)()

  def pub(d):
    pn = ec.derive_private_key(d, curve).public_key().public_numbers()
    return pn.x, pn.y
  pts = [pub(d) for d in range(1, 14)]
  cs = [y * y - x ** 3 for x, y in pts]
  g = 0
  for i in range(len(pts) - 2):
    (x1, _), (x2, _), (x3, _) = pts[i:i + 3]
    c1, c2, c3 = cs[i:i + 3]
    g = math.gcd(g, (c1 - c2) * (x2 - x3) - (c2 - c3) * (x1 - x2))
  for s in range(2, 2000):
    while g % s == 0 and g.bit_length() > curve.key_size:
      g //= s
  assert _is_prime(g) and g.bit_length() == curve.key_size
  lo, hi = 1, 1 << (curve.key_size + 2)
  while hi - lo > 1:
    mid = (lo + hi) // 2
    try:
      ec.derive_private_key(mid, curve)
      lo = mid
    except ValueError:
      hi = mid
  return dict(p=g, n=hi, pub=pub)


def _ec_flags(batch, known):
  """Structural flags of a batch [(ct, x, y)] for known-finding predicates."""
  ge = False
  dup_y0 = False
  seen = {}
  for ct, x, y in batch:
    c = known.get(ct)
    if c is None:
      continue
    p = c["p"]
    ge |= x >= p or y >= p
    key = (ct, x % p, y % p)
    if y % p == 0 and key in seen:
      dup_y0 = True
    seen[key] = True
  per_curve = {}
  for ct, _, _ in batch:
    per_curve[ct] = per_curve.get(ct, 0) + 1
  return dict(batch_size=len(batch), coordinate_ge_mod=ge, duplicate_point_y_zero=dup_y0,
              max_keys_on_one_curve=max(per_curve.values()) if per_curve else 0)


def _ec_batches(pb, rnd, known, all_ids, curves):
  """[(label, [(ct, x, y)])] for the given curve ids."""
  out = [("empty", [])]
  for ct in all_ids:
    c = known.get(ct)
    if c is None:
      out += [(f"id{ct}:00", [(ct, 0, 0)]), (f"id{ct}:big", [(ct, 1 << 600, 5)]),
              (f"id{ct}:two", [(ct, 1, 2), (ct, 3, 4)]), (f"id{ct}:seven", [(ct, i, i + 1) for i in range(7)])]
      continue
    if ct not in curves:
      continue
    p = c["p"]
    G, G2, R = c["pub"](1), c["pub"](2), c["pub"](rnd.randrange(1, c["n"]))
    one = {"00": (0, 0), "pp": (p, p), "G": G, "G+p": (G[0] + p, G[1]), "Gy+p": (G[0], G[1] + p),
           "big": ((1 << 600) + 3, (1 << 600) + 1), "off": (G[0], G[1] + 1), "x0": (0, G[1]), "y0": (G[0], 0),
           "p+x": (p + R[0], R[1]), "p-1": (p - 1, p - 1)}
    for lab, pt in one.items():
      out.append((f"id{ct}:{lab}", [(ct,) + pt]))
    two = {"G,G": [G, G], "G,-G": [G, (G[0], p - G[1])], "G,G+p": [G, (G[0] + p, G[1])], "G,Gy+p": [G, (G[0], G[1] + p)],
           "G,2G": [G, G2], "off,off": [(G[0], G[1] + 1), (G[0] + 1, G[1])], "off,off_same_x": [(G[0], G[1] + 1), (G[0], G[1] + 2)],
           "00,00": [(0, 0), (0, 0)], "00,G": [(0, 0), G], "y0,y0_same_x": [(G[0], 0), (G[0], 0)],
           "y0,y0": [(G[0], 0), (G[0] + 1, 0)], "pp,pp": [(p, p), (p, p)], "big,big": [(1 << 600, 1), ((1 << 600) + p, 1)],
           "R,R+p+p": [R, (R[0] + p, R[1] + p)]}
    for lab, pts in two.items():
      out.append((f"id{ct}:{lab}", [(ct,) + pt for pt in pts]))
    out.append((f"id{ct}:seven_valid", [(ct,) + c["pub"](rnd.randrange(1, c["n"])) for _ in range(7)]))
    out.append((f"id{ct}:seven_mixed", [(ct,) + pt for pt in (G, G2, (0, 0), (G[0], G[1] + 1), G, ((1 << 600), 1),
                                                              (G[0], p - G[1]))]))
    out.append((f"id{ct}:seven_ge_mod", [(ct,) + pt for pt in (G, G2, (0, 0), (p, p), G, (G[0] + p, G[1]), R)]))
  mixed = []
  for ct in all_ids:
    c = known.get(ct)
    mixed.append((ct,) + (c["pub"](5) if c else (1, 2)))
  out.append(("one_key_per_curve_id", mixed))
  return out


def _f7_shaped(flags):
  """Batches on which BatchDLOfDifferences meets two invalid points that coincide modulo p (design finding F7 and its
  y = 0 variant): kept out of the broad sweep so that their failures cannot crowd out the failure cap, and run on their
  own in ec_small_difference_invalid_point_pairs."""
  return (flags["coordinate_ge_mod"] and flags["max_keys_on_one_curve"] >= 2) or flags["duplicate_point_y_zero"]


@bounded("C18", "ec_individual_checks_total",
         bound="CheckValidECKey, CheckWeakCurve, CheckECKeySmallDifference(max_diff=2^12) on EVERY CurveType value + "
               "undeclared ids 20, 99 x coordinates {0, p, p-1, p+x, 2^600, off-curve, y=0, x=0, valid, negated} x batches "
               "of 0, 1, 2 (duplicates, same x, two invalid points), 7 (valid / mixed), one key per curve id; "
               "CheckWeakECPrivateKey on a selection of these batches for P-256 (quick) / all 9 curves (thorough) and all "
               "unknown ids. For CheckECKeySmallDifference the batches with >= 2 keys on a curve and a coordinate >= p, "
               "or a duplicated point with y = 0, are run separately (ec_small_difference_invalid_point_pairs)",
         functions=["ec_single_checks.*.Check", "ec_aggregate_checks.CheckECKeySmallDifference.Check",
                    "ec_util.EcCurve.BatchDLOfDifferences", "ec_util.EcCurve.ExtendedBatchDL", "ec_util.EcCurve.BatchAddX"])
def ec_individual_total(ctx):
  pb = _lib()
  from paranoid_crypto.lib import ec_aggregate_checks, ec_single_checks
  rnd = _rnd(ctx, "ec")
  ids = dict(pb.CurveType.items())
  known = {ids[name]: _openssl_curve(ossl) for name, ossl in _CURVES.items()}
  all_ids = sorted(set(ids.values()) | {20, 99})
  cheap = [ec_single_checks.CheckValidECKey(), ec_single_checks.CheckWeakCurve(),
           ec_aggregate_checks.CheckECKeySmallDifference(max_diff=1 << 12)]
  batches = _ec_batches(pb, rnd, known, all_ids, set(known))
  for chk in cheap:
    for label, batch in batches:
      flags = _ec_flags(batch, known)
      if chk.check_name == "CheckECKeySmallDifference" and _f7_shaped(flags):
        continue
      inp = dict(flags, check=chk.check_name, batch=label)
      ctx.case(key=(chk.check_name, label.split(":")[-1], batch[0][0] if batch else None))
      arts = [_ec_key(pb, *t) for t in batch]
      _total(ctx, lambda: chk.Check(arts), f"{chk.check_name}.Check returns a bool without raising", inp)
  dl = ec_single_checks.CheckWeakECPrivateKey()
  dl_curves = set(known) if ctx.thorough else {ids["CURVE_SECP256R1"]}
  keep = ("00", "pp", "G+p", "off", "y0", "big", "G,G+p", "00,00", "seven_mixed", "seven_ge_mod", "two", "seven")
  for label, batch in _ec_batches(pb, rnd, known, all_ids, dl_curves):
    kind = label.split(":")[-1]
    if label not in ("empty", "one_key_per_curve_id") and kind not in keep:
      continue
    if not ctx.thorough and (label == "one_key_per_curve_id" or kind in ("pp", "big", "seven_mixed")):
      continue
    inp = dict(_ec_flags(batch, known), check=dl.check_name, batch=label)
    ctx.case(key=(dl.check_name, label))
    arts = [_ec_key(pb, *t) for t in batch]
    _total(ctx, lambda: dl.Check(arts), "CheckWeakECPrivateKey.Check returns a bool without raising", inp)


@bounded("C18", "ec_small_difference_invalid_point_pairs",
         bound="CheckECKeySmallDifference(max_diff=2^12) on the batches left out above, on 3 curves (quick: secp192r1, "
               "P-256, brainpoolP384r1) / 5 curves (thorough: + secp256k1, secp521r1): (x,y)+(x+p,y) [design finding F7], "
               "(2^600,1)+(2^600+p,1), R+(Rx+p,Ry+p), (p,p)+(p,p), (0,0)+(0,0), (x,0)+(x,0), 7-batch with coordinates >= p, "
               "7-batch with two (0,0) keys",
         functions=["ec_aggregate_checks.CheckECKeySmallDifference.Check", "ec_util.EcCurve.BatchDLOfDifferences",
                    "ec_util.EcCurve.BatchAddX", "ec_util.EcCurve.Add"])
def ec_small_difference_pairs(ctx):
  pb = _lib()
  from paranoid_crypto.lib import ec_aggregate_checks
  rnd = _rnd(ctx, "ec")
  ids = dict(pb.CurveType.items())
  names = ["CURVE_SECP192R1", "CURVE_SECP256R1", "CURVE_BRAINPOOLP384R1"] + (
      ["CURVE_SECP256K1", "CURVE_SECP521R1"] if ctx.thorough else [])
  known = {ids[name]: _openssl_curve(_CURVES[name]) for name in names}
  chk = ec_aggregate_checks.CheckECKeySmallDifference(max_diff=1 << 12)
  ran = 0
  for label, batch in _ec_batches(pb, rnd, known, sorted(known), set(known)):
    flags = _ec_flags(batch, known)
    if not _f7_shaped(flags):
      continue
    ran += 1
    inp = dict(flags, check=chk.check_name, batch=label)
    ctx.case(key=(label,), sample=inp)
    arts = [_ec_key(pb, *t) for t in batch]
    _total(ctx, lambda: chk.Check(arts), "CheckECKeySmallDifference.Check returns a bool without raising", inp)
  ctx.check(ran >= 7 * len(known), "the left-out batches are all run here", dict(), observed=ran)


def _sig_batches(pb, rnd, known, all_ids, curve_ids, sizes, hash_lens):
  out = [("empty", [])]
  for ct in all_ids:
    c = known.get(ct)
    if c is not None and ct not in curve_ids:
      continue
    n = c["n"] if c else (1 << 255) - 19
    p = c["p"] if c else 1 << 255
    G = c["pub"](1) if c else (1, 2)
    issuers = {"valid": c["pub"](rnd.randrange(1, n)) if c else (7, 8), "00": (0, 0), "pp": (p, p), "off": (G[0], G[1] + 1),
               "big": (1 << 600, 3)}
    if c is None:
      issuers = {"any": (7, 8)}

    def rs():
      return rnd.choice([1, n - 1, rnd.randrange(1, n)])
    for iname, (x, y) in issuers.items():
      for hl in hash_lens:
        for bs in sizes:
          if bs == 0:
            continue
          sigs = [(ct, x, y, rs(), rs(), rnd.randbytes(hl)) for _ in range(bs)]
          out.append((f"id{ct}:{iname}:hash{hl}:x{bs}", sigs))
    x, y = issuers.get("valid", (7, 8))
    out.append((f"id{ct}:duplicates_and_extremes", [(ct, x, y, 1, 1, b""), (ct, x, y, 1, 1, b""),
                                                    (ct, x, y, n - 1, n - 1, b"\xff" * 64), (ct, x, y, 5, 7, bytes(64)),
                                                    (ct, x, y, 5, 9, bytes(64)), (ct, x, y, n - 1, 1, b"\x00"),
                                                    (ct, x, y, 1, n - 1, b"\x80" + bytes(63))]))
  out.append(("one_signature_per_curve_id", [(ct,) + ((known[ct]["pub"](9)) if ct in known else (1, 2)) + (3, 4, b"ab")
                                             for ct in all_ids]))
  return out


def _ecdsa_setup(ctx):
  pb = _lib()
  rnd = _rnd(ctx, "ecdsa")
  ids = dict(pb.CurveType.items())
  known = {ids[name]: _openssl_curve(ossl) for name, ossl in _CURVES.items()}
  all_ids = sorted(set(ids.values()) | {20, 99})
  hash_lens = (0, 1, 20, 32, 48, 64, 100) if ctx.thorough else (0, 20, 32, 64)
  return pb, rnd, ids, known, all_ids, _sig_batches(pb, rnd, known, all_ids, set(known), (0, 1, 2, 7), hash_lens)


def _run_sig_check(ctx, pb, chk, label, sigs):
  arts = [_sig(pb, *s) for s in sigs]
  parts = label.split(":")
  ctx.case(key=(chk.check_name, sigs[0][0] if sigs else None, parts[1] if len(parts) > 1 else label, len(sigs)))
  _total(ctx, lambda: chk.Check(arts), f"{chk.check_name}.Check returns a bool without raising",
         dict(check=chk.check_name, batch=label, batch_size=len(sigs), hash_lengths=sorted({len(s[5]) for s in sigs}),
              curve_ids=sorted({s[0] for s in sigs})))


@bounded("C18", "ecdsa_bias_checks_total",
         bound="CheckNonceMSB / CommonPrefix / CommonPostfix / Generalized and CheckCr50U2f on EVERY CurveType value + ids "
               "20, 99: r, s in {1, n-1, seeded} x hash lengths {0, 20, 32, 64} (quick) / {0, 1, 20, 32, 48, 64, 100} "
               "(thorough) x issuer keys {valid, (0,0), (p,p), off-curve, 2^600} x batch sizes 0, 1, 2, 7, duplicates, "
               "r = s = 1, r = s = n-1, one signature per curve id (quick: CheckCr50U2f with 7 signatures only on curves "
               "below 384 bits - its guess multiplication takes seconds per batch on the large ones)",
         functions=["ecdsa_sig_checks.BiasedBaseCheck.Check", "ecdsa_sig_checks.CheckCr50U2f.Check",
                    "hidden_number_problem.HiddenNumberProblem", "cr50_u2f_weakness.Cr50U2fGuesses", "ec_util.ECDSAValues",
                    "ec_util.EcCurve.HiddenNumberParams"])
def ecdsa_bias_total(ctx):
  pb, rnd, ids, known, all_ids, batches = _ecdsa_setup(ctx)
  from paranoid_crypto.lib import ecdsa_sig_checks as sg
  large = {ids["CURVE_SECP384R1"], ids["CURVE_SECP521R1"], ids["CURVE_BRAINPOOLP384R1"], ids["CURVE_BRAINPOOLP512R1"]}
  for chk in (sg.CheckNonceMSB(), sg.CheckNonceCommonPrefix(), sg.CheckNonceCommonPostfix(), sg.CheckNonceGeneralized(),
              sg.CheckCr50U2f()):
    for bi, (label, sigs) in enumerate(batches):
      if (not ctx.thorough and chk.check_name == "CheckCr50U2f" and sigs and sigs[0][0] in large
          and (len(sigs) >= 7 or (len(sigs) == 2 and bi % 4))):
        continue
      _run_sig_check(ctx, pb, chk, label, sigs)


@bounded("C18", "ecdsa_lcg_checks_total",
         bound="CheckLCGNonceGMP, CheckLCGNonceJavaUtilRandom on the same batch family; where their lattice search is "
               "slow (Java LCG on the 256-bit curves, GMP on secp384r1: 0.5 s per 1-2 signatures, ~15 s per 7) quick runs "
               "every 10th batch of size 1-2 and no larger one, thorough every 2nd batch of size <= 2 and every 12th larger one",
         functions=["ecdsa_sig_checks.CheckLCGNonceGMP.Check", "ecdsa_sig_checks.CheckLCGNonceJavaUtilRandom.Check",
                    "hidden_number_problem.HiddenNumberProblemForCurve"])
def ecdsa_lcg_total(ctx):
  pb, rnd, ids, known, all_ids, batches = _ecdsa_setup(ctx)
  from paranoid_crypto.lib import ecdsa_sig_checks as sg
  slow = {"CheckLCGNonceJavaUtilRandom": {ids["CURVE_SECP256R1"], ids["CURVE_SECP256K1"]},
          "CheckLCGNonceGMP": {ids["CURVE_SECP384R1"]}}
  for chk in (sg.CheckLCGNonceGMP(), sg.CheckLCGNonceJavaUtilRandom()):
    seen_small = seen_large = 0
    for label, sigs in batches:
      if sigs and any(s[0] in slow[chk.check_name] for s in sigs):
        if len(sigs) >= 3:
          seen_large += 1
          if not ctx.thorough or seen_large % 12 != 1:
            continue
        else:
          seen_small += 1
          if seen_small % (2 if ctx.thorough else 10) != 1:
            continue
      _run_sig_check(ctx, pb, chk, label, sigs)


@bounded("C18", "issuer_key_check_total",
         bound="CheckIssuerKey on batches with ONE issuer key per curve: empty, valid issuers on two curves (signatures "
               "sharing them), invalid / binary-field / undeclared / CURVE_UNKNOWN issuers, issuer coordinate >= p, 2^600; "
               "thorough: one issuer per curve id (two keys on one curve make the inner CheckAllEC build the 2^24 table, "
               "see check_all_entry_points_total)",
         functions=["ecdsa_sig_checks.CheckIssuerKey.Check", "paranoid.CheckAllEC"])
def issuer_key_total(ctx):
  pb, rnd, ids, known, all_ids, _ = _ecdsa_setup(ctx)
  from paranoid_crypto.lib import ecdsa_sig_checks as sg
  ik = sg.CheckIssuerKey()
  c256, c192 = ids["CURVE_SECP256R1"], ids["CURVE_SECP192R1"]
  p256 = known[c256]["p"]
  G = known[c256]["pub"](1)
  plans = [("empty", []),
           ("valid_issuers_two_curves", [(c256,) + known[c256]["pub"](77), (c192,) + known[c192]["pub"](78)] * 2),
           ("invalid_issuers", [(c256, 0, 0), (c192, 5, 5), (ids["CURVE_SECT163K1"], 1, 1), (99, 1, 1), (0, 2, 2)]),
           ("issuer_coordinate_ge_mod", [(c256, G[0] + p256, G[1])] * 2),
           ("issuer_huge", [(c256, 1 << 600, 1 << 599)])]
  if ctx.thorough:
    plans.append(("one_issuer_per_curve_id", [(ct,) + (known[ct]["pub"](3) if ct in known else (1, 2)) for ct in all_ids]))
  for label, issuers in plans:
    arts = [_sig(pb, ct, x, y, 12345 + i, 6789 + i, bytes([i]) * 32) for i, (ct, x, y) in enumerate(issuers)]
    ctx.case(key=("CheckIssuerKey", label))
    _total(ctx, lambda: ik.Check(arts), "CheckIssuerKey.Check returns a bool without raising",
           dict(_ec_flags(list(dict.fromkeys(issuers)), known), check="CheckIssuerKey", batch=label, batch_size=len(arts)))


@bounded("C18", "check_all_entry_points_total",
         bound="CheckAllEC / CheckAllECDSASigs (all active checks, default parameters): batch sizes 0, 1, 2, 7; one key per "
               "curve id (all 20 + undeclared); on secp192r1 (the one curve whose 2^24-entry difference table is built "
               "here, ~2 min, 3 GB): two valid keys, duplicates, (x,y)+(x+p,y) [F7], two (0,0) keys, 7 mixed keys; "
               "signatures: 7 of one issuer, two issuers on one curve, invalid issuers incl. coordinates >= p, hashes of 0 "
               "and 64 bytes",
         functions=["paranoid.CheckAllEC", "paranoid.CheckAllECDSASigs", "paranoid._CheckArtifacts",
                    "ecdsa_sig_checks.CheckIssuerKey.Check"],
         tier="thorough")
def check_all_total(ctx):
  pb = _lib()
  from paranoid_crypto.lib import paranoid
  rnd = _rnd(ctx, "all")
  ids = dict(pb.CurveType.items())
  known = {ids[name]: _openssl_curve(ossl) for name, ossl in _CURVES.items()}
  all_ids = sorted(set(ids.values()) | {20, 99})
  c192 = ids["CURVE_SECP192R1"]
  k = known[c192]
  p, n = k["p"], k["n"]
  G, G2, R = k["pub"](1), k["pub"](2), k["pub"](rnd.randrange(1, n))
  ec_batches = [
      ("empty", []), ("one_valid", [(c192,) + R]), ("one_key_per_curve_id",
                                                     [(ct,) + (known[ct]["pub"](5) if ct in known else (1, 2)) for ct in all_ids]),
      ("two_valid", [(c192,) + G, (c192,) + R]), ("duplicate", [(c192,) + R, (c192,) + R]),
      ("negated", [(c192,) + R, (c192, R[0], p - R[1])]),
      ("G,G+p", [(c192,) + G, (c192, G[0] + p, G[1])]), ("00,00", [(c192, 0, 0), (c192, 0, 0)]),
      ("two_off_curve", [(c192, G[0], G[1] + 1), (c192, G[0] + 1, G[1])]),
      ("seven_mixed", [(c192,) + t for t in (G, G2, (0, 1), (G[0], G[1] + 1), R, ((1 << 600), 1), (R[0], p - R[1]))]),
      ("seven_valid", [(c192,) + k["pub"](rnd.randrange(1, n)) for _ in range(7)]),
  ]
  for label, batch in ec_batches:
    ctx.case(key=("CheckAllEC", label))
    arts = [_ec_key(pb, *t) for t in batch]
    _total(ctx, lambda: paranoid.CheckAllEC(arts), "CheckAllEC returns a bool without raising",
           dict(_ec_flags(batch, known), entry_point="CheckAllEC", batch=label), limit=450)

  def sigs_of(issuers, hl):
    return [_sig(pb, ct, x, y, rnd.choice([1, n - 1, rnd.randrange(1, n)]), rnd.choice([1, n - 1, rnd.randrange(1, n)]),
                 rnd.randbytes(hl)) for ct, x, y in issuers]
  sig_batches = [
      ("empty", [], 0), ("one", [(c192,) + R], 32), ("two_same_issuer", [(c192,) + R] * 2, 0),
      ("seven_same_issuer", [(c192,) + R] * 7, 64), ("two_issuers_one_curve", [(c192,) + R, (c192,) + G2, (c192,) + R], 20),
      ("invalid_issuers", [(c192, 0, 0), (c192, G[0], G[1] + 1), (c192, 1 << 600, 1)], 64),
      ("issuers_G_and_G+p", [(c192,) + G, (c192, G[0] + p, G[1])], 32),
      ("one_signature_per_curve_id", [(ct,) + (known[ct]["pub"](5) if ct in known else (1, 2)) for ct in all_ids], 32),
  ]
  for label, issuers, hl in sig_batches:
    ctx.case(key=("CheckAllECDSASigs", label))
    arts = sigs_of(issuers, hl)
    _total(ctx, lambda: paranoid.CheckAllECDSASigs(arts), "CheckAllECDSASigs returns a bool without raising",
           dict(_ec_flags(list(dict.fromkeys(issuers)), known), entry_point="CheckAllECDSASigs", batch=label,
                batch_size=len(arts), hash_length=hl), limit=450)
