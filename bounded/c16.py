"""C16 bounded stand-in: verdict bookkeeping on real protobufs.

Oracles: a dict-based model of TestInfo written from the property statement (weak' = weak or result; entry: result or-ed,
severity max-ed, one entry per name; version kept once set; factor sets united), the severity table parsed from
README.md, the VERSION file, and - for the issuer-key clause - the EC entry point run on a fresh ECKey carrying that
signature's issuer_key_info (the statement's own definition). No repository function is used to PREDICT a verdict; the
bookkeeping clauses relate observed entries, flags and return values to each other.
"""
import ast
import itertools
import re

from pyvc.registry import bounded

UNKNOWN, LOW, MEDIUM, HIGH, CRITICAL = 0, 1, 2, 3, 4
FACTOR_INFOS = ("N_FACTORS", "N-1_FACTORS")


# ----------------------------------------------------------------------------------------------------------------------
# helpers

def _rnd(ctx, tag):
  import random
  return random.Random(f"{ctx.seed}/c16/{tag}")


def _is_prime(n):
  if n < 2:
    return False
  small = (2, 3, 5, 7, 11, 13, 17, 19, 23, 29, 31, 37, 41)
  for p in small:
    if n % p == 0:
      return n == p
  d, s = n - 1, 0
  while d % 2 == 0:
    d //= 2
    s += 1
  for a in small:
    x = pow(a, d, n)
    if x in (1, n - 1):
      continue
    for _ in range(s - 1):
      x = x * x % n
      if x == n - 1:
        break
    else:
      return False
  return True


def _prime(rnd, bits):
  while True:
    c = rnd.getrandbits(bits) | (1 << (bits - 1)) | (1 << (bits - 2)) | 1
    if _is_prime(c):
      return c


def _next_prime(x):
  x += 1 + x % 2
  while not _is_prime(x):
    x += 2
  return x


def _i2b(x):
  return x.to_bytes((x.bit_length() + 7) // 8, "big")


def _lib():
  from pyvc import runtime
  runtime.install()
  from paranoid_crypto import paranoid_pb2
  from paranoid_crypto.lib import paranoid  # noqa: F401  (first: circular import with ecdsa_sig_checks)
  return paranoid_pb2


def _version():
  import os
  from pyvc import runtime
  return open(os.path.join(runtime.REPO, "paranoid_crypto", "VERSION")).read().strip()


def _readme_severities():
  """{check name: severity number} from the table of README.md (rows '| CheckX | ... | SEVERITY_Y | n |')."""
  import os
  from pyvc import runtime
  names = dict(SEVERITY_UNKNOWN=0, SEVERITY_LOW=1, SEVERITY_MEDIUM=2, SEVERITY_HIGH=3, SEVERITY_CRITICAL=4)
  out = {}
  for line in open(os.path.join(runtime.REPO, "README.md")):
    m = re.match(r"\s*\|\s*(Check\w+)\s*\|.*\|\s*(SEVERITY_\w+)\s*\|", line)
    if m:
      out[m.group(1)] = names[m.group(2)]
  return out


def _rsa_key(pb, n, e=65537):
  k = pb.RSAKey()
  k.rsa_info.n = _i2b(n)
  k.rsa_info.e = _i2b(e)
  return k


def _ec_key(pb, ct, x, y):
  k = pb.ECKey()
  k.ec_info.curve_type = ct
  k.ec_info.x = _i2b(x)
  k.ec_info.y = _i2b(y)
  return k


def _sig(pb, ct, x, y, r, s, h):
  g = pb.ECDSASignature()
  g.issuer_key_info.curve_type = ct
  g.issuer_key_info.x = _i2b(x)
  g.issuer_key_info.y = _i2b(y)
  g.ecdsa_sig_info.r = _i2b(r)
  g.ecdsa_sig_info.s = _i2b(s)
  g.ecdsa_sig_info.message_hash = h
  return g


def _pub(curve_name, d):
  """d*G computed by OpenSSL."""
  from cryptography.hazmat.primitives.asymmetric import ec
  pn = ec.derive_private_key(d, getattr(ec, curve_name)()).public_key().public_numbers()
  return pn.x, pn.y


def _order(curve_name):
  """Group order by bisection on OpenSSL's private key range check (accepts exactly 1 <= d < n)."""
  from cryptography.hazmat.primitives.asymmetric import ec
  curve = getattr(ec, curve_name)()
  lo, hi = 1, 1 << (curve.key_size + 2)
  while hi - lo > 1:
    mid = (lo + hi) // 2
    try:
      ec.derive_private_key(mid, curve)
      lo = mid
    except ValueError:
      hi = mid
  return hi


def _canon(art):
  """Order-preserving, set-aware snapshot of test_info."""
  ti = art.test_info
  info = {}
  dup_info = False
  for a in ti.attached_info:
    dup_info |= a.info_name in info
    if a.info_name in FACTOR_INFOS:
      try:
        info[a.info_name] = frozenset(int(h, 16) for h in ast.literal_eval(a.value))
      except Exception:
        info[a.info_name] = "UNPARSABLE:" + a.value
    else:
      info[a.info_name] = a.value
  return dict(weak=ti.weak, version=ti.paranoid_lib_version,
              entries=[(t.test_name, t.result, t.severity) for t in ti.test_results], info=info, dup_info=dup_info)


def _entry_map(c):
  return {n: (r, s) for n, r, s in c["entries"]}


def _monotone(ctx, before, after, inputs, what_ctx):
  """The never-clears / never-lowers / never-duplicates clauses between two snapshots of one artifact."""
  ok = True
  names = [n for n, _, _ in after["entries"]]
  ok &= ctx.check(len(names) == len(set(names)) and not after["dup_info"], "no duplicated result / info entries",
                  dict(inputs, clause="no_duplicates", **what_ctx), observed=names)
  ok &= ctx.check(after["weak"] or not before["weak"], "a weak flag is never cleared",
                  dict(inputs, clause="weak_monotone", **what_ctx))
  am = _entry_map(after)
  for n, r, s in before["entries"]:
    ok &= ctx.check(n in am and (am[n][0] or not r) and am[n][1] >= s,
                    "an existing entry stays, stays positive if it was, severity is never lowered",
                    dict(inputs, clause="entry_monotone", entry=n, **what_ctx), observed=am.get(n), expected=(r, s))
  for k, v in before["info"].items():
    if isinstance(v, frozenset):
      av = after["info"].get(k)
      ok &= ctx.check(isinstance(av, frozenset) and av >= v, "a recorded factor is never dropped",
                      dict(inputs, clause="factors_monotone", info=k, **what_ctx),
                      observed=sorted(av) if isinstance(av, frozenset) else av, expected=sorted(v))
    else:
      ok &= ctx.check(k in after["info"], "an attached info record is never removed",
                      dict(inputs, clause="info_kept", info=k, **what_ctx))
  if before["version"]:
    ok &= ctx.check(after["version"] == before["version"], "a recorded library version is kept",
                    dict(inputs, clause="version_kept", **what_ctx), observed=after["version"])
  return ok


# ----------------------------------------------------------------------------------------------------------------------
# util.* against the model

class _Model:
  def __init__(self, weak=False, version=""):
    self.weak, self.version, self.entries, self.info = weak, version, [], []   # lists of [name, ...] keep order

  def set_result(self, name, result, sev, current):
    if not self.version:
      self.version = current
    self.weak = self.weak or result
    for e in self.entries:
      if e[0] == name:
        e[1] = e[1] or result
        e[2] = max(e[2], sev)
        return
    self.entries.append([name, result, sev])

  def get_result(self, name):
    for e in self.entries:
      if e[0] == name:
        return tuple(e)
    return None

  def attach(self, name, value):
    for e in self.info:
      if e[0] == name:
        e[1] = value
        return
    self.info.append([name, value])

  def get_info(self, name):
    for e in self.info:
      if e[0] == name:
        return e[1]
    return None

  def factors(self, name):
    v = self.get_info(name)
    return None if v is None else v   # stored as frozenset in the model

  def attach_factors(self, name, fs):
    old = self.get_info(name)
    self.attach(name, frozenset(fs) | (old or frozenset()))

  def highest(self):
    pos = [e[2] for e in self.entries if e[1]]
    return max(pos) if pos else None


@bounded("C16", "util_test_info_model_exhaustive",
         bound="ALL histories of length <= 3 (quick) / <= 4 (thorough) over 21 operations {SetTestResult(name in {A,B}, "
               "result in {F,T}, severity in {UNKNOWN, MEDIUM, CRITICAL}) (12), AttachInfo(name in {X,Y}, value in "
               "{'1','2'}) (4), AttachFactors(info in {N_FACTORS, N-1_FACTORS}, set in {{3},{5,7}}) (4), AttachFactors("
               "N_FACTORS, {}) (1)} from 3 initial states (fresh; weak+old version; pre-existing positive entry); after "
               "EVERY step the whole TestInfo and every getter is compared with a dict model",
         functions=["util.SetTestResult", "util.GetTestResult", "util.AttachInfo", "util.GetAttachedInfo",
                    "util.AttachFactors", "util.GetAttachedFactors", "util.GetHighestSeverity"],
         exhaustive=True)
def util_model(ctx):
  pb = _lib()
  from paranoid_crypto.lib import util
  current = _version()
  ops = []
  for name in "AB":
    for res in (False, True):
      for sev in (UNKNOWN, MEDIUM, CRITICAL):
        ops.append(("set", name, res, sev))
  for name in "XY":
    for val in "12":
      ops.append(("attach", name, val))
  for name in FACTOR_INFOS:
    for fs in ((3,), (5, 7)):
      ops.append(("factors", name, fs))
  ops.append(("factors", "N_FACTORS", ()))

  def initial(kind):
    ti, m = pb.TestInfo(), _Model()
    if kind == "weak_old_version":
      ti.weak = True
      ti.paranoid_lib_version = "0.0.9"
      m = _Model(True, "0.0.9")
    elif kind == "positive_entry":
      ti.weak = True
      ti.paranoid_lib_version = "0.0.9"
      ti.test_results.add(test_name="A", result=True, severity=HIGH)
      a = ti.attached_info.add()
      a.info_name, a.value = "N_FACTORS", "{'b'}"
      m = _Model(True, "0.0.9")
      m.entries.append(["A", True, HIGH])
      m.info.append(["N_FACTORS", frozenset({11})])
    return ti, m

  def observe(ti):
    info = []
    for a in ti.attached_info:
      if a.info_name in FACTOR_INFOS:
        info.append([a.info_name, frozenset(int(h, 16) for h in ast.literal_eval(a.value))])
      else:
        info.append([a.info_name, a.value])
    return dict(weak=ti.weak, version=ti.paranoid_lib_version,
                entries=[[t.test_name, t.result, t.severity] for t in ti.test_results], info=info)

  max_len = 4 if ctx.thorough else 3
  for kind in ("fresh", "weak_old_version", "positive_entry"):
    for length in range(1, max_len + 1):
      for hist in itertools.product(range(len(ops)), repeat=length):
        ti, m = initial(kind)
        ok = True
        for step, oi in enumerate(hist):
          op = ops[oi]
          if op[0] == "set":
            tr = pb.TestResultsEntry(test_name=op[1], result=op[2], severity=op[3])
            util.SetTestResult(ti, tr)
            m.set_result(op[1], op[2], op[3], current)
          elif op[0] == "attach":
            util.AttachInfo(ti, op[1], op[2])
            m.attach(op[1], op[2])
          else:
            util.AttachFactors(ti, op[1], list(op[2]))
            m.attach_factors(op[1], op[2])
          got = observe(ti)
          exp = dict(weak=m.weak, version=m.version, entries=m.entries, info=m.info)
          inp = dict(initial=kind, history=[list(map(str, ops[i])) for i in hist], step=step)
          ok &= ctx.check(got == exp, "TestInfo after the operation == model (weak or-ed, entry or-ed / max-ed / "
                          "unique, version kept, info replaced, factor sets united)", inp, observed=got, expected=exp)
          for name in ("A", "B", "C"):
            g = util.GetTestResult(ti, name)
            g = None if g is None else (g.test_name, g.result, g.severity)
            ok &= ctx.check(g == m.get_result(name), "GetTestResult == model lookup", dict(inp, name=name), g,
                            m.get_result(name))
          for name in ("X", "Y", "Z"):
            g = util.GetAttachedInfo(ti, name)
            ok &= ctx.check((None if g is None else g.value) == m.get_info(name), "GetAttachedInfo == model lookup",
                            dict(inp, name=name))
          for name in FACTOR_INFOS:
            g = util.GetAttachedFactors(ti, name)
            e = m.factors(name)
            ok &= ctx.check((g is None and e is None) or (g is not None and e is not None and set(map(int, g)) == set(e)),
                            "GetAttachedFactors == union of everything attached", dict(inp, name=name),
                            observed=None if g is None else sorted(map(int, g)), expected=None if e is None else sorted(e))
          hs = util.GetHighestSeverity(ti)
          ok &= ctx.check(hs == m.highest(), "GetHighestSeverity == max severity over positive entries (None iff none)",
                          inp, observed=hs, expected=m.highest())
          if not ok:
            break
        ctx.case(key=(kind, hist))


# ----------------------------------------------------------------------------------------------------------------------
# RSA: faithful bookkeeping with the cheap checks

def _denylist_storage(deny):
  from paranoid_crypto.lib.data import data_pb2, storage

  class _Store(storage.Storage):
    def GetUnseededRands(self, size):
      return frozenset()

    def GetKeypairData(self):
      return data_pb2.KeypairData()

    def GetOpensslDenylist(self):
      return deny
  return _Store()


def _fingerprint(n):
  import hashlib
  return "RSA-%d:%s" % (n.bit_length(), hashlib.sha1(("Modulus=" + format(n, "X") + "\n").encode()).hexdigest()[20:])


def _rsa_pool(rnd, pbits, big=True):
  """[(label, n, e)]: healthy and weak keys of several kinds (prime size pbits) + optionally one healthy 2048-bit key."""
  p = [_prime(rnd, pbits) for _ in range(9)]
  pool = [("healthy", p[0] * p[1], 65537), ("e=3", p[2] * p[3], 3),
          ("close_primes", p[4] * _next_prime(p[4] + (1 << 20)), 65537),
          ("shared_prime_1", p[5] * p[6], 65537), ("shared_prime_2", p[5] * p[7], 65537),
          ("square", p[8] * p[8], 65537), ("denylisted", p[1] * p[2], 65537)]
  # ROCA-shaped: residue 65537^a modulo the product of the odd primes <= 173
  M = 1
  for q in range(3, 174):
    if all(q % d for d in range(2, int(q ** 0.5) + 1)):
      M *= q
  pool.append(("roca_shaped", pow(65537, rnd.getrandbits(100), M) + M * (rnd.getrandbits(2 * pbits) // M | 1), 65537))
  if big:
    pool.append(("healthy_2048", _prime(rnd, 1024) * _prime(rnd, 1024), 65537))
  return pool


def _cheap_rsa_checks(deny, fermat_steps=None):
  from paranoid_crypto.lib import rsa_aggregate_checks as ra, rsa_single_checks as rs
  fermat = rs.CheckFermat() if fermat_steps is None else rs.CheckFermat(max_steps=fermat_steps)
  return [rs.CheckSizes(), rs.CheckExponents(), rs.CheckROCA(), rs.CheckROCAVariant(), fermat,
          rs.CheckHighAndLowBitsEqual(), rs.CheckContinuedFractions(), rs.CheckBitPatterns(),
          rs.CheckPermutedBitPatterns(), rs.CheckSmallUpperDifferences(), ra.CheckGCD(), ra.CheckGCDN1(),
          rs.CheckOpensslDenylist(_denylist_storage(deny))]


def _faithful(ctx, arts, checks_run, rets, applicable, inputs, documented, version, sev_exception=None):
  """Clauses for FRESH artifacts after running `checks_run` (list of check objects) once each."""
  any_weak = False
  for idx, art in enumerate(arts):
    c = _canon(art)
    inp = dict(inputs, artifact=idx)
    want = [chk.check_name for chk in checks_run if applicable(chk, art)]
    got = [n for n, _, _ in c["entries"]]
    ctx.check(sorted(got) == sorted(want), "exactly one entry per applicable check, named after the check class", inp,
              observed=sorted(got), expected=sorted(want))
    for chk in checks_run:
      e = _entry_map(c).get(chk.check_name)
      if e is None:
        continue
      want_sev = documented.get(chk.check_name, chk.severity)
      ok = e[1] == want_sev
      if not ok and sev_exception is not None:
        ok = sev_exception(chk, art, e)
      ctx.check(ok, "entry severity == the check's documented severity", dict(inp, check=chk.check_name),
                observed=e[1], expected=want_sev)
    ctx.check(c["version"] == version, "paranoid_lib_version recorded", inp, observed=c["version"], expected=version)
    ctx.check(c["weak"] == any(r for _, r, _ in c["entries"]), "weak <=> some entry is positive", inp,
              observed=c["weak"], expected=[e for e in c["entries"] if e[1]])
    any_weak |= c["weak"]
  for chk, ret in zip(checks_run, rets):
    pos = any(_entry_map(_canon(a)).get(chk.check_name, (False,))[0] for a in arts)
    ctx.check(isinstance(ret, bool) and ret == pos, "Check() returns True <=> it wrote a positive entry",
              dict(inputs, check=chk.check_name), observed=ret, expected=pos)
  return any_weak


@bounded("C16", "rsa_cheap_checks_faithful_bookkeeping",
         bound="13 cheap RSA checks (all active ones except Pollard p-1, low Hamming weight, unseeded-rand, keypair) x "
               "every non-empty sub-batch of <= 3 keys (quick) / <= 4 (thorough) out of a seeded pool of 9 keys (healthy, "
               "e=3, close primes, shared prime pair, square, denylisted via custom storage, ROCA-shaped; 1024- and "
               "2048-bit): one entry per check, name, documented severity (README table where listed), version, "
               "weak <=> any positive entry, return values",
         functions=["rsa_single_checks.*.Check", "rsa_aggregate_checks.*.Check", "base_check.BaseCheck._CreateTestResult",
                    "util.SetTestResult"])
def rsa_faithful(ctx):
  pb = _lib()
  rnd = _rnd(ctx, "rsa_faithful")
  pool = _rsa_pool(rnd, 512)
  deny = {_fingerprint(n) for lab, n, _ in pool if lab == "denylisted"}
  checks = _cheap_rsa_checks(deny)
  documented = _readme_severities()
  ctx.check(len(documented) == 9 and documented.get("CheckROCA") == HIGH, "README severity table parsed (9 rows)", dict(),
            observed=documented)
  for chk in checks:
    if chk.check_name in documented:
      ctx.check(chk.severity == documented[chk.check_name], "constructor severity == README table",
                dict(check=chk.check_name), observed=chk.severity, expected=documented[chk.check_name])
  version = _version()
  seen_pos = set()
  for size in range(1, (4 if ctx.thorough else 3) + 1):
    for combo in itertools.combinations(range(len(pool)), size):
      keys = [_rsa_key(pb, pool[i][1], pool[i][2]) for i in combo]
      rets = [chk.Check(keys) for chk in checks]
      labels = [pool[i][0] for i in combo]
      ctx.case(key=combo, sample=dict(batch=labels))
      _faithful(ctx, keys, checks, rets, lambda chk, art: True, dict(batch=labels), documented, version)
      for k in keys:
        seen_pos |= {n for n, r, _ in _canon(k)["entries"] if r}
  ctx.check({"CheckSizes", "CheckExponents", "CheckROCA", "CheckFermat", "CheckGCD", "CheckOpensslDenylist",
             "CheckROCAVariant"} <= seen_pos, "the pool exercises positive verdicts of these checks", dict(),
            observed=sorted(seen_pos))


@bounded("C16", "rsa_histories_monotone_idempotent",
         bound="ALL ordered sequences of <= 2 distinct checks out of the 13 cheap ones (169) plus 120 seeded ordered "
               "triples (quick) / ALL 1885 sequences of <= 3 (thorough), each applied twice in that order to the same 8 "
               "protobufs (512-bit moduli; CheckFermat(max_steps=2000)), from 4 initial annotations (fresh; weak flag + "
               "old version; positive CRITICAL CheckFermat entry with factors {3,5} and a foreign entry + note; negative "
               "CheckSizes entry with severity HIGH): monotonicity after every call, idempotence of the second pass, "
               "final state == merge of the initial annotation with the single-check verdicts (order independence)",
         functions=["util.SetTestResult", "util.AttachFactors", "rsa_single_checks.*.Check",
                    "rsa_aggregate_checks.*.Check"],
         exhaustive=True)
def rsa_histories(ctx):
  pb = _lib()
  rnd = _rnd(ctx, "rsa_hist")
  pool = _rsa_pool(rnd, 256, big=False)
  deny = {_fingerprint(n) for lab, n, _ in pool if lab == "denylisted"}
  checks = _cheap_rsa_checks(deny, fermat_steps=2000)
  version = _version()
  nchk = len(checks)

  def annotate(keys, kind):
    for k in keys:
      ti = k.test_info
      if kind == "weak_old_version":
        ti.weak = True
        ti.paranoid_lib_version = "0.0.9"
      elif kind == "positive_fermat":
        ti.weak = True
        ti.paranoid_lib_version = "0.0.9"
        ti.test_results.add(test_name="SomeOldCheck", result=True, severity=LOW)
        ti.test_results.add(test_name="CheckFermat", result=True, severity=CRITICAL)
        a = ti.attached_info.add()
        a.info_name, a.value = "N_FACTORS", "{'3', '5'}"
        b = ti.attached_info.add()
        b.info_name, b.value = "NOTE", "kept"
      elif kind == "negative_sizes_high":
        ti.paranoid_lib_version = "0.0.9"
        ti.test_results.add(test_name="CheckSizes", result=False, severity=HIGH)

  def fresh(kind):
    keys = [_rsa_key(pb, n, e) for _, n, e in pool]
    annotate(keys, kind)
    return keys

  # single-check verdicts on fresh protobufs (the building blocks of the merge model)
  singles = []
  for chk in checks:
    keys = fresh("fresh")
    chk.Check(keys)
    singles.append([_canon(k) for k in keys])

  def merged(kind, seq):
    base = fresh(kind)
    out = []
    for ki, k in enumerate(base):
      c = _canon(k)
      ent = {n: [r, s] for n, r, s in c["entries"]}
      order = [n for n, _, _ in c["entries"]]
      info = dict(c["info"])
      weak, ver = c["weak"], c["version"] or version
      for ci in seq:
        sc = singles[ci][ki]
        (n, r, s), = sc["entries"]
        if n in ent:
          ent[n] = [ent[n][0] or r, max(ent[n][1], s)]
        else:
          ent[n] = [r, s]
          order.append(n)
        weak = weak or r
        for name, v in sc["info"].items():
          info[name] = (info.get(name, frozenset()) | v) if isinstance(v, frozenset) else v
      out.append(dict(weak=weak, version=ver, entries=[(n, ent[n][0], ent[n][1]) for n in order], info=info,
                      dup_info=False))
    return out

  seqs = [s for L in (1, 2) for s in itertools.permutations(range(nchk), L)]
  triples = list(itertools.permutations(range(nchk), 3))
  seqs += triples if ctx.thorough else rnd.sample(triples, 120)
  kinds = ("fresh", "weak_old_version", "positive_fermat", "negative_sizes_high")
  for si, seq in enumerate(seqs):
    for kind in (kinds if (ctx.thorough or len(seq) < 3) else (kinds[si % 4],)):
      keys = fresh(kind)
      names = [checks[i].check_name for i in seq]
      inputs = dict(sequence=names, initial=kind)
      ok = True
      first_pass_rets, after_first = [], None
      for rnd_no in (1, 2):
        for pos, ci in enumerate(seq):
          before = [_canon(k) for k in keys]
          ret = checks[ci].Check(keys)
          after = [_canon(k) for k in keys]
          for ki, (b, a) in enumerate(zip(before, after)):
            ok &= _monotone(ctx, b, a, dict(inputs, artifact=pool[ki][0]), dict(pass_no=rnd_no, position=pos))
            cnt = sum(1 for n, _, _ in a["entries"] if n == names[pos])
            ok &= ctx.check(cnt == 1, "exactly one entry for the check that just ran",
                            dict(inputs, artifact=pool[ki][0], pass_no=rnd_no, position=pos), observed=cnt)
          if rnd_no == 1:
            first_pass_rets.append(ret)
          else:
            ok &= ctx.check(ret == first_pass_rets[pos], "same return value when the check is repeated",
                            dict(inputs, pass_no=2, position=pos), observed=ret, expected=first_pass_rets[pos])
        if rnd_no == 1:
          after_first = [_canon(k) for k in keys]
      final = [_canon(k) for k in keys]
      ok &= ctx.check(final == after_first, "second application changes nothing (no new entries, flags, factors)",
                      inputs, observed=[f for f, a in zip(final, after_first) if f != a][:1],
                      expected=[a for f, a in zip(final, after_first) if f != a][:1])
      exp = merged(kind, seq)
      for ki, (f, e) in enumerate(zip(final, exp)):
        ok &= ctx.check(f == e, "final annotation == initial annotation merged with the single-check verdicts "
                        "(or / max / union), independent of the order", dict(inputs, artifact=pool[ki][0]),
                        observed=f, expected=e)
      if kind == "fresh":
        for ki, f in enumerate(final):
          ok &= ctx.check(f["weak"] == any(r for _, r, _ in f["entries"]) and f["version"] == version and
                          sorted(n for n, _, _ in f["entries"]) == sorted(names),
                          "fresh artifact: weak <=> any positive entry, version stamped, entries == checks run",
                          dict(inputs, artifact=pool[ki][0]), observed=f)
      ctx.case(key=(tuple(seq), kind))
      if not ok and len(ctx.failures) >= 50:
        return


# ----------------------------------------------------------------------------------------------------------------------
# EC keys and ECDSA signatures

_CURVES = {"CURVE_SECP192R1": "SECP192R1", "CURVE_SECP224R1": "SECP224R1", "CURVE_SECP256R1": "SECP256R1",
           "CURVE_SECP384R1": "SECP384R1", "CURVE_SECP521R1": "SECP521R1", "CURVE_SECP256K1": "SECP256K1",
           "CURVE_BRAINPOOLP256R1": "BrainpoolP256R1", "CURVE_BRAINPOOLP384R1": "BrainpoolP384R1",
           "CURVE_BRAINPOOLP512R1": "BrainpoolP512R1"}


def _known_ids(pb):
  return {pb.CurveType.Value(n) for n in _CURVES}


@bounded("C16", "ec_key_checks_faithful_and_monotone",
         bound="CheckValidECKey, CheckWeakCurve, CheckECKeySmallDifference(max_diff=2^12) in all 6 orders, applied twice, "
               "to a pool of 9 EC keys (two P-256 keys with private keys differing by 5, secp192r1, off-curve P-384, "
               "secp256k1, brainpoolP256r1, binary-field id, CURVE_UNKNOWN, undeclared id 42), fresh and pre-annotated: "
               "applicability (no CheckWeakCurve / difference entry on unknown curves), severities, weak <=> any "
               "positive, return values, monotonicity, idempotence",
         functions=["ec_single_checks.CheckValidECKey.Check", "ec_single_checks.CheckWeakCurve.Check",
                    "ec_aggregate_checks.CheckECKeySmallDifference.Check"])
def ec_faithful(ctx):
  pb = _lib()
  from paranoid_crypto.lib import ec_aggregate_checks, ec_single_checks
  rnd = _rnd(ctx, "ec")
  CT = pb.CurveType
  d = rnd.getrandbits(200)
  gx, gy = _pub("SECP384R1", rnd.getrandbits(300))
  pool = [("p256_d", CT.CURVE_SECP256R1) + _pub("SECP256R1", d), ("p256_d+5", CT.CURVE_SECP256R1) + _pub("SECP256R1", d + 5),
          ("secp192r1", CT.CURVE_SECP192R1) + _pub("SECP192R1", rnd.getrandbits(150)),
          ("p384_off_curve", CT.CURVE_SECP384R1, gx, gy + 1),
          ("secp256k1", CT.CURVE_SECP256K1) + _pub("SECP256K1", rnd.getrandbits(200)),
          ("brainpool256", CT.CURVE_BRAINPOOLP256R1) + _pub("BrainpoolP256R1", rnd.getrandbits(200)),
          ("sect163k1", CT.CURVE_SECT163K1, 5, 7), ("curve_unknown", CT.CURVE_UNKNOWN, 5, 7), ("undeclared_42", 42, 1, 2)]
  known = _known_ids(pb)
  checks = [ec_single_checks.CheckValidECKey(), ec_single_checks.CheckWeakCurve(),
            ec_aggregate_checks.CheckECKeySmallDifference(max_diff=1 << 12)]
  sev = {"CheckValidECKey": MEDIUM, "CheckWeakCurve": MEDIUM, "CheckECKeySmallDifference": HIGH}
  version = _version()

  def applicable(chk, art):
    return chk.check_name == "CheckValidECKey" or art.ec_info.curve_type in known

  for order in itertools.permutations(range(3)):
    for kind in ("fresh", "preannotated"):
      keys = [_ec_key(pb, ct, x, y) for _, ct, x, y in pool]
      if kind == "preannotated":
        for k in keys:
          k.test_info.weak = True
          k.test_info.paranoid_lib_version = "0.0.9"
          k.test_info.test_results.add(test_name="CheckWeakCurve", result=True, severity=CRITICAL)
          a = k.test_info.attached_info.add()
          a.info_name, a.value = "DISCRETE_LOG", "2a"
      seq = [checks[i] for i in order]
      inputs = dict(order=[c.check_name for c in seq], initial=kind)
      rets = []
      for rnd_no in (1, 2):
        for chk in seq:
          before = [_canon(k) for k in keys]
          ret = chk.Check(keys)
          if rnd_no == 1:
            rets.append(ret)
          for ki, k in enumerate(keys):
            _monotone(ctx, before[ki], _canon(k), dict(inputs, artifact=pool[ki][0]), dict(pass_no=rnd_no,
                                                                                           check=chk.check_name))
        if rnd_no == 1:
          snap = [_canon(k) for k in keys]
      ctx.check([_canon(k) for k in keys] == snap, "second application changes nothing", inputs)
      ctx.case(key=(order, kind))
      if kind == "fresh":
        _faithful(ctx, keys, seq, rets, applicable, inputs, sev, version)
        em = [_entry_map(_canon(k)) for k in keys]
        exp_pos = {0: {"CheckECKeySmallDifference"}, 1: {"CheckECKeySmallDifference"},
                   2: {"CheckWeakCurve"}, 3: {"CheckValidECKey"}, 4: set(), 5: set(), 6: {"CheckValidECKey"},
                   7: {"CheckValidECKey"}, 8: {"CheckValidECKey"}}
        for ki, m in enumerate(em):
          got = {n for n, (r, _) in m.items() if r}
          ctx.check(got == exp_pos[ki], "pool sanity: expected positive checks per artifact",
                    dict(inputs, artifact=pool[ki][0]), observed=sorted(got), expected=sorted(exp_pos[ki]))


def _sign(curve_name, n, d, k, z):
  """Textbook ECDSA with nonce k: r = (kG).x mod n, s = k^-1 (z + r d) mod n; kG by OpenSSL."""
  r = _pub(curve_name, k)[0] % n
  s = pow(k, -1, n) * (z + r * d) % n
  return r, s


def _issuer_pool(pb, rnd, thorough):
  CT = pb.CurveType
  x256, y256 = _pub("SECP256R1", rnd.getrandbits(250))
  pool = [
      ("healthy_p256", CT.CURVE_SECP256R1, x256, y256),
      ("small_private_key_k1", CT.CURVE_SECP256K1) + _pub("SECP256K1", 0x1234567),
      ("weak_curve_192", CT.CURVE_SECP192R1) + _pub("SECP192R1", rnd.getrandbits(180)),
      ("binary_curve", CT.CURVE_SECT283K1, 3, 4),
  ]
  if thorough:
    x384, y384 = _pub("SECP384R1", rnd.getrandbits(380))
    pool += [("off_curve_p384", CT.CURVE_SECP384R1, x384, y384 + 1),
             ("small_and_weak_curve_bp", CT.CURVE_BRAINPOOLP256R1) + _pub("BrainpoolP256R1", 0xABCD << 64),
             ("healthy_p521", CT.CURVE_SECP521R1) + _pub("SECP521R1", rnd.getrandbits(500))]
  return pool


def _ec_verdict_alone(pb, paranoid, ct, x, y):
  """The statement's definition: verdict of the EC entry point on a fresh ECKey with this issuer_key_info."""
  k = _ec_key(pb, ct, x, y)
  ret = paranoid.CheckAllEC([k])
  pos = [s for _, r, s in _canon(k)["entries"] if r]
  return dict(weak=k.test_info.weak, ret=ret, severity=max(pos) if pos else None,
              positive=sorted(n for n, r, _ in _canon(k)["entries"] if r))


@bounded("C16", "issuer_key_verdict_equals_ec_verdict",
         bound="CheckIssuerKey on batches of signatures over a pool of issuer keys with at most one key per curve "
               "(healthy P-256, private key 0x1234567 on secp256k1, secp192r1, binary-field id; thorough adds off-curve "
               "P-384, brainpool key with 4 adjacent set bytes, healthy P-521): every signature's entry (result, "
               "severity) == verdict / highest positive severity of CheckAllEC on a fresh ECKey with that signature's "
               "issuer_key_info; signatures sharing an issuer; pool order reversed; plus the pair 'same (x, y) under two "
               "curve ids' in both orders (inputs.same_point_different_curve, design finding F11)",
         functions=["ecdsa_sig_checks.CheckIssuerKey.Check", "paranoid.CheckAllEC", "util.GetHighestSeverity"])
def issuer_key(ctx):
  pb = _lib()
  from paranoid_crypto.lib import ecdsa_sig_checks, paranoid
  rnd = _rnd(ctx, "issuer")
  CT = pb.CurveType
  pool = _issuer_pool(pb, rnd, ctx.thorough)
  oracle = {}

  def verdict(ct, x, y):
    if (ct, x, y) not in oracle:
      oracle[(ct, x, y)] = _ec_verdict_alone(pb, paranoid, ct, x, y)
    return oracle[(ct, x, y)]

  chk = ecdsa_sig_checks.CheckIssuerKey()

  def run(batch_labels, issuers, extra):
    sigs = [_sig(pb, ct, x, y, rnd.getrandbits(180) + 1, rnd.getrandbits(180) + 1, rnd.randbytes(32))
            for _, ct, x, y in issuers]
    ret = chk.Check(sigs)
    exp_any = False
    for (lab, ct, x, y), s in zip(issuers, sigs):
      v = verdict(ct, x, y)
      exp_any |= v["weak"]
      c = _canon(s)
      inp = dict(extra, batch=batch_labels, issuer=lab, curve_type=ct)
      ctx.case(key=(tuple(batch_labels), lab), sample=dict(inp, ec_verdict=v))
      ok = ctx.check(len(c["entries"]) == 1 and c["entries"][0][0] == "CheckIssuerKey",
                     "one CheckIssuerKey entry per signature", inp, observed=c["entries"])
      if ok:
        _, r, sev = c["entries"][0]
        ctx.check(r == v["weak"], "issuer-key verdict == verdict of the EC checks on that key (curve type AND point)",
                  inp, observed=r, expected=v)
        ctx.check(sev == (v["severity"] if v["weak"] else UNKNOWN),
                  "severity == highest severity among the issuer key's failed checks (UNKNOWN when not weak)", inp,
                  observed=sev, expected=v)
        ctx.check(c["weak"] == r, "signature weak flag <=> its entry is positive", inp)
    ctx.check(ret is exp_any, "Check returns True <=> some issuer key is weak", dict(extra, batch=batch_labels),
              observed=ret, expected=exp_any)

  labels = [p[0] for p in pool]
  run(labels, pool, dict(same_point_different_curve=False))
  run(labels[::-1], pool[::-1], dict(same_point_different_curve=False))
  # signatures sharing issuers, interleaved
  shared = [pool[0], pool[1], pool[0], pool[3], pool[1], pool[0]]
  run([p[0] for p in shared], shared, dict(same_point_different_curve=False, shared_issuers=True))
  for p in pool:
    run([p[0]], [p], dict(same_point_different_curve=False))
  # F11: one point, two curve ids
  _, _, x, y = pool[0]
  a = ("p256_point_as_p256", CT.CURVE_SECP256R1, x, y)
  b = ("p256_point_as_secp256k1", CT.CURVE_SECP256K1, x, y)
  for pair in ([a, b], [b, a]):
    run([p[0] for p in pair], pair, dict(same_point_different_curve=True))


@bounded("C17", "issuer_key_verdict_independent_of_batch",
         bound="as C16/issuer_key_verdict_equals_ec_verdict (CheckIssuerKey judges signatures individually: the entry of "
               "a signature is the EC verdict of its own issuer key whatever else is in the batch, in both orders, "
               "including a batch mate with the same (x, y) under another curve id)",
         functions=["ecdsa_sig_checks.CheckIssuerKey.Check", "ecdsa_sig_checks._MapIssuerSigIndexes", "paranoid.CheckAllEC"])
def issuer_key_c17(ctx):
  issuer_key(ctx)


@bounded("C16", "check_all_entry_points_faithful",
         bound="CheckAllEC on 5 keys of 5 different curves (one with private key 0xBEEF0000, one secp192r1, one "
               "off-curve, one binary-field id); CheckAllECDSASigs on 2+2 healthy signatures of a brainpoolP256r1 and a "
               "secp384r1 issuer, 6 signatures with 128-bit nonces of one P-256 issuer, one signature with an invalid "
               "secp224r1 issuer and one with a binary-field issuer (one issuer key per curve); CheckAllRSA on 4 keys (healthy 2048, e=3 1024-bit, close primes, "
               "2^1023-weight-2 primes for the low-Hamming-weight check): entries == active applicable checks, names, "
               "severities (README / constructor; exceptions: CheckLowHammingWeight without factors -> UNKNOWN, "
               "CheckIssuerKey -> highest issuer severity), version, weak <=> any positive, return <=> any weak; second "
               "run changes nothing",
         functions=["paranoid.CheckAllRSA", "paranoid.CheckAllEC", "paranoid.CheckAllECDSASigs",
                    "paranoid._CheckArtifacts"],
         tier="thorough")
def check_all_faithful(ctx):
  pb = _lib()
  from paranoid_crypto.lib import paranoid
  rnd = _rnd(ctx, "checkall")
  CT = pb.CurveType
  version = _version()
  documented = _readme_severities()
  known = _known_ids(pb)

  class _Named:
    def __init__(self, chk):
      self.check_name, self.severity = chk.check_name, chk.severity

  def second_run_is_noop(fn, arts, inputs):
    snap = [_canon(a) for a in arts]
    ret = fn(arts)
    after = [_canon(a) for a in arts]
    for i, (b, a) in enumerate(zip(snap, after)):
      _monotone(ctx, b, a, dict(inputs, artifact=i), dict(pass_no=2))
    ctx.check(after == snap, "re-running the entry point on annotated artifacts changes nothing", inputs)
    return ret

  # --- EC
  x384, y384 = _pub("SECP384R1", rnd.getrandbits(380))
  keys = [_ec_key(pb, CT.CURVE_SECP256R1, *_pub("SECP256R1", rnd.getrandbits(250))),
          _ec_key(pb, CT.CURVE_SECP256K1, *_pub("SECP256K1", 0xBEEF0000)),
          _ec_key(pb, CT.CURVE_SECP192R1, *_pub("SECP192R1", rnd.getrandbits(190))),
          _ec_key(pb, CT.CURVE_SECP384R1, x384, y384 + 1),
          _ec_key(pb, CT.CURVE_SECT409R1, 1, 1)]
  ret = paranoid.CheckAllEC(keys)
  ec_checks = [_Named(c) for c in paranoid.GetECAllChecks().values()]
  ctx.check(sorted(c.check_name for c in ec_checks) == ["CheckECKeySmallDifference", "CheckValidECKey", "CheckWeakCurve",
                                                        "CheckWeakECPrivateKey"], "active EC checks", dict())
  inputs = dict(entry_point="CheckAllEC")
  ctx.case(key="CheckAllEC")
  aw = _faithful(ctx, keys, ec_checks, [], lambda c, a: c.check_name == "CheckValidECKey" or a.ec_info.curve_type in known,
                 inputs, documented, version)
  ctx.check(ret is aw and ret is True, "CheckAllEC returns True <=> some artifact is weak", inputs, observed=ret,
            expected=aw)
  ctx.check([k.test_info.weak for k in keys] == [False, True, True, True, True], "pool sanity (EC)", inputs,
            observed=[k.test_info.weak for k in keys])
  ctx.check(second_run_is_noop(paranoid.CheckAllEC, keys, inputs) is ret, "same return value on the second run", inputs)
  ok_keys = [_ec_key(pb, CT.CURVE_SECP256R1, *_pub("SECP256R1", rnd.getrandbits(250))),
             _ec_key(pb, CT.CURVE_SECP521R1, *_pub("SECP521R1", rnd.getrandbits(500)))]
  ret = paranoid.CheckAllEC(ok_keys)
  aw = _faithful(ctx, ok_keys, ec_checks, [], lambda c, a: True, dict(entry_point="CheckAllEC", batch="healthy"),
                 documented, version)
  ctx.check(ret is False and aw is False, "CheckAllEC returns False when no artifact is weak",
            dict(entry_point="CheckAllEC", batch="healthy"), observed=ret)

  # --- ECDSA
  # at most ONE issuer key per curve: CheckIssuerKey runs CheckAllEC on the issuer keys, and two keys on one curve make
  # CheckECKeySmallDifference build its 2^24-entry table (minutes, 3 GB)
  sigs, kinds = [], []
  for curve, ct, cnt, nonce_bits in (("BrainpoolP256R1", CT.CURVE_BRAINPOOLP256R1, 2, 256),
                                     ("SECP384R1", CT.CURVE_SECP384R1, 2, 384),
                                     ("SECP256R1", CT.CURVE_SECP256R1, 6, 128)):
    n = _order(curve)
    d = rnd.randrange(1, n)
    x, y = _pub(curve, d)
    for _ in range(cnt):
      k = rnd.randrange(1, min(n, 1 << nonce_bits))
      h = rnd.randbytes(32)
      # bits2int of RFC 6979 for a 256-bit hash: the hash value itself (orders here have >= 256 bits), reduced mod n
      r, s = _sign(curve, n, d, k, int.from_bytes(h, "big") % n)
      sigs.append(_sig(pb, ct, x, y, r, s, h))
      kinds.append("short_nonce" if nonce_bits == 128 else "healthy")
  sigs.append(_sig(pb, CT.CURVE_SECP224R1, 5, 5, 1234, 5678, b"\x01" * 32))
  kinds.append("invalid_issuer")
  sigs.append(_sig(pb, CT.CURVE_SECT163K1, 5, 5, 1234, 5678, b"\x01" * 32))
  kinds.append("binary_issuer")
  ret = paranoid.CheckAllECDSASigs(sigs)
  sig_checks = [_Named(c) for c in paranoid.GetECDSAAllChecks().values()]
  ctx.check(len(sig_checks) == 8, "8 active ECDSA checks", dict(), observed=[c.check_name for c in sig_checks])

  def issuer_sev(chk, art, e):
    # documented exception: CheckIssuerKey carries the highest severity among the issuer key's failed checks
    if chk.check_name != "CheckIssuerKey" or not e[0]:
      return False
    v = _ec_verdict_alone(pb, paranoid, art.issuer_key_info.curve_type,
                          int.from_bytes(art.issuer_key_info.x, "big"), int.from_bytes(art.issuer_key_info.y, "big"))
    return v["weak"] and e[1] == v["severity"]

  inputs = dict(entry_point="CheckAllECDSASigs", kinds=kinds)
  ctx.case(key="CheckAllECDSASigs")
  aw = _faithful(ctx, sigs, sig_checks, [],
                 lambda c, a: c.check_name == "CheckIssuerKey" or a.issuer_key_info.curve_type in known, inputs,
                 documented, version, sev_exception=issuer_sev)
  ctx.check(ret is aw, "CheckAllECDSASigs returns True <=> some artifact is weak", inputs, observed=ret, expected=aw)
  weak = [s.test_info.weak for s in sigs]
  ctx.check(weak == [k != "healthy" for k in kinds], "pool sanity (ECDSA): short nonces and bad issuers flagged, "
            "healthy signatures not", inputs, observed=weak)
  ctx.check(second_run_is_noop(paranoid.CheckAllECDSASigs, sigs, inputs) is ret, "same return value on the second run",
            inputs)

  # --- RSA
  p = _prime(rnd, 512)
  lhw_p = _next_prime((1 << 1023) + (1 << rnd.randrange(300, 700)))
  lhw_q = _next_prime((1 << 1023) + (1 << rnd.randrange(700, 1000)))
  rkeys = [_rsa_key(pb, _prime(rnd, 1024) * _prime(rnd, 1024)), _rsa_key(pb, _prime(rnd, 512) * _prime(rnd, 512), 3),
           _rsa_key(pb, p * _next_prime(p + (1 << 30))), _rsa_key(pb, lhw_p * lhw_q)]
  ret = paranoid.CheckAllRSA(rkeys)
  rsa_checks = [_Named(c) for c in paranoid.GetRSAAllChecks().values()]
  ctx.check(len(rsa_checks) == 17, "17 active RSA checks", dict(), observed=len(rsa_checks))
  for c in rsa_checks:
    if c.check_name in documented:
      ctx.check(c.severity == documented[c.check_name], "constructor severity == README table", dict(check=c.check_name),
                observed=c.severity, expected=documented[c.check_name])

  def lhw_sev(chk, art, e):
    has_factors = any(a.info_name == "N_FACTORS" for a in art.test_info.attached_info)
    return chk.check_name == "CheckLowHammingWeight" and e[0] and e[1] == UNKNOWN and not has_factors

  inputs = dict(entry_point="CheckAllRSA")
  ctx.case(key="CheckAllRSA")
  aw = _faithful(ctx, rkeys, rsa_checks, [], lambda c, a: True, inputs, documented, version, sev_exception=lhw_sev)
  ctx.check(ret is aw, "CheckAllRSA returns True <=> some artifact is weak", inputs, observed=ret, expected=aw)
  ctx.check([k.test_info.weak for k in rkeys] == [False, True, True, True], "pool sanity (RSA)", inputs,
            observed=[k.test_info.weak for k in rkeys])
  ctx.check(second_run_is_noop(paranoid.CheckAllRSA, rkeys, inputs) is ret, "same return value on the second run", inputs)
