"""C10 bounded stand-in: BatchDL / BatchDLOfDifferences / ExtendedBatchDL and the two EC key checks built on them.

Oracles: the brute-force table k -> k*G of small prime-order curves and an independent affine double-and-add (both from
bounded/c11.py, written from the textbook, no repository code)."""
import math
import re

from pyvc.registry import bounded
from bounded.c11 import reseed, INF, Raised, call, obs, pt, small_curves, t_add, t_mul, t_neg


def _ints(res):
  if isinstance(res, Raised):
    return res
  return [None if v is None else int(v) for v in res]


def _check_dl_result(ctx, sc, d, xs, n, res, extra):
  """xs: logs of the queried points, res: library result."""
  inp = dict(curve=d, xs=xs, points=len(xs), n=n, **extra)
  if isinstance(res, Raised) or len(res) != len(xs):
    ctx.fail("BatchDL(points, n) returns one entry per point", inp, obs(res))
    return
  for k, (x, r) in enumerate(zip(xs, res)):
    inp_k = dict(curve=d, xs=xs, points=len(xs), n=n, k=k, x=x, **extra)
    if r is not None:
      ctx.check(sc.pts[r % sc.q] == sc.pts[x], "BatchDL never returns a wrong log: res[k]*G == points[k]", inp_k, r, x)
    if x < n:
      ctx.check(r is not None, "BatchDL finds every log 0 <= x < n", inp_k, r, x)


def _table_invariant(ctx, sc, c, d, extra):
  """The cached table is truthful and covers 0.._table_size-1."""
  size = int(c._table_size)  # pylint: disable=protected-access
  tab = {(None if x is None else int(x)): int(v) for x, v in c._table.items()}  # pylint: disable=protected-access
  bad = {x: v for x, v in tab.items() if sc.pts[v % sc.q][0] != x or v < 0}
  ctx.check(not bad, "cached _table: every entry x -> v has x(v*G) == x", dict(curve=d, table_size=size, **extra), bad)
  miss = [i for i in range(size) if sc.pts[i % sc.q][0] not in tab]
  ctx.check(not miss, "cached _table covers x(i*G) for every i < _table_size", dict(curve=d, table_size=size, **extra), miss)


def _chunks(ctx, q, length):
  xs = list(range(q))
  ctx.rnd.shuffle(xs)
  while len(xs) % length:
    xs.append(ctx.rnd.randrange(q))
  return [xs[i:i + length] for i in range(0, len(xs), length)]


@bounded("C10", "batchdl_small_exhaustive",
         bound="2 (quick) / 3 (thorough) prime-order curves over F_97, F_251, F_103 (q = 107, 263, 97): list lengths 1..6 x "
               "every bound n in 1..q (quick: 24 bounds incl. 1..5, squares +-1, q/2, q-1, q) x EVERY x in 0..q-1 (the "
               "whole group, shuffled into lists of the given length, fresh curve object per (length, bound)): x < n must "
               "be found, no entry may be a wrong log (logs compared modulo q); cached-table invariant after the calls",
         functions=["ec_util.EcCurve.BatchDL", "ec_util.EcCurve.PointTable", "ec_util.EcCurve.PointSequence",
                    "ec_util.EcCurve.BatchAddX"], exhaustive=True)
def batchdl_small_exhaustive(ctx):
  reseed(ctx)
  for sc in small_curves(3 if ctx.thorough else 2):
    d, q = sc.desc(), sc.q
    if ctx.thorough:
      bounds = list(range(1, q + 1))
    else:
      bounds = sorted(set([1, 2, 3, 4, 5, 8, 9, 10, 15, 16, 17, 24, 25, 26, 35, 36, 37, q // 2, q // 2 + 1, q - 2, q - 1, q]
                          + [ctx.rnd.randrange(6, q) for _ in range(2)]))
    for length in range(1, 7):
      for n in bounds:
        c = sc.lib()
        for xs in _chunks(ctx, q, length):
          ctx.case(key=(sc.p, length, n))
          res = _ints(call(c.BatchDL, [sc.pts[x] for x in xs], n))
          _check_dl_result(ctx, sc, d, xs, n, res, {})
        _table_invariant(ctx, sc, c, d, dict(n=n, points=length))


@bounded("C10", "batchdl_after_history",
         bound="2 (quick) / 3 (thorough) small curves: every ordered pair (incl. equal) of two earlier calls from "
               "{BatchDL(1 pt, n=1), BatchDL(6 pts, n=q), BatchDL(2 pts, n=q/4), BatchDLOfDifferences(max_diff=q/3), "
               "BatchDLOfDifferences(max_diff=2)} on the SAME curve object (cached table larger or smaller than needed), "
               "then BatchDL for every x of the group with (n, length) in {(q,1), (q/2,3), (5,1), (q,6), (17,2), (q-1,4)} "
               "(quick: 9 of the 25 histories)",
         functions=["ec_util.EcCurve.BatchDL", "ec_util.EcCurve.BatchDLOfDifferences"], exhaustive=True)
def batchdl_after_history(ctx):
  reseed(ctx)
  for sc in small_curves(3 if ctx.thorough else 2):
    d, q = sc.desc(), sc.q
    hist = [("dl", 1, 1), ("dl", q, 6), ("dl", q // 4, 2), ("diff", q // 3, 3), ("diff", 2, 2)]
    tests = [(q, 1), (q // 2, 3), (5, 1), (q, 6), (17, 2), (q - 1, 4)]
    pairs = [(h1, h2) for h1 in hist for h2 in hist]
    if not ctx.thorough:
      pairs = [pairs[i] for i in (1, 5, 2, 10, 8, 16, 21, 9, 24)]
    for h1, h2 in pairs:
      for n, length in tests:
        c = sc.lib()
        for kind, bound, cnt in (h1, h2):
          xs = [ctx.rnd.randrange(1, q) for _ in range(cnt)]
          if kind == "dl":
            res = _ints(call(c.BatchDL, [sc.pts[x] for x in xs], bound))
            _check_dl_result(ctx, sc, d, xs, bound, res, dict(history="earlier call"))
          else:
            r = call(c.BatchDLOfDifferences, [sc.pts[x] for x in xs], None, bound)
            ctx.check(not isinstance(r, Raised), "BatchDLOfDifferences returns", dict(curve=d, xs=xs, max_diff=bound), obs(r))
        extra = dict(history=[list(h1), list(h2)])
        _table_invariant(ctx, sc, c, d, extra)
        for xs in _chunks(ctx, q, length):
          ctx.case(key=(sc.p, h1, h2, n, length))
          res = _ints(call(c.BatchDL, [sc.pts[x] for x in xs], n))
          _check_dl_result(ctx, sc, d, xs, n, res, extra)
        _table_invariant(ctx, sc, c, d, extra)


@bounded("C10", "batchdl_empty_list",
         bound="BatchDL([], n) for n in {1, 16, q} on a small curve and ExtendedBatchDL([]) on secp256r1 (design finding F8): "
               "'given any list of points' includes the empty list, expected []",
         functions=["ec_util.EcCurve.BatchDL", "ec_util.EcCurve.ExtendedBatchDL"])
def batchdl_empty_list(ctx):
  reseed(ctx)
  sc = small_curves(1)[0]
  for n in (1, 16, sc.q):
    ctx.case(key=("BatchDL", n))
    res = call(sc.lib().BatchDL, [], n)
    ctx.check(res == [], "BatchDL([], n) == []", dict(fn="BatchDL", points=0, n=n, curve=sc.desc()), obs(res), [])
  c = _fresh_named("secp256r1")[0]
  ctx.case(key=("ExtendedBatchDL", ))
  res = call(c.ExtendedBatchDL, [])
  ctx.check(res == [], "ExtendedBatchDL([]) == []", dict(fn="ExtendedBatchDL", points=0, curve="secp256r1"), obs(res), [])
  ctx.case(key=("BatchDLOfDifferences", ))
  res = call(c.BatchDLOfDifferences, [], [], 16)
  ctx.check(res == [], "BatchDLOfDifferences([], [], 16) == []", dict(fn="BatchDLOfDifferences", points=0), obs(res), [])


_REL = re.compile(r"^key - \(([0-9a-f]+), ([0-9a-f]+)\) = (-?[0-9]+) \* G$")


def parse_relation(s):
  """'key - (%x, %x) = %d * G' -> ((x, y), k) or None."""
  m = _REL.match(s) if isinstance(s, str) else None
  if not m:
    return None
  return (int(m.group(1), 16), int(m.group(2), 16)), int(m.group(3))


def _check_diff_result(ctx, sc, d, xs, others, max_diff, res, extra):
  q = sc.q
  inp = dict(curve=d, xs=xs, other_xs=others, max_diff=max_diff, **extra)
  if isinstance(res, Raised) or len(res) != len(xs):
    ctx.fail("BatchDLOfDifferences returns one entry per point", inp, obs(res))
    return
  allx = list(others) + list(xs)
  for i, (x, r) in enumerate(zip(xs, res)):
    # candidates for key i: every other_point and every other point of the batch
    cands = list(others) + [xs[j] for j in range(len(xs)) if j != i]
    near = [y for y in cands if y != x and min((x - y) % q, (y - x) % q) < max_diff]
    inp_i = dict(curve=d, xs=xs, other_xs=others, max_diff=max_diff, i=i, **extra)
    if near:
      ctx.check(r is not None, "a key with another key at private-key distance 0 < |d| < max_diff is flagged", inp_i, r,
                dict(near=near))
    if r is not None:
      rel = parse_relation(r)
      ok = rel is not None and rel[0] in sc.idx and rel[1] != 0 and sc.idx[rel[0]] in allx and \
          (x - sc.idx[rel[0]] - rel[1]) % q == 0 and sc.idx[rel[0]] != x
      ctx.check(ok, "recorded relation 'key - (x, y) = k * G' is true for a different key of the batch/other list", inp_i, r)
    if not [y for y in cands if y != x]:
      ctx.check(r is None, "identical keys never flag each other", inp_i, r)


@bounded("C10", "batchdl_differences_small",
         bound="2 (quick) / 3 (thorough) small curves, points != infinity: ALL ordered pairs (x1, x2) in [1,q)^2 as "
               "points=[x1G, x2G] and as points=[x1G], other_points=[x2G], for max_diff in {1, 2, 3, 5, 16, q/3} "
               "(quick: {2, 5, q/3}, on the 9-bit curve {5, q/3}), table cached across calls and fresh for 200 random pairs; 3000 (quick) / 20000 random "
               "lists of 3..5 points + 0..3 other points with duplicates and near neighbours; differences taken modulo q",
         functions=["ec_util.EcCurve.BatchDLOfDifferences"], exhaustive=True)
def batchdl_differences_small(ctx):
  reseed(ctx)
  for sc in small_curves(3 if ctx.thorough else 2):
    d, q = sc.desc(), sc.q
    for max_diff in ((1, 2, 3, 5, 16, q // 3) if ctx.thorough else ((2, 5, q // 3) if q < 128 else (5, q // 3))):
      c = sc.lib()
      for x1 in range(1, q):
        for x2 in range(1, q):
          ctx.case(key=(sc.p, max_diff, x1 == x2, min((x1 - x2) % q, (x2 - x1) % q) < max_diff))
          res = call(c.BatchDLOfDifferences, [sc.pts[x1], sc.pts[x2]], None, max_diff)
          _check_diff_result(ctx, sc, d, [x1, x2], [], max_diff, res, {})
          res = call(c.BatchDLOfDifferences, [sc.pts[x1]], [sc.pts[x2]], max_diff)
          _check_diff_result(ctx, sc, d, [x1], [x2], max_diff, res, {})
      for _ in range(200):
        x1 = ctx.rnd.randrange(1, q)
        x2 = (x1 + ctx.rnd.randrange(-max_diff - 1, max_diff + 2)) % q or 1
        res = call(sc.lib().BatchDLOfDifferences, [sc.pts[x1], sc.pts[x2]], None, max_diff)
        _check_diff_result(ctx, sc, d, [x1, x2], [], max_diff, res, dict(fresh=True))
      for _ in range(20000 if ctx.thorough else 3000):
        base = ctx.rnd.randrange(1, q)
        pool = [base, base, (base + 1) % q, (base + max_diff - 1) % q, (base + max_diff) % q, (base - max_diff + 1) % q,
                ctx.rnd.randrange(1, q), ctx.rnd.randrange(1, q)]
        pool = [x or 1 for x in pool]
        xs = [ctx.rnd.choice(pool) for _ in range(ctx.rnd.randrange(3, 6))]
        others = [ctx.rnd.choice(pool) for _ in range(ctx.rnd.randrange(0, 4))]
        ctx.case(key=(sc.p, max_diff, len(xs), len(others), len(set(xs)) < len(xs)))
        res = call(c.BatchDLOfDifferences, [sc.pts[x] for x in xs], [sc.pts[x] for x in others], max_diff)
        _check_diff_result(ctx, sc, d, xs, others, max_diff, res, {})
    # fewer than two points in total: nothing to compare
    c = sc.lib()
    for xs, others in (([], []), ([5], []), ([], [5]), ([], [5, 6])):
      res = call(c.BatchDLOfDifferences, [sc.pts[x] for x in xs], [sc.pts[x] for x in others], 16)
      ctx.case(key=(sc.p, "few", len(xs), len(others)))
      ctx.check(res == [None] * len(xs), "fewer than two points: all None", dict(curve=d, xs=xs, other_xs=others), obs(res))


# ----------------------------------------------------------------------------------------------------------------------
# named curves
# ----------------------------------------------------------------------------------------------------------------------
def _fresh_named(name):
  """(fresh EcCurve copy with empty caches, dict of plain-int parameters, curve_type id)."""
  from pyvc import runtime
  runtime.install()
  from paranoid_crypto.lib import ec_util
  for cid, c in ec_util.CURVE_FACTORY.items():
    if c is not None and c.name == name:
      cc = ec_util.EcCurve(c.name, int(c.a), int(c.b), int(c.mod), int(c.g[0]), int(c.g[1]), int(c.n), c.h)
      return cc, dict(name=name, p=int(c.mod), a=int(c.a) % int(c.mod), b=int(c.b), n=int(c.n),
                      G=(int(c.g[0]), int(c.g[1]))), cid
  raise KeyError(name)


def _mulG(v, k):
  return t_mul(k % v["n"], v["G"], v["a"], v["p"])


@bounded("C10", "batchdl_named_edges",
         bound="secp256r1, secp256k1 (quick) / all 9 prime curves (thorough), bound 2^16 (quick) / 2^20 and 2^16+1 (thorough), "
               "list lengths 1, 2, 5, fresh object and after a call with a larger / smaller bound: x in {0, 1, 2, n-2, n-1, "
               "n/2} and x = j*t + e for giant steps j in {0, 1, 2, mid, last-2, last-1, last} (t = 2*isqrt(n*len)-1) and "
               "e in {-ts, -ts+1, -1, 0, 1, ts-1, ts}: result == x exactly; x in {n, n+1, n+t, order-1, order-5, random}: "
               "None or a correct log",
         functions=["ec_util.EcCurve.BatchDL"])
def batchdl_named_edges(ctx):
  reseed(ctx)
  names = ["secp256r1", "secp256k1"]
  if ctx.thorough:
    names += ["secp192r1", "secp224r1", "secp384r1", "secp521r1", "brainpoolP256r1", "brainpoolP384r1", "brainpoolP512r1"]
  cache = {}
  for name in names:
    for n in ((1 << 20, (1 << 16) + 1) if ctx.thorough else (1 << 16, )):
      for length in (1, 2, 5):
        for hist in ((None, 4 * n, n // 16) if name.startswith("secp256") else (None, )):
          c, v, _ = _fresh_named(name)
          if hist:
            call(c.BatchDL, [v["G"]], hist)
          ts = math.isqrt(n * length)
          t = 2 * ts - 1
          last = n // t + 1
          xs = {0, 1, 2, n - 2, n - 1, n // 2}
          for j in (0, 1, 2, last // 2, last - 2, last - 1, last):
            for e in (-ts, -ts + 1, -1, 0, 1, ts - 1, ts):
              xs.add(j * t + e)
          xs = sorted(x for x in xs if 0 <= x < n)
          beyond = [n, n + 1, n + t, v["n"] - 1, v["n"] - 5, ctx.rnd.randrange(v["n"])]
          allx = xs + beyond
          ctx.rnd.shuffle(allx)
          while len(allx) % length:
            allx.append(ctx.rnd.randrange(n))
          for i in range(0, len(allx), length):
            chunk = allx[i:i + length]
            ptsl = []
            for x in chunk:
              if (name, x) not in cache:
                cache[(name, x)] = _mulG(v, x)
              ptsl.append(cache[(name, x)])
            res = _ints(call(c.BatchDL, ptsl, n))
            inp = dict(curve=name, xs=chunk, points=length, n=n, history=hist)
            if isinstance(res, Raised) or len(res) != length:
              ctx.fail("BatchDL returns one entry per point", inp, obs(res))
              continue
            for k, (x, r) in enumerate(zip(chunk, res)):
              ctx.case(key=(name, n, length, hist, x if x < n else -1))
              inp_k = dict(curve=name, xs=chunk, points=length, n=n, history=hist, k=k, x=x)
              if x < n:
                ctx.check(r == x, "BatchDL returns x for 0 <= x < n", inp_k, r, x)
              else:
                ctx.check(r is None or (r - x) % v["n"] == 0, "BatchDL: None or a correct log for x >= n", inp_k, r, x)


def _structured_keys(thorough, rnd):
  """[(private key, description)] of the two weak forms."""
  words = [1, 2, 1 << 31, (1 << 32) - 1]
  keys = []
  if thorough:
    for j in range(0, 29):
      for w in words:
        keys.append((w << (8 * j), dict(form="shift", word=w, shift=8 * j)))
    for r in range(2, 9):
      for w in words:
        keys.append((w * sum(1 << (32 * i) for i in range(r)), dict(form="repeat", word=w, reps=r)))
  else:
    for w, j in ((1, 0), ((1 << 32) - 1, 0), (1 << 31, 28), (2, 15), ((1 << 32) - 1, 28)):
      keys.append((w << (8 * j), dict(form="shift", word=w, shift=8 * j)))
    for w, r in ((1, 2), (1 << 31, 8), ((1 << 32) - 1, 5), (2, 8)):
      keys.append((w * sum(1 << (32 * i) for i in range(r)), dict(form="repeat", word=w, reps=r)))
  return keys


def _extended(ctx, name):
  c, v, _ = _fresh_named(name)
  n = v["n"]
  keys = _structured_keys(ctx.thorough, ctx.rnd)
  pub = {dk: _mulG(v, dk) for dk, _ in keys}
  healthy = ctx.rnd.randrange(1 << 200, n)
  pub[healthy] = _mulG(v, healthy)

  def run(batch):
    res = _ints(call(c.ExtendedBatchDL, [pub[dk] for dk, _ in batch]))
    inp = dict(curve=name, keys=[ds for _, ds in batch], batch=len(batch))
    if isinstance(res, Raised) or len(res) != len(batch):
      ctx.fail("ExtendedBatchDL returns one entry per point", inp, obs(res))
      return
    for k, ((dk, ds), r) in enumerate(zip(batch, res)):
      ctx.case(key=(name, len(batch), k, str(ds)))
      inp_k = dict(curve=name, key=ds, d=dk, batch=len(batch), k=k)
      if ds.get("form") == "healthy":
        ctx.check(r is None or (r - dk) % n == 0, "ExtendedBatchDL: None or a correct log for a random key", inp_k, r)
      else:
        ctx.check(r is not None and (r - dk) % n == 0 and (dk >= n or r == dk),
                  "ExtendedBatchDL returns the structured private key", inp_k, r, dk)

  # batch size 1: every key (quick: first of each form + extremes)
  for item in keys:
    run([item])
  # batch size 2: consecutive keys paired in reverse order, plus a healthy key next to a weak one
  rev = keys[::-1]
  for i in range(0, len(rev) - 1, 2 if ctx.thorough else 4):
    run([rev[i], rev[i + 1]])
  run([(healthy, dict(form="healthy")), keys[0]])
  if ctx.thorough:
    for i in range(0, len(keys) - 4, 29):
      run(keys[i:i + 4] + [(healthy, dict(form="healthy"))])


@bounded("C10", "extended_batchdl_secp256r1",
         bound="secp256r1, private keys w * 2^(8j) and w repeated r times with w in {1, 2, 2^31, 2^32-1}: quick 9 keys "
               "(shifts 0, 120, 224; repetitions 2, 5, 8), thorough every shift 8j <= 224 and every r in 2..8 (144 keys); "
               "batch sizes 1 and 2 (+5 with a random key, thorough); result == private key",
         functions=["ec_util.EcCurve.ExtendedBatchDL", "ec_util.EcCurve.BatchDL"])
def extended_batchdl_secp256r1(ctx):
  reseed(ctx)
  _extended(ctx, "secp256r1")


@bounded("C10", "extended_batchdl_secp256k1",
         bound="secp256k1, same key set as extended_batchdl_secp256r1",
         functions=["ec_util.EcCurve.ExtendedBatchDL", "ec_util.EcCurve.BatchDL"])
def extended_batchdl_secp256k1(ctx):
  reseed(ctx)
  _extended(ctx, "secp256k1")


# ----------------------------------------------------------------------------------------------------------------------
# check level
# ----------------------------------------------------------------------------------------------------------------------
def make_eckey(curve_id, P):
  from paranoid_crypto import paranoid_pb2
  from paranoid_crypto.lib import util
  key = paranoid_pb2.ECKey()
  key.ec_info.curve_type = curve_id
  key.ec_info.x = util.Int2Bytes(P[0])
  key.ec_info.y = util.Int2Bytes(P[1])
  return key


def test_result(test_info, name):
  for tr in test_info.test_results:
    if tr.test_name == name:
      return tr.result
  return None


def attached(test_info, name):
  for ai in test_info.attached_info:
    if ai.info_name == name:
      return ai.value
  return None


@bounded("C10", "check_weak_ec_private_key",
         bound="one batch of ECKey protobufs: secp256r1 keys 0xdeadbeef, 0x12345678<<224, 0xcafebabe repeated 8 times, "
               "(2^32-1)<<96, a random key; secp256k1 keys 0x80000000<<8, 0x01020304 repeated 3 times, a random key "
               "(thorough: + one weak and one random key on every other prime curve): CheckWeakECPrivateKey flags exactly "
               "the structured keys with DISCRETE_LOG == hex(private key)",
         functions=["ec_single_checks.CheckWeakECPrivateKey.Check", "ec_util.EcCurve.ExtendedBatchDL", "ec_util.PublicPoint"])
def check_weak_ec_private_key(ctx):
  reseed(ctx)
  from pyvc import runtime
  runtime.install()
  from paranoid_crypto.lib import ec_single_checks
  spec = [("secp256r1", 0xdeadbeef, True), ("secp256k1", 0x80000000 << 8, True), ("secp256r1", 0x12345678 << 224, True),
          ("secp256r1", None, False), ("secp256r1", 0xcafebabe * sum(1 << (32 * i) for i in range(8)), True),
          ("secp256k1", None, False), ("secp256k1", 0x01020304 * sum(1 << (32 * i) for i in range(3)), True),
          ("secp256r1", 0xffffffff << 96, True)]
  if ctx.thorough:
    for nm in ("secp192r1", "secp224r1", "secp384r1", "secp521r1", "brainpoolP256r1", "brainpoolP384r1", "brainpoolP512r1"):
      spec += [(nm, 0x9abcdef0 << 64, True), (nm, None, False), (nm, 0x00c0ffee * ((1 << 32) + 1), True)]
  keys, meta = [], []
  for nm, dk, weak in spec:
    _, v, cid = _fresh_named(nm)
    if dk is None:
      dk = ctx.rnd.randrange(1 << (v["n"].bit_length() - 8), v["n"])
    keys.append(make_eckey(cid, _mulG(v, dk)))
    meta.append((nm, dk, weak))
  chk = ec_single_checks.CheckWeakECPrivateKey()
  ret = call(chk.Check, keys)
  ctx.check(ret is True, "Check returns True for a batch with weak keys", dict(batch=len(keys)), obs(ret))
  for i, (key, (nm, dk, weak)) in enumerate(zip(keys, meta)):
    ctx.case(key=(nm, dk))
    inp = dict(curve=nm, d=dk, weak_form=weak, index=i, batch=len(keys))
    r = test_result(key.test_info, "CheckWeakECPrivateKey")
    info = attached(key.test_info, "DISCRETE_LOG")
    if weak:
      ctx.check(r is True and key.test_info.weak, "structured private key is flagged", inp, r, True)
      ctx.check(info == format(dk, "x"), "DISCRETE_LOG == hex(private key)", inp, info, format(dk, "x"))
    else:
      ctx.check(r is False and info is None and not key.test_info.weak, "random key is not flagged", inp, [r, info])


@bounded("C10", "check_ec_key_small_difference",
         bound="ECKey protobufs on secp256r1 + secp256k1 (thorough: all 9 prime curves), max_diff in {2^10} (quick) / "
               "{1, 2, 2^10, 2^14} (thorough): keys d, d+1, d+max_diff-1, e, e (duplicate), f, f+max_diff+isqrt(max_diff)+2, "
               "g on curve A and h, h-(max_diff-1), d, f+1 on curve B in one shuffled batch: every key with a neighbour at "
               "0 < |diff| < max_diff on the SAME curve is flagged, duplicates / isolated keys / same private key on another "
               "curve are not, DISCRETE_LOG_DIFF parses and the relation holds",
         functions=["ec_aggregate_checks.CheckECKeySmallDifference.Check", "ec_util.EcCurve.BatchDLOfDifferences"])
def check_ec_key_small_difference(ctx):
  reseed(ctx)
  from pyvc import runtime
  runtime.install()
  from paranoid_crypto.lib import ec_aggregate_checks
  names = ["secp256r1", "secp256k1"]
  if ctx.thorough:
    names += ["secp192r1", "secp224r1", "secp384r1", "secp521r1", "brainpoolP256r1", "brainpoolP384r1", "brainpoolP512r1"]
  for max_diff in ((1, 2, 1 << 10, 1 << 14) if ctx.thorough else (1 << 10, )):
    for ia in range(len(names)):
      na, nb = names[ia], names[(ia + 1) % len(names)]
      _, va, ca = _fresh_named(na)
      _, vb, cb = _fresh_named(nb)
      lo = 1 << 150
      d, e, f, g = (ctx.rnd.randrange(lo, va["n"] - 2 * max_diff - 100) for _ in range(4))
      h = ctx.rnd.randrange(lo, vb["n"])
      far = max_diff + math.isqrt(max_diff) + 2
      spec = [(na, d), (na, d + 1), (na, d + max_diff - 1), (na, e), (na, e), (na, f), (na, f + far), (na, g),
              (nb, h), (nb, h - (max_diff - 1)), (nb, d), (nb, f + 1)]
      ctx.rnd.shuffle(spec)
      keys = []
      for nm, dk in spec:
        v, cid = (va, ca) if nm == na else (vb, cb)
        keys.append(make_eckey(cid, _mulG(v, dk)))
      chk = ec_aggregate_checks.CheckECKeySmallDifference(max_diff=max_diff)
      ret = call(chk.Check, keys)
      for i, (key, (nm, dk)) in enumerate(zip(keys, spec)):
        v = va if nm == na else vb
        near = [d2 for j, (n2, d2) in enumerate(spec) if j != i and n2 == nm and 0 < abs(d2 - dk) < max_diff]
        isolated = all(d2 == dk or abs(d2 - dk) > (1 << 40) for j, (n2, d2) in enumerate(spec) if j != i and n2 == nm)
        ctx.case(key=(na, nb, max_diff, i, bool(near)))
        inp = dict(curve=nm, d=dk, index=i, max_diff=max_diff, batch=[[n2, d2] for n2, d2 in spec])
        r = test_result(key.test_info, "CheckECKeySmallDifference")
        info = attached(key.test_info, "DISCRETE_LOG_DIFF")
        if near:
          ctx.check(r is True and info is not None, "key with a neighbour at 0 < |diff| < max_diff is flagged", inp, [r, info])
        if isolated:
          ctx.check(r is False and info is None, "key whose only neighbours within 2^40 are identical keys or keys on another "
                    "curve is not flagged", inp, [r, info])
        if info is not None:
          rel = parse_relation(info)
          ok = False
          if rel is not None:
            cands = [d2 for n2, d2 in spec if n2 == nm and _mulG(v, d2) == rel[0]]
            P = _mulG(v, dk)
            ok = bool(cands) and t_add(P, t_neg(rel[0], v["p"]), v["a"], v["p"]) == _mulG(v, rel[1]) and rel[1] != 0 \
                and r is True
          ctx.check(ok, "DISCRETE_LOG_DIFF 'key - (x, y) = k * G' holds for another key of the batch on the same curve", inp,
                    info)
      ctx.check(ret is True or max_diff == 1, "Check returns True when some key is flagged", dict(max_diff=max_diff), obs(ret))
