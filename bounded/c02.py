"""C02 bounded stand-in: soundness of every recorded discrete log / key relation on real protobufs.

Signatures are produced by the independent textbook ECDSA of bounded/c09.py, public keys and the verification of every
recorded value (d*G == issuer point, P - Q == k*G) by the independent affine arithmetic of bounded/c11.py."""
from pyvc.registry import bounded
from bounded.c09 import be, ecdsa_sign
from bounded.c10 import _fresh_named, _mulG, attached, make_eckey, parse_relation, test_result
from bounded.c11 import reseed, Raised, call, obs, t_add, t_neg

ALL_SIG_CHECKS = ["CheckLCGNonceGMP", "CheckLCGNonceJavaUtilRandom", "CheckNonceMSB", "CheckNonceCommonPrefix",
                  "CheckNonceCommonPostfix", "CheckNonceGeneralized", "CheckCr50U2f"]


# ----------------------------------------------------------------------------------------------------------------------
# nonce generators (inputs only)
# ----------------------------------------------------------------------------------------------------------------------
class JavaUtilRandom:
  """Transcription of java.util.Random + new BigInteger(numBits, rnd) from the Java SE specification."""

  def __init__(self, seed):
    self.state = (seed ^ 0x5DEECE66D) & ((1 << 48) - 1)

  def next32(self):
    self.state = (self.state * 0x5DEECE66D + 0xB) & ((1 << 48) - 1)
    return self.state >> 16

  def big_integer(self, bits):
    nbytes = (bits + 7) // 8
    buf = bytearray(nbytes)
    i = 0
    while i < nbytes:
      rnd = self.next32()
      for _ in range(min(nbytes - i, 4)):
        buf[i] = rnd & 0xFF
        rnd >>= 8
        i += 1
    if nbytes:
      buf[0] &= (1 << (8 - (8 * nbytes - bits))) - 1
    return int.from_bytes(buf, "big")


def nonces(kind, n, count, rnd):
  """`count` nonces in [1, n-1] of the given family."""
  qlen = n.bit_length()
  out = []
  if kind == "random":
    return [rnd.randrange(1, n) for _ in range(count)]
  if kind == "msb":                      # 32 most significant bits are zero
    return [rnd.randrange(1, 1 << (qlen - 32)) for _ in range(count)]
  if kind == "prefix":                   # common 32-bit prefix
    pre = rnd.randrange(1 << 30) << (qlen - 32)
    return [pre | rnd.randrange(1, 1 << (qlen - 33)) for _ in range(count)]
  if kind == "postfix":                  # common 32 least significant bits
    post = rnd.randrange(1 << 32)
    return [(rnd.randrange(1, 1 << (qlen - 34)) << 32) | post for _ in range(count)]
  if kind == "generalized":              # m*k mod n has 32 leading zero bits
    m = rnd.randrange(2, n)
    mi = pow(m, -1, n)
    return [mi * rnd.randrange(1, 1 << (qlen - 32)) % n for _ in range(count)]
  if kind == "u2f":                      # every 32-bit word is one byte repeated 4 times (cr50 U2F flaw)
    while len(out) < count:
      k = sum((rnd.randrange(256) * 0x01010101) << (32 * j) for j in range(qlen // 32))
      if 0 < k < n:
        out.append(k)
    return out
  if kind == "java":                     # k = new BigInteger(qlen, javaUtilRandom), consecutive outputs of one instance
    jr = JavaUtilRandom(rnd.randrange(1 << 48))
    while len(out) < count:
      k = jr.big_integer(qlen)
      if 0 < k < n:
        out.append(k)
    return out
  raise ValueError(kind)


def make_sig(cid, Q, r, s, h):
  from paranoid_crypto import paranoid_pb2
  sig = paranoid_pb2.ECDSASignature()
  sig.ecdsa_sig_info.algorithm = paranoid_pb2.SignatureAlgorithm.ECDSA_WITH_SHA256
  sig.ecdsa_sig_info.r = be(r)
  sig.ecdsa_sig_info.s = be(s)
  sig.ecdsa_sig_info.message_hash = h
  sig.issuer_key_info.curve_type = cid
  sig.issuer_key_info.x = be(Q[0])
  sig.issuer_key_info.y = be(Q[1])
  return sig


class Issuer:
  def __init__(self, label, name, rnd, healthy, d=None):
    _, self.v, self.cid = _fresh_named(name)
    self.label, self.name, self.healthy = label, name, healthy
    self.d = d if d is not None else rnd.randrange(1, self.v["n"])
    self.Q = _mulG(self.v, self.d)

  def sign(self, ks, rnd, hash_len=32):
    sigs = []
    for k in ks:
      while True:
        h = bytes(rnd.randrange(256) for _ in range(hash_len))
        t = ecdsa_sign(self.v, self.d, k, h)
        if t is not None:
          break
      sigs.append((self, make_sig(self.cid, self.Q, t[0], t[1], h)))
    return sigs


def build_batch(kind, name, rnd, weak_count, other_curve=None):
  """[(issuer, ECDSASignature)]: weak issuer A (nonce family `kind`) interleaved with healthy issuers and adversarial ones."""
  A = Issuer("A:weak-" + kind, name, rnd, healthy=False)
  B = Issuer("B:random-nonces", name, rnd, healthy=True)
  C = Issuer("C:garbage-signatures", name, rnd, healthy=True)
  D = Issuer("D:signatures-of-A-under-another-key", name, rnd, healthy=True)
  n = A.v["n"]
  a_sigs = A.sign(nonces(kind, n, weak_count, rnd), rnd)
  b_sigs = B.sign(nonces("random", n, 6, rnd), rnd)
  c_sigs = [(C, make_sig(C.cid, C.Q, rnd.randrange(1, n), rnd.randrange(1, n), bytes(rnd.randrange(256) for _ in range(32))))
            for _ in range(5)]
  d_sigs = []
  for _, s in a_sigs[:max(3, weak_count // 2)]:
    cp = type(s)()
    cp.CopyFrom(s)
    cp.issuer_key_info.x, cp.issuer_key_info.y = be(D.Q[0]), be(D.Q[1])
    d_sigs.append((D, cp))
  batch = []
  rest = b_sigs + c_sigs + d_sigs
  if other_curve:
    E = Issuer("E:random-nonces-other-curve", other_curve, rnd, healthy=True)
    rest += E.sign(nonces("random", E.v["n"], 4, rnd), rnd, hash_len=48)
    # the same (r, s, hash) as issuer A but attributed to curve E's issuer
    for _, s in a_sigs[:3]:
      cp = type(s)()
      cp.CopyFrom(s)
      cp.issuer_key_info.curve_type = E.cid
      cp.issuer_key_info.x, cp.issuer_key_info.y = be(E.Q[0]), be(E.Q[1])
      rest.append((E, cp))
  rnd.shuffle(rest)
  # keep A's signatures in creation order (LCG checks use sliding windows) and spread the others between them
  step = max(1, len(a_sigs) // (len(rest) + 1))
  ai = 0
  while ai < len(a_sigs) or rest:
    batch.extend(a_sigs[ai:ai + step])
    ai += step
    if rest:
      batch.append(rest.pop())
  # exact duplicate of a weak signature
  dup = type(a_sigs[0][1])()
  dup.CopyFrom(a_sigs[0][1])
  batch.append((A, dup))
  return batch


def run_sig_check(ctx, check_name, batch, kind, expect_detection):
  """Runs one check class on a deep copy of the batch and verifies every verdict."""
  from paranoid_crypto.lib import ecdsa_sig_checks
  sigs = []
  for _, s in batch:
    cp = type(s)()
    cp.CopyFrom(s)
    sigs.append(cp)
  chk = getattr(ecdsa_sig_checks, check_name)()
  ret = call(chk.Check, sigs)
  base = dict(check=check_name, nonces=kind, curve=batch[0][0].name, batch=len(batch))
  if isinstance(ret, Raised):
    ctx.fail("Check returns", base, obs(ret))
    return 0
  flagged_weak = 0
  any_flag = False
  for i, ((iss, _), sig) in enumerate(zip(batch, sigs)):
    r = test_result(sig.test_info, check_name)
    info = attached(sig.test_info, "DISCRETE_LOG")
    inp = dict(base, index=i, issuer=iss.label, issuer_curve=iss.name, healthy=iss.healthy)
    ctx.case(key=(check_name, kind, iss.label, bool(r)))
    ctx.check(r is not None, "the check stores a result entry for every signature", inp, r)
    if r:
      any_flag = True
      ok = False
      if info is not None:
        try:
          dlog = int(info, 16)
          ok = _mulG(iss.v, dlog) == iss.Q
        except ValueError:
          ok = False
      ctx.check(ok, "a signature marked weak carries DISCRETE_LOG d with d*G == issuer public point", inp, info,
                format(iss.d, "x"))
      ctx.check(sig.test_info.weak, "test_info.weak is set", inp)
      if not iss.healthy:
        flagged_weak += 1
    else:
      ctx.check(info is None, "no DISCRETE_LOG is attached to a signature that is not marked", inp, info)
    if iss.healthy:
      ctx.check(not r, "signatures of healthy issuers (random key, random nonces / garbage / foreign signatures) in the same "
                "batch are not marked", inp, [r, info])
  ctx.check(ret is any_flag, "Check() returns True iff some signature was marked", base, ret, any_flag)
  if expect_detection:
    ctx.check(flagged_weak > 0, "non-vacuity: the weak issuer of this batch is detected, so the soundness check above has "
              "verified at least one recorded discrete log", base, flagged_weak)
  ctx.notes.append("%s on %s/%s: %d weak-issuer signatures marked" % (check_name, batch[0][0].name, kind, flagged_weak))
  return flagged_weak


def _install():
  from pyvc import runtime
  runtime.install()
  # ecdsa_sig_checks <-> paranoid import each other; importing paranoid first resolves the cycle (as the upstream tests do)
  from paranoid_crypto.lib import paranoid  # noqa: F401  pylint: disable=unused-import


@bounded("C02", "ecdsa_nonce_checks_sound_msb_u2f",
         bound="secp256r1 (quick) + secp256k1, secp384r1 (thorough): batch = 24 signatures of issuer A with nonces < "
               "2^(qlen-32) (resp. 4 signatures with cr50-U2F nonces) interleaved with 6 signatures of a healthy issuer, 5 "
               "garbage (r, s) of a third issuer, A's signatures re-attributed to a fourth key and (thorough) to another "
               "curve, one exact duplicate; CheckNonceMSB / CheckCr50U2f each on a fresh copy: every marked signature has "
               "DISCRETE_LOG d with d*G == issuer point (independent arithmetic), healthy issuers are never marked, the "
               "weak issuer is detected (non-vacuity)",
         functions=["ecdsa_sig_checks.CheckNonceMSB.Check", "ecdsa_sig_checks.CheckCr50U2f.Check",
                    "ecdsa_sig_checks._IssuerDLogs", "ecdsa_sig_checks._MapIssuerSigIndexes", "ec_util.EcCurve.BatchMultiplyG"])
def ecdsa_nonce_checks_sound_msb_u2f(ctx):
  reseed(ctx)
  _install()
  curves = ["secp256r1"] + (["secp256k1", "secp384r1"] if ctx.thorough else [])
  for name in curves:
    other = "secp384r1" if name != "secp384r1" else "secp256r1"
    batch = build_batch("msb", name, ctx.rnd, 24, other if ctx.thorough else None)
    run_sig_check(ctx, "CheckNonceMSB", batch, "msb", True)
    run_sig_check(ctx, "CheckCr50U2f", batch, "msb", False)
    batch = build_batch("u2f", name, ctx.rnd, 4, other if ctx.thorough else None)
    run_sig_check(ctx, "CheckCr50U2f", batch, "u2f", True)
    run_sig_check(ctx, "CheckNonceMSB", batch, "u2f", False)


def _family_check(ctx, name, kind, count, checks, expect):
  batch = build_batch(kind, name, ctx.rnd, count, "secp384r1" if name != "secp384r1" else "secp256k1")
  for check_name in checks:
    run_sig_check(ctx, check_name, batch, kind, check_name in expect)


@bounded("C02", "ecdsa_nonce_checks_sound_bias_families",
         bound="secp256r1: batches as in ecdsa_nonce_checks_sound_msb_u2f with weak nonce families common-prefix (32 bits), "
               "common-postfix (32 bits), generalized (m*k small), MSB and random-only, 24 weak signatures each; ALL four "
               "bias checks (MSB, CommonPrefix, CommonPostfix, Generalized) + CheckCr50U2f run on every batch (also on the "
               "families they are not designed for); secp521r1: MSB family (qlen not a multiple of 8/32)",
         functions=["ecdsa_sig_checks.CheckNonceMSB.Check", "ecdsa_sig_checks.CheckNonceCommonPrefix.Check",
                    "ecdsa_sig_checks.CheckNonceCommonPostfix.Check", "ecdsa_sig_checks.CheckNonceGeneralized.Check",
                    "ecdsa_sig_checks.CheckCr50U2f.Check", "ecdsa_sig_checks.BiasedBaseCheck.Check"])
def ecdsa_nonce_checks_sound_bias_families(ctx):
  reseed(ctx)
  _install()
  bias = ["CheckNonceMSB", "CheckNonceCommonPrefix", "CheckNonceCommonPostfix", "CheckNonceGeneralized", "CheckCr50U2f"]
  _family_check(ctx, "secp256r1", "prefix", 24, bias, {"CheckNonceCommonPrefix"})
  _family_check(ctx, "secp256r1", "postfix", 24, bias, {"CheckNonceCommonPostfix"})
  _family_check(ctx, "secp256r1", "generalized", 24, bias, {"CheckNonceGeneralized"})
  _family_check(ctx, "secp256r1", "msb", 24, bias, {"CheckNonceMSB", "CheckNonceCommonPrefix"})
  _family_check(ctx, "secp256r1", "random", 24, bias, set())
  _family_check(ctx, "secp521r1", "msb", 24, ["CheckNonceMSB", "CheckCr50U2f"], set())


def _repo_sample_batch(sample_name, rnd, limit):
  """A batch made from a signature sample of the repository's own test data (inputs only; verdicts are still verified with
  the independent arithmetic).  Used for GMP's LCG whose constants are not reproduced here."""
  import importlib
  mod = importlib.import_module("paranoid_crypto.lib.hidden_number_problem_test")
  sample = getattr(mod, sample_name)
  A = Issuer("A:weak-" + sample_name, "secp256r1", rnd, healthy=False, d=int(sample["priv"]))
  B = Issuer("B:random-nonces", "secp256r1", rnd, healthy=True)
  batch = [(A, make_sig(A.cid, A.Q, int(s["r"]), int(s["s"]), bytes.fromhex(s["digest"]))) for s in sample["signatures"][:limit]]
  for pos, item in enumerate(B.sign(nonces("random", A.v["n"], 4, rnd), rnd)):
    batch.insert(3 * pos + 2, item)
  return batch


@bounded("C02", "ecdsa_lcg_java_sound", tier="thorough",
         bound="secp256r1 and secp256k1: 8 signatures with nonces new BigInteger(256, java.util.Random) (own transcription, "
               "consecutive outputs of one instance) mixed with healthy / garbage / re-attributed signatures and a duplicate: "
               "CheckLCGNonceJavaUtilRandom (detection expected) and CheckLCGNonceGMP on fresh copies",
         functions=["ecdsa_sig_checks.CheckLCGNonceJavaUtilRandom.Check", "ecdsa_sig_checks.CheckLCGNonceGMP.Check",
                    "ecdsa_sig_checks.BiasedBaseCheck.Check"])
def ecdsa_lcg_java_sound(ctx):
  reseed(ctx)
  _install()
  for name in ("secp256r1", "secp256k1"):
    batch = build_batch("java", name, ctx.rnd, 8, None)
    run_sig_check(ctx, "CheckLCGNonceJavaUtilRandom", batch, "java", True)
    run_sig_check(ctx, "CheckLCGNonceGMP", batch, "java", False)


@bounded("C02", "ecdsa_lcg_gmp_and_unrelated_sound", tier="thorough",
         bound="secp256r1: 10 signatures of the repository's GMP-LCG (64-bit state, 32-bit output) test sample (input data "
               "only) + 4 signatures of a healthy issuer: CheckLCGNonceGMP (detection expected) and "
               "CheckLCGNonceJavaUtilRandom; batches with MSB-biased and with random-only nonces (8 + healthy / garbage / "
               "re-attributed signatures) through CheckLCGNonceGMP, the random-only batch also through "
               "CheckLCGNonceJavaUtilRandom",
         functions=["ecdsa_sig_checks.CheckLCGNonceGMP.Check", "ecdsa_sig_checks.CheckLCGNonceJavaUtilRandom.Check",
                    "ecdsa_sig_checks.BiasedBaseCheck.Check"])
def ecdsa_lcg_gmp_and_unrelated_sound(ctx):
  reseed(ctx)
  _install()
  try:
    batch = _repo_sample_batch("SAMPLE_SECP256R1_GMP64_32", ctx.rnd, 10)
  except Exception as e:  # pylint: disable=broad-except
    batch = None
    ctx.notes.append("repository GMP sample not importable: %r" % (e, ))
  if batch:
    run_sig_check(ctx, "CheckLCGNonceGMP", batch, "gmp64_32(repo sample)", True)
    run_sig_check(ctx, "CheckLCGNonceJavaUtilRandom", batch, "gmp64_32(repo sample)", False)
  batch = build_batch("msb", "secp256r1", ctx.rnd, 8, None)
  run_sig_check(ctx, "CheckLCGNonceGMP", batch, "msb", False)
  batch = build_batch("random", "secp256r1", ctx.rnd, 8, None)
  run_sig_check(ctx, "CheckLCGNonceGMP", batch, "random", False)
  run_sig_check(ctx, "CheckLCGNonceJavaUtilRandom", batch, "random", False)


# ----------------------------------------------------------------------------------------------------------------------
# EC keys
# ----------------------------------------------------------------------------------------------------------------------
@bounded("C02", "ec_key_checks_sound",
         bound="ECKey batches on secp256r1 (quick) + secp256k1, secp384r1 (thorough), 12 keys per curve: structured private "
               "keys (w<<8j, repeated word), their negatives n-d, near misses (2^32+5, 2^32+10^6, (2^32+3)<<16, repeated "
               "word + 1), small d in {1, 2}, random keys; CheckWeakECPrivateKey: result True <=> DISCRETE_LOG attached, and "
               "the attached value d satisfies d*G == public point. CheckECKeySmallDifference(max_diff 2^10; thorough also "
               "2^12): keys at distances +-1, +-(max_diff-1), max_diff..max_diff+40, duplicates, the same private key on two "
               "curves: result True <=> DISCRETE_LOG_DIFF attached, which parses to (Q, k) with Q another key of the batch on "
               "the same curve, k != 0 and P - Q == k*G",
         functions=["ec_single_checks.CheckWeakECPrivateKey.Check", "ec_aggregate_checks.CheckECKeySmallDifference.Check",
                    "ec_util.EcCurve.ExtendedBatchDL", "ec_util.EcCurve.BatchDLOfDifferences"])
def ec_key_checks_sound(ctx):
  reseed(ctx)
  _install()
  from paranoid_crypto.lib import ec_aggregate_checks
  from paranoid_crypto.lib import ec_single_checks
  names = ["secp256r1"] + (["secp256k1", "secp384r1"] if ctx.thorough else [])
  spec = []
  for name in names:
    _, v, cid = _fresh_named(name)
    n = v["n"]
    w = ctx.rnd.randrange(1 << 31, 1 << 32)
    rep = w * sum(1 << (32 * i) for i in range(4))
    # negatives of SMALL structured keys are found through the -dl candidate of the baby-step table and recorded as a
    # negative logarithm: e * 2^(8j) and e * (1 + 2^32 + ...) for small e
    small_rep = sum(1 << (32 * i) for i in range(3))
    ds = [w << 40, n - (w << 16), rep, n - rep, (1 << 32) + 5, (1 << 32) + 10 ** 6, ((1 << 32) + 3) << 16, rep + 1, 1, 2,
          n - (0x2a5 << 40), n - (3 << 16), n - 7 * small_rep, n - 1,
          ctx.rnd.randrange(1 << 200, n), ctx.rnd.randrange(1 << 200, n)]
    spec += [(name, v, cid, d) for d in ds]
  ctx.rnd.shuffle(spec)
  keys = [make_eckey(cid, _mulG(v, d)) for _, v, cid, d in spec]
  ret = call(ec_single_checks.CheckWeakECPrivateKey().Check, keys)
  ctx.check(ret is True, "CheckWeakECPrivateKey.Check returns True", dict(batch=len(keys)), obs(ret))
  found = 0
  for i, (key, (name, v, cid, d)) in enumerate(zip(keys, spec)):
    r = test_result(key.test_info, "CheckWeakECPrivateKey")
    info = attached(key.test_info, "DISCRETE_LOG")
    inp = dict(check="CheckWeakECPrivateKey", curve=name, d=d, index=i, batch=len(keys))
    ctx.case(key=("weak", name, i, bool(r)))
    ctx.check((r is True) == (info is not None), "result True <=> DISCRETE_LOG attached", inp, [r, info])
    if info is not None:
      found += 1
      try:
        ok = _mulG(v, int(info, 16)) == _mulG(v, d)
      except ValueError:
        ok = False
      ctx.check(ok, "recorded DISCRETE_LOG d satisfies d*G == public point", inp, info, format(d, "x"))
  ctx.check(found >= 4 * len(names), "non-vacuity: the structured keys and their negatives are recorded", dict(batch=len(keys)),
            found)
  ctx.notes.append("CheckWeakECPrivateKey recorded %d logs in a batch of %d" % (found, len(keys)))

  for max_diff in ((1 << 10, 1 << 12) if ctx.thorough else (1 << 10, )):
    spec = []
    for name in names:
      _, v, cid = _fresh_named(name)
      n = v["n"]
      d0 = ctx.rnd.randrange(1 << 100, n >> 1)
      d1 = ctx.rnd.randrange(1 << 100, n >> 1)
      ds = [d0, d0 + 1, d0 - (max_diff - 1), d1, d1, d1 + max_diff, d1 - max_diff - 7, d1 + max_diff + 40,
            ctx.rnd.randrange(1, n), n - d0, 3, n - 2]
      spec += [(name, v, cid, d) for d in ds]
    # the same private keys on the next curve must not pair across curves
    if len(names) > 1:
      _, v1, cid1 = _fresh_named(names[1])
      spec.append((names[1], v1, cid1, spec[0][3] + 2))
    ctx.rnd.shuffle(spec)
    keys = [make_eckey(cid, _mulG(v, d)) for _, v, cid, d in spec]
    ret = call(ec_aggregate_checks.CheckECKeySmallDifference(max_diff=max_diff).Check, keys)
    ctx.check(ret is True, "CheckECKeySmallDifference.Check returns True", dict(batch=len(keys), max_diff=max_diff), obs(ret))
    found = 0
    for i, (key, (name, v, cid, d)) in enumerate(zip(keys, spec)):
      r = test_result(key.test_info, "CheckECKeySmallDifference")
      info = attached(key.test_info, "DISCRETE_LOG_DIFF")
      inp = dict(check="CheckECKeySmallDifference", curve=name, d=d, index=i, max_diff=max_diff,
                 batch=[[nm, dd] for nm, _, _, dd in spec])
      ctx.case(key=("diff", name, max_diff, i, bool(r)))
      ctx.check((r is True) == (info is not None), "result True <=> DISCRETE_LOG_DIFF attached", inp, [r, info])
      if info is not None:
        found += 1
        rel = parse_relation(info)
        ok = False
        if rel is not None:
          P = _mulG(v, d)
          others = [_mulG(v, dd) for j, (nm, _, _, dd) in enumerate(spec) if nm == name and j != i]
          ok = rel[0] in others and rel[0] != P and rel[1] != 0 and \
              t_add(P, t_neg(rel[0], v["p"]), v["a"], v["p"]) == _mulG(v, rel[1])
        ctx.check(ok, "recorded relation 'key - (x, y) = k * G' holds: (x, y) is another key of the batch on the same curve, "
                  "k != 0 and P - (x, y) == k*G", inp, info)
    ctx.check(found >= 3 * len(names), "non-vacuity: the close keys are recorded", dict(max_diff=max_diff), found)
