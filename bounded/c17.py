"""C17 bounded stand-in: a verdict does not depend on batch neighbours, batch order or earlier calls.

Relational checks on real objects: the same artifact (a fresh protobuf copy every time) is judged alone, inside batches,
at every position, with duplicates, and after unrelated work on the same check objects / curve singletons; the canonical
form of its test_info (entries, flags, version, attached info with factor sets compared as sets) must not change. No
verdict is predicted; the oracle is the property's own relation between two runs.
"""
import ast
import itertools

from pyvc.registry import bounded

FACTOR_INFOS = ("N_FACTORS", "N-1_FACTORS")


def _rnd(ctx, tag):
  import random
  return random.Random(f"{ctx.seed}/c17/{tag}")


def _is_prime(n):
  if n < 2:
    return False
  small = (2, 3, 5, 7, 11, 13, 17, 19, 23, 29, 31, 37, 41)
  for p in small:
    if n % p == 0:
      return n == p
  d, s = n - 1, 0
  while d % 2 == 0:
    d //= 2
    s += 1
  for a in small:
    x = pow(a, d, n)
    if x in (1, n - 1):
      continue
    for _ in range(s - 1):
      x = x * x % n
      if x == n - 1:
        break
    else:
      return False
  return True


def _prime(rnd, bits):
  while True:
    c = rnd.getrandbits(bits) | (1 << (bits - 1)) | (1 << (bits - 2)) | 1
    if _is_prime(c):
      return c


def _next_prime(x):
  x += 1 + x % 2
  while not _is_prime(x):
    x += 2
  return x


def _i2b(x):
  return x.to_bytes((x.bit_length() + 7) // 8, "big")


def _lib():
  from pyvc import runtime
  runtime.install()
  from paranoid_crypto import paranoid_pb2
  from paranoid_crypto.lib import paranoid  # noqa: F401
  return paranoid_pb2


def _rsa_key(pb, n, e=65537):
  k = pb.RSAKey()
  k.rsa_info.n = _i2b(n)
  k.rsa_info.e = _i2b(e)
  return k


def _ec_key(pb, ct, x, y):
  k = pb.ECKey()
  k.ec_info.curve_type = ct
  k.ec_info.x = _i2b(x)
  k.ec_info.y = _i2b(y)
  return k


def _sig(pb, ct, x, y, r, s, h):
  g = pb.ECDSASignature()
  g.issuer_key_info.curve_type = ct
  g.issuer_key_info.x = _i2b(x)
  g.issuer_key_info.y = _i2b(y)
  g.ecdsa_sig_info.r = _i2b(r)
  g.ecdsa_sig_info.s = _i2b(s)
  g.ecdsa_sig_info.message_hash = h
  return g


def _pub(curve_name, d):
  from cryptography.hazmat.primitives.asymmetric import ec
  pn = ec.derive_private_key(d, getattr(ec, curve_name)()).public_key().public_numbers()
  return pn.x, pn.y


def _order(curve_name):
  from cryptography.hazmat.primitives.asymmetric import ec
  curve = getattr(ec, curve_name)()
  lo, hi = 1, 1 << (curve.key_size + 2)
  while hi - lo > 1:
    mid = (lo + hi) // 2
    try:
      ec.derive_private_key(mid, curve)
      lo = mid
    except ValueError:
      hi = mid
  return hi


def _canon(art):
  ti = art.test_info
  info = []
  for a in ti.attached_info:
    if a.info_name in FACTOR_INFOS:
      info.append((a.info_name, tuple(sorted(int(h, 16) for h in ast.literal_eval(a.value)))))
    else:
      info.append((a.info_name, a.value))
  return (ti.weak, ti.paranoid_lib_version, tuple((t.test_name, t.result, t.severity) for t in ti.test_results),
          tuple(sorted(info)))


def _verdict(art, name):
  for t in art.test_info.test_results:
    if t.test_name == name:
      return t.result
  return None


def _fingerprint(n):
  import hashlib
  return "RSA-%d:%s" % (n.bit_length(), hashlib.sha1(("Modulus=" + format(n, "X") + "\n").encode()).hexdigest()[20:])


def _storage(deny):
  from paranoid_crypto.lib.data import data_pb2, storage

  class _Store(storage.Storage):
    def GetUnseededRands(self, size):
      return frozenset()

    def GetKeypairData(self):
      return data_pb2.KeypairData()

    def GetOpensslDenylist(self):
      return deny
  return _Store()


def _contexts(rnd, n, perms):
  """Index lists (batches) over a pool of size n: singles are handled by the caller."""
  out = [list(range(n)), list(range(n))[::-1]]
  for _ in range(perms):
    p = list(range(n))
    rnd.shuffle(p)
    out.append(p)
  out += [[i, i] for i in range(n)]                       # duplicates of one artifact
  out += [list(p) for p in itertools.permutations(range(n), 2)]
  out += [[i] + [j for j in range(n) if j != i] + [i] for i in range(n)]   # first and last
  return out


def _individual(ctx, checks, make, labels, contexts, other_work, what):
  """checks: {name: object}; make(i) -> fresh protobuf of pool item i."""
  n = len(labels)
  for cname, chk in checks.items():
    base = []
    for i in range(n):
      a = make(i)
      chk.Check([a])
      base.append(_canon(a))
    ctx.check(all(len(b[2]) <= 1 for b in base), "one entry at most per artifact from one check", dict(check=cname))
    for ci, batch in enumerate(contexts):
      if ci % 7 == 3:
        other_work(chk)
      arts = [make(i) for i in batch]
      chk.Check(arts)
      for pos, (i, a) in enumerate(zip(batch, arts)):
        ctx.case(key=(cname, i, pos, len(batch), base[i][2][0][1] if base[i][2] else None))
        ctx.check(_canon(a) == base[i], what, dict(check=cname, artifact=labels[i], position=pos,
                                                   batch=[labels[j] for j in batch][:12], context=ci),
                  observed=_canon(a), expected=base[i])
    # alone again after everything
    other_work(chk)
    for i in range(n):
      a = make(i)
      chk.Check([a])
      ctx.case(key=(cname, i, "alone_again"))
      ctx.check(_canon(a) == base[i], what + " (alone again, after all other batches)",
                dict(check=cname, artifact=labels[i], context="alone_again"), observed=_canon(a), expected=base[i])
    verdicts = {b[2][0][1] for b in base if b[2]}
    ctx.notes.append(f"{cname}: verdicts in pool {sorted(verdicts)}")


def _rsa_pool(rnd):
  pb_ = 256
  p = [_prime(rnd, pb_) for _ in range(8)]
  pat = int.from_bytes(bytes([0xA5, 0x3C]) * (pb_ // 16), "big") | (1 << (pb_ - 1))
  M = 1
  for q in range(3, 174):
    if all(q % d for d in range(2, int(q ** 0.5) + 1)):
      M *= q
  pool = [("healthy_a", p[0] * p[1], 65537), ("close_primes", p[2] * _next_prime(p[2] + (1 << 16)), 65537),
          ("e=3", p[3] * p[4], 3), ("pattern_prime", _next_prime(pat) * p[5], 65537), ("healthy_b", p[6] * p[7], 65537),
          ("square", p[5] * p[5], 65537), ("denylisted", p[1] * p[2], 65537),
          ("roca_shaped", pow(65537, rnd.getrandbits(90), M) + M * (rnd.getrandbits(500) // M | 1), 65537),
          ("healthy_2048", _prime(rnd, 1024) * _prime(rnd, 1024), 65537),
          ("modulus_64_bits", _next_prime(1 << 31 | rnd.getrandbits(31)) * _next_prime(3 << 30 | rnd.getrandbits(30)) | 0, 65537)]
  return pool


@bounded("C17", "rsa_individual_checks_context_free",
         bound="11 individually judging RSA checks (sizes, exponents, ROCA, ROCA variant, Fermat(max_steps=5000), "
               "high/low bits, continued fractions, bit patterns, permuted bit patterns, small upper differences, "
               "OpenSSL denylist via custom storage; thorough adds CheckUnseededRand, CheckKeypairDenylist, "
               "CheckPollardpm1(bound=2^12)) x pool of 10 keys (healthy, close primes, e=3, pattern prime, square, "
               "denylisted, ROCA-shaped, 2048-bit, 64-bit) x contexts {alone, full batch, reversed, 20 (quick) / 40 "
               "(thorough) seeded permutations, duplicated, every ordered pair, first-and-last, alone again} with other "
               "batches (other sizes) run on the same check object in between",
         functions=["rsa_single_checks.*.Check"])
def rsa_individual(ctx):
  pb = _lib()
  from paranoid_crypto.lib import rsa_single_checks as rs
  rnd = _rnd(ctx, "rsa")
  pool = _rsa_pool(rnd)
  deny = {_fingerprint(n) for lab, n, _ in pool if lab == "denylisted"}
  checks = {
      "CheckSizes": rs.CheckSizes(), "CheckExponents": rs.CheckExponents(), "CheckROCA": rs.CheckROCA(),
      "CheckROCAVariant": rs.CheckROCAVariant(), "CheckFermat": rs.CheckFermat(max_steps=5000),
      "CheckHighAndLowBitsEqual": rs.CheckHighAndLowBitsEqual(), "CheckContinuedFractions": rs.CheckContinuedFractions(),
      "CheckBitPatterns": rs.CheckBitPatterns(), "CheckPermutedBitPatterns": rs.CheckPermutedBitPatterns(),
      "CheckSmallUpperDifferences": rs.CheckSmallUpperDifferences(),
      "CheckOpensslDenylist": rs.CheckOpensslDenylist(_storage(deny)),
  }
  if ctx.thorough:
    checks["CheckUnseededRand"] = rs.CheckUnseededRand()
    checks["CheckKeypairDenylist"] = rs.CheckKeypairDenylist()
    checks["CheckPollardpm1"] = rs.CheckPollardpm1(bound=1 << 12)
  others = [_prime(rnd, 128) * _prime(rnd, 128), _prime(rnd, 600) * _prime(rnd, 424), (1 << 127) - 1, 3 * _prime(rnd, 300)]

  def other_work(chk):
    chk.Check([_rsa_key(pb, m, e) for m, e in zip(others, (65537, 3, 65537, 17))])

  contexts = _contexts(rnd, len(pool), 40 if ctx.thorough else 20)
  _individual(ctx, checks, lambda i: _rsa_key(pb, pool[i][1], pool[i][2]), [p[0] for p in pool], contexts, other_work,
              "entry + evidence of an RSA key are the same alone and in any batch / position / history")
  flagged = [n for n in ctx.notes if "True" in n]
  ctx.check(len(flagged) >= 7, "the pool makes at least 7 of the checks produce both verdicts", dict(), observed=ctx.notes)


@bounded("C17", "ec_individual_checks_context_free",
         bound="CheckValidECKey, CheckWeakCurve x pool of 12 EC keys on 6 named curves + binary-field id + CURVE_UNKNOWN "
               "(valid, negated, off-curve, coordinate + p, (0,0)) x the same context family; other batches on other "
               "curves and BatchMultiplyG work on the curve singletons in between",
         functions=["ec_single_checks.CheckValidECKey.Check", "ec_single_checks.CheckWeakCurve.Check"])
def ec_individual(ctx):
  pb = _lib()
  from paranoid_crypto.lib import ec_single_checks, ec_util
  rnd = _rnd(ctx, "ec")
  CT = pb.CurveType
  p256 = 2 ** 256 - 2 ** 224 + 2 ** 192 + 2 ** 96 - 1
  x, y = _pub("SECP256R1", rnd.getrandbits(250))
  x2, y2 = _pub("SECP384R1", rnd.getrandbits(380))
  pool = [("p256", CT.CURVE_SECP256R1, x, y), ("p256_neg", CT.CURVE_SECP256R1, x, p256 - y),
          ("p256_off", CT.CURVE_SECP256R1, x, y + 1), ("p256_x+p", CT.CURVE_SECP256R1, x + p256, y),
          ("p256_00", CT.CURVE_SECP256R1, 0, 0), ("p384", CT.CURVE_SECP384R1, x2, y2),
          ("p384_swapped", CT.CURVE_SECP384R1, y2, x2),
          ("secp192r1", CT.CURVE_SECP192R1) + _pub("SECP192R1", rnd.getrandbits(190)),
          ("secp256k1", CT.CURVE_SECP256K1) + _pub("SECP256K1", rnd.getrandbits(250)),
          ("brainpool512", CT.CURVE_BRAINPOOLP512R1) + _pub("BrainpoolP512R1", rnd.getrandbits(500)),
          ("p256_point_on_k1", CT.CURVE_SECP256K1, x, y), ("sect571r1", CT.CURVE_SECT571R1, 1, 2),
          ("unknown", CT.CURVE_UNKNOWN, x, y)]
  checks = {"CheckValidECKey": ec_single_checks.CheckValidECKey(), "CheckWeakCurve": ec_single_checks.CheckWeakCurve()}
  oth = [_ec_key(pb, CT.CURVE_SECP224R1, *_pub("SECP224R1", 77)), _ec_key(pb, CT.CURVE_SECP521R1, 3, 4),
         _ec_key(pb, 99, 1, 1)]

  def other_work(chk):
    chk.Check([pb.ECKey.FromString(k.SerializeToString()) for k in oth])
    ec_util.CURVE_FACTORY[CT.CURVE_SECP256R1].BatchMultiplyG([rnd.getrandbits(64) for _ in range(3)])

  contexts = _contexts(rnd, len(pool), 30 if ctx.thorough else 20)
  _individual(ctx, checks, lambda i: _ec_key(pb, *pool[i][1:]), [p[0] for p in pool], contexts, other_work,
              "entry of an EC key is the same alone and in any batch / position / history")


@bounded("C17", "rsa_joint_checks_equivariant",
         bound="CheckGCD and CheckGCDN1(gcd_bound=2^64): batch of 7 keys (two pairs sharing a prime, one pair whose n-1 "
               "share an 80-bit prime, healthy keys): ALL 5040 permutations (thorough) / 1000 seeded ones + all rotations "
               "(quick) permute the verdicts and evidence; removing / adding 1..3 healthy keys changes nothing for the "
               "others (CheckGCDN1: same verdict, recorded gcd still a multiple of the planted factor - the recorded "
               "value itself legitimately collects small common factors of n-1 with the neighbours); the same check "
               "objects are used throughout, with batches of other sizes in between",
         functions=["rsa_aggregate_checks.CheckGCD.Check", "rsa_aggregate_checks.CheckGCDN1.Check", "rsa_util.BatchGCD"])
def rsa_joint(ctx):
  pb = _lib()
  from paranoid_crypto.lib import rsa_aggregate_checks as ra
  rnd = _rnd(ctx, "joint")
  p = [_prime(rnd, 256) for _ in range(12)]
  g = _prime(rnd, 80)

  def prime_1_mod_g(bits):
    while True:
      c = (rnd.getrandbits(bits - 81) | (1 << (bits - 82))) * 2 * g + 1
      if _is_prime(c):
        return c
  n1a = prime_1_mod_g(256) * prime_1_mod_g(256)
  n1b = prime_1_mod_g(256) * prime_1_mod_g(256)
  pool = [("shared_u_1", p[0] * p[1]), ("shared_u_2", p[0] * p[2]), ("healthy_1", p[3] * p[4]),
          ("shared_v_1", p[5] * p[6]), ("nm1_a", n1a), ("shared_v_2", p[5] * p[7]), ("nm1_b", n1b)]
  healthy_extra = [("extra_1", p[8] * p[9]), ("extra_2", p[10] * p[11]), ("extra_3", _prime(rnd, 512) * _prime(rnd, 512))]
  labels = [l for l, _ in pool]
  checks = {"CheckGCD": ra.CheckGCD(), "CheckGCDN1": ra.CheckGCDN1(gcd_bound=1 << 64)}
  n = len(pool)
  if ctx.thorough:
    perms = list(itertools.permutations(range(n)))
  else:
    perms = [tuple(range(n))[i:] + tuple(range(n))[:i] for i in range(n)]
    for _ in range(1000):
      q = list(range(n))
      rnd.shuffle(q)
      perms.append(tuple(q))
  for cname, chk in checks.items():
    base_arts = [_rsa_key(pb, m) for _, m in pool]
    chk.Check(base_arts)
    base = [_canon(a) for a in base_arts]
    exp_pos = {"CheckGCD": [True, True, False, True, False, True, False],
               "CheckGCDN1": [False, False, False, False, True, False, True]}[cname]
    ctx.check([_verdict(a, cname) for a in base_arts] == exp_pos, "pool sanity: planted relations are flagged",
              dict(check=cname), observed=[_verdict(a, cname) for a in base_arts], expected=exp_pos)
    for pi, perm in enumerate(perms):
      if pi % 50 == 7:
        chk.Check([_rsa_key(pb, p[8] * p[9]), _rsa_key(pb, p[9] * p[10])])   # earlier work on the same object
      arts = [_rsa_key(pb, pool[i][1]) for i in perm]
      chk.Check(arts)
      ctx.case(key=(cname, perm))
      for pos, i in enumerate(perm):
        ctx.check(_canon(arts[pos]) == base[i], "permuting the batch permutes verdicts and evidence",
                  dict(check=cname, artifact=labels[i], permutation=list(perm), position=pos),
                  observed=_canon(arts[pos]), expected=base[i])
    # add / remove healthy artifacts
    healthy_idx = [2]
    for extra in range(0, 4):
      for drop in ([], healthy_idx):
        for front in (False, True):
          idx = [i for i in range(n) if i not in drop]
          ex = [_rsa_key(pb, m) for _, m in healthy_extra[:extra]]
          arts = [_rsa_key(pb, pool[i][1]) for i in idx]
          batch = (ex + arts) if front else (arts + ex)
          chk.Check(batch)
          ctx.case(key=(cname, "healthy", extra, tuple(drop), front))
          for i, a in zip(idx, arts):
            inp = dict(check=cname, artifact=labels[i], healthy_added=extra, healthy_removed=len(drop), added_in_front=front)
            if cname == "CheckGCD":
              ctx.check(_canon(a) == base[i], "adding / removing healthy artifacts changes nothing for the others", inp,
                        observed=_canon(a), expected=base[i])
            else:
              ctx.check(_verdict(a, cname) == base[i][2][0][1], "adding / removing healthy artifacts does not change "
                        "the verdict of the others", inp, observed=_verdict(a, cname), expected=base[i][2][0][1])
              rec = [v for k, v in _canon(a)[3] if k == "N-1_FACTORS"]
              if base[i][2][0][1]:
                ctx.check(len(rec) == 1 and all(f % g == 0 for f in rec[0]), "recorded gcd of n-1 still contains the "
                          "planted common factor", inp, observed=rec)
              else:
                ctx.check(not rec, "no evidence recorded for an unflagged key", inp, observed=rec)
          for a in ex:
            ctx.check(_verdict(a, cname) is False, "the added healthy artifacts are not flagged",
                      dict(check=cname, healthy_added=extra), observed=_verdict(a, cname))


@bounded("C17", "ec_small_difference_equivariant_and_history",
         bound="CheckECKeySmallDifference(max_diff=2^12), first thing in the process (tables of the curve singletons "
               "empty): pool of 9 keys (P-256: d, d+5; e, e-100; lone; secp256k1: f, f+4095; lone; off-curve point); "
               "then 600 (quick) / 3000 (thorough) seeded permutations + rotations; adding 1..3 healthy keys on the same "
               "and other curves; then arbitrary earlier work (max_diff=2^14 objects on the same curves, BatchDL with "
               "other bounds, other curves) and the original batch again: everything flagged fresh is still flagged with "
               "the same evidence (extra hits outside the bound would be allowed; the pool has none in (2^12, 2^14])",
         functions=["ec_aggregate_checks.CheckECKeySmallDifference.Check", "ec_util.EcCurve.BatchDLOfDifferences",
                    "ec_util.EcCurve.PointTable"])
def ec_small_difference(ctx):
  pb = _lib()
  from paranoid_crypto.lib import ec_aggregate_checks, ec_util
  rnd = _rnd(ctx, "ecdiff")
  CT = pb.CurveType
  d, e, f = rnd.getrandbits(240), rnd.getrandbits(240), rnd.getrandbits(240)
  x, y = _pub("SECP256R1", rnd.getrandbits(240))
  pool = [("p256_d", CT.CURVE_SECP256R1) + _pub("SECP256R1", d), ("p256_e", CT.CURVE_SECP256R1) + _pub("SECP256R1", e),
          ("k1_f", CT.CURVE_SECP256K1) + _pub("SECP256K1", f), ("p256_d+5", CT.CURVE_SECP256R1) + _pub("SECP256R1", d + 5),
          ("p256_lone", CT.CURVE_SECP256R1) + _pub("SECP256R1", rnd.getrandbits(240)),
          ("k1_f+4095", CT.CURVE_SECP256K1) + _pub("SECP256K1", f + 4095),
          ("p256_e-100", CT.CURVE_SECP256R1) + _pub("SECP256R1", e - 100),
          ("k1_lone", CT.CURVE_SECP256K1) + _pub("SECP256K1", rnd.getrandbits(240)),
          ("p256_off_curve", CT.CURVE_SECP256R1, x, y + 1)]
  labels = [p[0] for p in pool]
  name = "CheckECKeySmallDifference"
  chk = ec_aggregate_checks.CheckECKeySmallDifference(max_diff=1 << 12)
  sizes0 = {c.name: c._table_size for c in ec_util.CURVE_FACTORY.values() if c is not None}
  base_arts = [_ec_key(pb, *p[1:]) for p in pool]
  chk.Check(base_arts)
  base = [_canon(a) for a in base_arts]
  exp = [True, True, True, True, False, True, True, False, False]
  ctx.check([_verdict(a, name) for a in base_arts] == exp, "pool sanity: planted differences flagged",
            dict(fresh_tables=sizes0), observed=[_verdict(a, name) for a in base_arts], expected=exp)
  n = len(pool)
  perms = [tuple(range(n))[i:] + tuple(range(n))[:i] for i in range(n)]
  for _ in range(3000 if ctx.thorough else 600):
    q = list(range(n))
    rnd.shuffle(q)
    perms.append(tuple(q))
  for perm in perms:
    arts = [_ec_key(pb, *pool[i][1:]) for i in perm]
    chk.Check(arts)
    ctx.case(key=("perm", perm))
    for pos, i in enumerate(perm):
      ctx.check(_canon(arts[pos]) == base[i], "permuting the batch permutes verdicts and evidence",
                dict(artifact=labels[i], permutation=list(perm), position=pos), observed=_canon(arts[pos]),
                expected=base[i])
  healthy = [("p256_h", CT.CURVE_SECP256R1) + _pub("SECP256R1", rnd.getrandbits(240)),
             ("k1_h", CT.CURVE_SECP256K1) + _pub("SECP256K1", rnd.getrandbits(240)),
             ("p384_h", CT.CURVE_SECP384R1) + _pub("SECP384R1", rnd.getrandbits(380))]
  for extra in range(1, 4):
    for front in (False, True):
      ex = [_ec_key(pb, *h[1:]) for h in healthy[:extra]]
      arts = [_ec_key(pb, *p[1:]) for p in pool]
      chk.Check(ex + arts if front else arts + ex)
      ctx.case(key=("healthy", extra, front))
      for i, a in enumerate(arts):
        ctx.check(_canon(a) == base[i], "adding healthy artifacts changes nothing for the others",
                  dict(artifact=labels[i], healthy_added=extra, added_in_front=front), observed=_canon(a), expected=base[i])
      for a in ex:
        ctx.check(_verdict(a, name) is False, "the added healthy artifacts are not flagged", dict(healthy_added=extra))
  # arbitrary earlier work on the same singletons, then the original batch again
  big = ec_aggregate_checks.CheckECKeySmallDifference(max_diff=1 << 14)
  big.Check([_ec_key(pb, *p[1:]) for p in pool[:4]] + [_ec_key(pb, *healthy[2][1:]), _ec_key(pb, *healthy[2][1:])])
  c256 = ec_util.CURVE_FACTORY[CT.CURVE_SECP256R1]
  c256.BatchDL([c256.Multiply(c256.g, 12345), c256.Multiply(c256.g, 1 << 20)], 1 << 16)
  ck1 = ec_util.CURVE_FACTORY[CT.CURVE_SECP256K1]
  ck1.BatchDL([ck1.Multiply(ck1.g, 77)], 1 << 10)
  sizes1 = {c.name: c._table_size for c in ec_util.CURVE_FACTORY.values() if c is not None and c._table_size}
  for rep in range(3):
    arts = [_ec_key(pb, *p[1:]) for p in pool]
    chk.Check(arts)
    ctx.case(key=("after_history", rep), sample=dict(table_sizes_after_history=sizes1))
    for i, a in enumerate(arts):
      ctx.check(not base[i][2][0][1] or _canon(a) == base[i],
                "flagged in a fresh process => flagged (same evidence) after arbitrary earlier work",
                dict(artifact=labels[i], table_sizes=sizes1), observed=_canon(a), expected=base[i])
      ctx.check(base[i][2][0][1] or _canon(a) == base[i],
                "this pool has no difference in (2^12, 2^14], so unflagged keys stay unflagged",
                dict(artifact=labels[i], table_sizes=sizes1), observed=_canon(a), expected=base[i])


@bounded("C17", "weak_private_key_check_batch_dependence",
         bound="CheckWeakECPrivateKey on secp224r1 (a curve no other check of this module touches; tables empty at "
               "start): keys with private keys 0x1234567, 0xBEEF<<72 (4 adjacent bytes), 0x89ABCDEF repeated in every "
               "32-bit word, one random 220-bit key, and 2^32 + 10^6 (inputs.just_above_bound, design finding F9): each "
               "alone FIRST, then the batch of all, permutations, then alone again: same entry and evidence",
         functions=["ec_single_checks.CheckWeakECPrivateKey.Check", "ec_util.EcCurve.ExtendedBatchDL",
                    "ec_util.EcCurve.BatchDL"],
         tier="thorough")
def weak_private_key(ctx):
  pb = _lib()
  from paranoid_crypto.lib import ec_single_checks, ec_util
  rnd = _rnd(ctx, "weakpriv")
  ct = pb.CurveType.CURVE_SECP224R1
  name = "CheckWeakECPrivateKey"
  word = 0x89ABCDEF
  ds = [("small_0x1234567", 0x1234567, False), ("four_adjacent_bytes", 0xBEEF1234 << 72, False),
        ("repeated_word", sum(word << (32 * i) for i in range(7)), False),
        ("random_220_bits", rnd.getrandbits(220) | 1 << 219, False),
        ("just_above_2^32", (1 << 32) + 10 ** 6, True)]
  pts = [_pub("SECP224R1", d) for _, d, _ in ds]
  chk = ec_single_checks.CheckWeakECPrivateKey()
  curve = ec_util.CURVE_FACTORY[ct]
  t0 = curve._table_size
  base = []
  for (lab, d, above), (x, y) in zip(ds, pts):
    # alone, with the table reset to the fresh-process state for every key (so that "alone" means alone)
    curve._table, curve._table_size = {}, 0
    a = _ec_key(pb, ct, x, y)
    chk.Check([a])
    base.append(_canon(a))
  ctx.check([b[2][0][1] for b in base][:4] == [True, True, True, False],
            "pool sanity: the three documented weak forms are flagged alone, the random key is not",
            dict(table_size_at_start=t0), observed=[b[2][0][1] for b in base])
  contexts = [list(range(5)), [4, 3, 2, 1, 0], [4, 0], [0, 4], [3, 4], [4, 3, 3, 3], [0], [1], [2], [3], [4]]
  for ci, batch in enumerate(contexts):
    arts = [_ec_key(pb, ct, *pts[i]) for i in batch]
    chk.Check(arts)
    for pos, (i, a) in enumerate(zip(batch, arts)):
      lab, d, above = ds[i]
      ctx.case(key=(ci, i, pos))
      ctx.check(_canon(a) == base[i], "entry + evidence of an EC key from CheckWeakECPrivateKey are the same alone, in "
                "any batch, and after earlier batches",
                dict(artifact=lab, private_key=d, just_above_bound=above, batch=[ds[j][0] for j in batch], position=pos,
                     context=ci, table_size=curve._table_size), observed=_canon(a), expected=base[i])


@bounded("C17", "ecdsa_nonce_checks_issuer_independence",
         bound="CheckNonceMSB, CheckNonceCommonPrefix, CheckNonceCommonPostfix, CheckCr50U2f on 4 issuers x 2 curves "
               "(P-256: 6 signatures with 128-bit nonces, 3 healthy; secp384r1: 6 with 192-bit nonces, 3 healthy): every "
               "issuer alone, all together, 10 seeded shuffles, one curve at a time, and again after the other batches: "
               "the verdict and recovered key of a signature are the same",
         functions=["ecdsa_sig_checks.BiasedBaseCheck.Check", "ecdsa_sig_checks.CheckCr50U2f.Check",
                    "ecdsa_sig_checks._MapIssuerSigIndexes", "ecdsa_sig_checks._IssuerDLogs"],
         tier="thorough")
def ecdsa_issuer_independence(ctx):
  pb = _lib()
  from paranoid_crypto.lib import ecdsa_sig_checks as sg
  rnd = _rnd(ctx, "ecdsa")
  CT = pb.CurveType
  plan = [("p256_short", "SECP256R1", CT.CURVE_SECP256R1, 6, 128), ("p256_ok", "SECP256R1", CT.CURVE_SECP256R1, 3, 256),
          ("p384_short", "SECP384R1", CT.CURVE_SECP384R1, 6, 192), ("p384_ok", "SECP384R1", CT.CURVE_SECP384R1, 3, 384)]
  sigs = []   # (issuer label, bytes)
  for lab, cname, ct, cnt, nbits in plan:
    n = _order(cname)
    d = rnd.randrange(1, n)
    x, y = _pub(cname, d)
    for _ in range(cnt):
      k = rnd.randrange(1, min(n, 1 << nbits))
      h = rnd.randbytes(32)
      z = int.from_bytes(h, "big") % n
      r = _pub(cname, k)[0] % n
      s = pow(k, -1, n) * (z + r * d) % n
      sigs.append((lab, _sig(pb, ct, x, y, r, s, h).SerializeToString()))
  checks = {"CheckNonceMSB": sg.CheckNonceMSB(), "CheckNonceCommonPrefix": sg.CheckNonceCommonPrefix(),
            "CheckNonceCommonPostfix": sg.CheckNonceCommonPostfix(), "CheckCr50U2f": sg.CheckCr50U2f()}
  idx_of = {lab: [i for i, (l, _) in enumerate(sigs) if l == lab] for lab, *_ in plan}
  for cname, chk in checks.items():
    base = [None] * len(sigs)
    for lab, idx in idx_of.items():
      arts = [pb.ECDSASignature.FromString(sigs[i][1]) for i in idx]
      chk.Check(arts)
      for i, a in zip(idx, arts):
        base[i] = _canon(a)
    if cname == "CheckNonceMSB":
      got = {lab: [base[i][2][0][1] for i in idx] for lab, idx in idx_of.items()}
      ctx.check(all(got["p256_short"]) and all(got["p384_short"]) and not any(got["p256_ok"]) and not any(got["p384_ok"]),
                "pool sanity: short nonces are detected by CheckNonceMSB, healthy ones are not", dict(), observed=got)
    batches = [list(range(len(sigs))), list(range(len(sigs)))[::-1], idx_of["p256_short"] + idx_of["p256_ok"],
               idx_of["p384_ok"] + idx_of["p384_short"]]
    for _ in range(10):
      q = list(range(len(sigs)))
      rnd.shuffle(q)
      batches.append(q)
    batches += [idx for idx in idx_of.values()]
    for bi, batch in enumerate(batches):
      arts = [pb.ECDSASignature.FromString(sigs[i][1]) for i in batch]
      chk.Check(arts)
      for pos, (i, a) in enumerate(zip(batch, arts)):
        ctx.case(key=(cname, bi, i))
        ctx.check(_canon(a) == base[i], "verdict + recovered key of a signature do not depend on the other issuers' "
                  "signatures, their order, or earlier batches",
                  dict(check=cname, issuer=sigs[i][0], position=pos, batch_size=len(batch), context=bi),
                  observed=_canon(a), expected=base[i])
