"""C03 bounded stand-in: the shared-factor verdicts on keys that ALREADY carry entries of other checks (any order of
CheckGCD / CheckGCDN1 / CheckSizes / CheckROCA / CheckROCAVariant on the same protobufs, and a second pass).  Added after
seeded change C03-5 (util.GetTestResult matching names by regular-expression prefix: CheckGCD's verdict was merged into
an existing CheckGCDN1 entry when the N-1 check had run first)."""
import itertools
import math

from pyvc.registry import bounded


@bounded("C03", "gcd_verdicts_on_annotated_keys",
         bound="3 batches (shared prime; identical moduli + shared prime; clean) of 3-4 keys x every order of "
               "{CheckGCD, CheckGCDN1, CheckROCA, CheckROCAVariant, CheckSizes} (120 orders quick: 24 sampled) + a second "
               "pass: CheckGCD / CheckGCDN1 entries by EXACT name carry flag <=> gcd criterion, recorded factors as defined",
         functions=["rsa_aggregate_checks.CheckGCD.Check", "rsa_aggregate_checks.CheckGCDN1.Check", "util.SetTestResult",
                    "util.GetTestResult", "util.AttachFactors"])
def annotated(ctx):
  from bounded import c03
  from pyvc import runtime
  runtime.install()
  from paranoid_crypto import paranoid_pb2
  from paranoid_crypto.lib import rsa_aggregate_checks as ra, rsa_single_checks as rs, util
  rnd = c03._rnd(ctx, "annotated")
  pr = []
  while len(pr) < 8:
    c = c03._next_prime(rnd.getrandbits(40) | (1 << 39))
    if c not in pr:
      pr.append(c)
  p, q, r, s, t, u, v, w = pr
  batches = [("shared_prime", [p * q, p * r, s * t]), ("identical_and_shared", [p * q, p * q, q * u, v * w]),
             ("clean", [p * q, r * s, t * u])]
  names = ["CheckGCD", "CheckGCDN1", "CheckROCA", "CheckROCAVariant", "CheckSizes"]
  mk = {"CheckGCD": ra.CheckGCD, "CheckGCDN1": ra.CheckGCDN1, "CheckROCA": rs.CheckROCA,
        "CheckROCAVariant": rs.CheckROCAVariant, "CheckSizes": rs.CheckSizes}
  orders = list(itertools.permutations(names))
  if not ctx.thorough:
    orders = [o for i, o in enumerate(orders) if i % 5 == 0]
  bound = 2 ** 128
  for kind, moduli in batches:
    uniq = sorted(set(moduli))
    exp_gcd = [math.gcd(n, math.prod(m for m in uniq if m != n)) for n in moduli]
    uniq1 = sorted({n - 1 for n in moduli})
    exp_n1 = [math.gcd(n - 1, math.prod(m for m in uniq1 if m != n - 1)) for n in moduli]
    for order in orders:
      keys = c03._keys(paranoid_pb2, util, moduli)
      for rep in range(2):
        for name in order:
          mk[name]().Check(keys)
      ctx.case(key=(kind, order))
      inputs = dict(kind=kind, order=list(order), moduli=moduli)
      for i, key in enumerate(keys):
        by_name = {}
        for e in key.test_info.test_results:
          by_name.setdefault(e.test_name, []).append(e)
        ok = all(len(by_name.get(nm, [])) == 1 for nm in names)
        ctx.check(ok, "exactly one entry per check name on every key after two passes in this order",
                  dict(inputs, index=i), observed={k: len(v) for k, v in by_name.items()})
        if not ok:
          continue
        ctx.check(by_name["CheckGCD"][0].result == (exp_gcd[i] > 1),
                  "CheckGCD entry (exact name) flagged <=> gcd with the other distinct moduli > 1", dict(inputs, index=i),
                  by_name["CheckGCD"][0].result, exp_gcd[i] > 1)
        ctx.check(by_name["CheckGCDN1"][0].result == (exp_n1[i] >= bound),
                  "CheckGCDN1 entry (exact name) flagged <=> gcd of n-1 with the others >= bound", dict(inputs, index=i),
                  by_name["CheckGCDN1"][0].result, exp_n1[i] >= bound)
        facs = util.GetAttachedFactors(key.test_info, "N_FACTORS")
        want = {exp_gcd[i], moduli[i] // exp_gcd[i]} if exp_gcd[i] > 1 else None
        ctx.check(facs == want, "N_FACTORS == {g, n // g} exactly for the flagged keys", dict(inputs, index=i),
                  sorted(facs) if facs else None, sorted(want) if want else None)
