"""C11 bounded stand-in: every EcCurve point operation against an independent textbook chord-and-tangent law.

The oracle below (t_add / t_neg / t_mul, brute-force point enumeration, the table k -> k*G of a small prime-order curve)
is written here from the textbook definitions and shares no code with /repo.  It is also imported by c02/c09/c10.
"""
import itertools

from pyvc.registry import bounded, ground

INF = (None, None)


# ----------------------------------------------------------------------------------------------------------------------
# Independent textbook arithmetic on y^2 = x^3 + a x + b over F_p (plain Python ints, point at infinity = (None, None))
# ----------------------------------------------------------------------------------------------------------------------
def t_neg(P, p):
  if P[0] is None:
    return INF
  return (P[0], (-P[1]) % p)


def t_add(P, Q, a, p):
  """Chord-and-tangent addition."""
  if P[0] is None:
    return Q
  if Q[0] is None:
    return P
  x1, y1 = P
  x2, y2 = Q
  if x1 == x2:
    if (y1 + y2) % p == 0:
      return INF                      # vertical line (covers y == 0 doubling)
    lam = (3 * x1 * x1 + a) * pow(2 * y1, -1, p) % p      # tangent
  else:
    lam = (y2 - y1) * pow(x2 - x1, -1, p) % p             # chord
  x3 = (lam * lam - x1 - x2) % p
  y3 = (lam * (x1 - x3) - y1) % p
  return (x3, y3)


def t_mul(k, P, a, p):
  """Left-to-right binary double-and-add with the textbook law; negative scalars negate the point."""
  if k < 0:
    return t_mul(-k, t_neg(P, p), a, p)
  if P[0] is not None and p.bit_length() > 64:
    import gmpy2                      # same formulas on a faster big-integer type (10x on the named curves)
    P, a, p = (gmpy2.mpz(P[0]), gmpy2.mpz(P[1])), gmpy2.mpz(a), gmpy2.mpz(p)
  R = INF
  for bit in bin(k)[2:]:
    R = t_add(R, R, a, p)
    if bit == "1":
      R = t_add(R, P, a, p)
  return INF if R[0] is None else (int(R[0]), int(R[1]))


def t_on_curve(P, a, b, p):
  return P[0] is None or (P[1] * P[1] - (P[0] ** 3 + a * P[0] + b)) % p == 0


def _is_prime_small(n):
  if n < 2:
    return False
  d = 2
  while d * d <= n:
    if n % d == 0:
      return False
    d += 1
  return True


def enum_points(a, b, p):
  """All affine points by brute force over (x, y) in F_p^2 (sorted), without infinity."""
  return [(x, y) for x in range(p) for y in range(p) if (y * y - (x * x * x + a * x + b)) % p == 0]


class SmallCurve:
  """A prime-order curve over a small field with the complete table k -> k*G."""

  def __init__(self, p, a, b):
    self.p, self.a_arg, self.b = p, a, b          # a_arg is what is passed to EcCurve (may be -3)
    self.a = a % p
    aff = enum_points(self.a, b, p)
    self.q = len(aff) + 1
    self.G = aff[0]
    self.pts = [INF]                               # pts[k] == k*G
    while True:
      nxt = t_add(self.pts[-1], self.G, self.a, p)
      if nxt == INF:
        break
      self.pts.append(nxt)
    assert len(self.pts) == self.q and set(self.pts[1:]) == set(aff), "oracle: G does not generate the group"
    self.idx = {P: k for k, P in enumerate(self.pts)}
    self.name = "E(F_%d): y^2=x^3%+dx%+d, q=%d" % (p, a, b, self.q)

  def mul(self, k, P=None):
    base = 1 if P is None else self.idx[pt(P)]
    return self.pts[(k * base) % self.q]

  def add(self, P, Q):
    return self.pts[(self.idx[pt(P)] + self.idx[pt(Q)]) % self.q]

  def neg(self, P):
    return self.pts[(-self.idx[pt(P)]) % self.q]

  def log(self, P):
    return self.idx[pt(P)]

  def lib(self):
    """A fresh EcCurve object of the library for this curve (empty caches)."""
    from pyvc import runtime
    runtime.install()
    from paranoid_crypto.lib import ec_util
    return ec_util.EcCurve("small_%d_%d_%d" % (self.p, self.a_arg, self.b), self.a_arg, self.b, self.p,
                           self.G[0], self.G[1], self.q, 1)

  def desc(self):
    return dict(p=self.p, a=self.a_arg, b=self.b, q=self.q)


# (field prime, coefficient a as passed to EcCurve, minimal group order); b is searched: the first b >= 1 with a
# non-singular curve of prime order >= the minimum.
_SMALL_SPECS = [
    (97, -3, 0),      # a == -3 shortcut of DoubleJacobian, 7-bit order
    (251, 5, 257),    # generic a, 9-bit order: the comb of BatchMultiplyG has 2 steps
    (103, 0, 0),      # a == 0 (secp256k1 shape)
    (241, 238, 0),    # a = p - 3: congruent to -3 but takes the general doubling formula, 8-bit order
]
_SMALL_CACHE = {}


def small_curve(i):
  if i not in _SMALL_CACHE:
    p, a, qmin = _SMALL_SPECS[i]
    assert _is_prime_small(p)
    for b in range(1, p):
      if (4 * a ** 3 + 27 * b * b) % p == 0:
        continue
      n = 1 + len(enum_points(a % p, b, p))
      if n >= qmin and _is_prime_small(n):
        _SMALL_CACHE[i] = SmallCurve(p, a, b)
        break
  return _SMALL_CACHE[i]


def small_curves(count):
  return [small_curve(i) for i in range(count)]


def pt(P):
  """Library point (gmpy2 mpz coordinates) -> plain tuple of ints."""
  if P is None:
    return None
  if len(P) == 2:
    return INF if P[0] is None and P[1] is None else (None if P[0] is None else int(P[0]),
                                                        None if P[1] is None else int(P[1]))
  return tuple(int(v) for v in P)


def reseed(ctx):
  """ctx.rnd of the registry depends on hash(str) (randomised per process); the checks here need inputs that are a function
  of (VERIF_SEED, check name) only, so they install their own generator (str seeds are hashed with SHA-512 by `random`)."""
  import random
  ctx.rnd = random.Random("bounded|%d|%s" % (ctx.seed, ctx.name))
  return ctx.rnd


class Raised:
  def __init__(self, e):
    self.e = "%s: %s" % (type(e).__name__, e)

  def __eq__(self, other):
    return False

  def __repr__(self):
    return "raised " + self.e


def call(fn, *args):
  try:
    return fn(*args)
  except Exception as e:  # pylint: disable=broad-except
    return Raised(e)


def pts(lst):
  if isinstance(lst, Raised):
    return lst
  return [pt(P) for P in lst]


def ints(lst):
  if isinstance(lst, Raised):
    return lst
  return [None if v is None else int(v) for v in lst]


def jac(P, z, p):
  """A Jacobian representation (x z^2, y z^3, z) of the affine point P; infinity -> (z^2, z^3, 0)."""
  if P[0] is None:
    return (z * z % p, z * z * z % p, 0)
  return (P[0] * z * z % p, P[1] * z * z * z % p, z)


def jac_to_aff(J, p):
  """Textbook conversion, written independently: (X / Z^2, Y / Z^3)."""
  if isinstance(J, Raised) or J is None:
    return J
  X, Y, Z = (int(v) for v in J)
  if Z % p == 0:
    return INF
  zi = pow(Z, -1, p)
  return (X * zi * zi % p, Y * zi * zi * zi % p)


def obs(v):
  return repr(v) if isinstance(v, Raised) else v


# ----------------------------------------------------------------------------------------------------------------------
# 1. affine and Jacobian group law, all pairs
# ----------------------------------------------------------------------------------------------------------------------
@bounded("C11", "group_law_all_pairs",
         bound="whole group (incl. infinity) x whole group on 2 (quick) / 4 (thorough) prime-order curves over F_p, "
               "p in {97, 251, 103, 241} (a = -3, generic, 0, p-3): Add, Subtract, AddJacobian with Z in {1, 2, random} "
               "on both sides and two representations of infinity; Negate, Double, DoubleJacobian, AffineToJacobian, "
               "JacobianToAffine, OnCurve, IsValidPublicKey for every point",
         functions=["ec_util.EcCurve.Add", "ec_util.EcCurve.Subtract", "ec_util.EcCurve.Negate", "ec_util.EcCurve.Double",
                    "ec_util.EcCurve.AddJacobian", "ec_util.EcCurve.DoubleJacobian", "ec_util.EcCurve.AffineToJacobian",
                    "ec_util.EcCurve.JacobianToAffine", "ec_util.EcCurve.OnCurve", "ec_util.EcCurve.IsValidPublicKey"],
         exhaustive=True)
def group_law_all_pairs(ctx):
  reseed(ctx)
  for sc in small_curves(4 if ctx.thorough else 2):
    c = sc.lib()
    p, d = sc.p, sc.desc()
    zr = {P: 3 + ctx.rnd.randrange(p - 3) for P in sc.pts}
    # oracle self-check: the textbook law is closed on the table and agrees with index arithmetic
    for i, P in enumerate(sc.pts):
      for j, Q in enumerate(sc.pts):
        ctx.check(t_add(P, Q, sc.a, p) == sc.pts[(i + j) % sc.q], "oracle: t_add(iG, jG) == (i+j)G", dict(curve=d, i=i, j=j))
    for i, P in enumerate(sc.pts):
      ctx.case(key=(sc.p, "single", i == 0))
      inp = dict(curve=d, P=P)
      exp2 = sc.mul(2, P)
      got = pt(call(c.Negate, P))
      ctx.check(got == sc.neg(P), "Negate(P) == -P", inp, got, sc.neg(P))
      got = call(c.Double, P)
      ctx.check(pt(got) == exp2 if not isinstance(got, Raised) else False, "Double(P) == 2P", inp, obs(got), exp2)
      ctx.check(call(c.OnCurve, P) is True, "OnCurve(P) for a point of the curve", inp)
      ctx.check(call(c.IsValidPublicKey, P) is (i != 0), "IsValidPublicKey(P) <=> P != infinity (cofactor 1)", inp)
      if i:
        for bad in ((P[0], (P[1] + 1) % p), ((P[0] + 1) % p, P[1])):
          ctx.check(call(c.OnCurve, bad) is t_on_curve(bad, sc.a, sc.b, p), "OnCurve(x, y) <=> y^2 == x^3 + ax + b",
                    dict(curve=d, P=bad))
        ctx.check(call(c.IsValidPublicKey, (P[0] + p, P[1])) is False, "IsValidPublicKey rejects x >= mod",
                  dict(curve=d, P=(P[0] + p, P[1])))
      aj = call(c.AffineToJacobian, P)
      ctx.check(jac_to_aff(aj, p) == P and (isinstance(aj, Raised) or (int(aj[2]) == 0) == (i == 0)),
                "AffineToJacobian(P) represents P", inp, obs(aj))
      for z in (1, 2, zr[P]):
        J = jac(P, z, p)
        got = pt(call(c.JacobianToAffine, J))
        ctx.check(got == P, "JacobianToAffine(x z^2, y z^3, z) == (x, y)", dict(curve=d, P=P, z=z), obs(got), P)
        dj = call(c.DoubleJacobian, J)
        got = pt(call(c.JacobianToAffine, dj)) if not isinstance(dj, Raised) else dj
        ctx.check(got == exp2 and jac_to_aff(dj, p) == exp2, "DoubleJacobian(J) represents 2P", dict(curve=d, P=P, z=z),
                  obs(dj), exp2)
    for i, P in enumerate(sc.pts):
      reps_p = [jac(P, 1, p) if i else (1, 1, 0), jac(P, zr[P], p)]
      for j, Q in enumerate(sc.pts):
        ctx.case(key=(sc.p, "pair", i == 0, j == 0, i == j, (i + j) % sc.q == 0))
        inp = dict(curve=d, P=P, Q=Q)
        exp = sc.pts[(i + j) % sc.q]
        got = pt(call(c.Add, P, Q))
        ctx.check(got == exp, "Add(P, Q) == P + Q", inp, obs(got), exp)
        exps = sc.pts[(i - j) % sc.q]
        got = pt(call(c.Subtract, P, Q))
        ctx.check(got == exps, "Subtract(P, Q) == P - Q", inp, obs(got), exps)
        reps_q = [jac(Q, 1, p) if j else (1, 1, 0), jac(Q, 2 if j % 2 else zr[Q], p)]
        for JP in reps_p:
          for JQ in reps_q:
            s = call(c.AddJacobian, JP, JQ)
            got = pt(call(c.JacobianToAffine, s)) if not isinstance(s, Raised) else s
            ctx.check(got == exp and jac_to_aff(s, p) == exp, "AddJacobian(JP, JQ) represents P + Q",
                      dict(curve=d, P=P, Q=Q, JP=JP, JQ=JQ), obs(s), exp)


# ----------------------------------------------------------------------------------------------------------------------
# 2. scalar multiplication, all points x all scalars in [-2q, 2q]
# ----------------------------------------------------------------------------------------------------------------------
@bounded("C11", "scalar_mult_all_scalars",
         bound="every point (incl. infinity) x every scalar in [-2q, 2q] on 2 (quick; on the 9-bit curve every 4th point) / "
               "4 (thorough, all points) small prime-order curves: Multiply and MultiplyAffine against the table k -> kG",
         functions=["ec_util.EcCurve.Multiply", "ec_util.EcCurve.MultiplyAffine"], exhaustive=True)
def scalar_mult_all_scalars(ctx):
  reseed(ctx)
  for ci, sc in enumerate(small_curves(4 if ctx.thorough else 2)):
    c = sc.lib()
    d = sc.desc()
    step = 1 if (ctx.thorough or sc.q < 128) else 4
    sel = sorted(set([0, 1, sc.q - 1] + list(range(ctx.seed % step, sc.q, step))))
    for i in sel:
      P = sc.pts[i]
      for k in range(-2 * sc.q, 2 * sc.q + 1):
        exp = sc.pts[(i * k) % sc.q]
        ctx.case(key=(sc.p, i == 0, k % sc.q == 0, k < 0, abs(k) == 1, (i * k) % sc.q == 0))
        got = pt(call(c.Multiply, P, k))
        ctx.check(got == exp, "Multiply(P, k) == kP", dict(curve=d, P=P, k=k), obs(got), exp)
        got = pt(call(c.MultiplyAffine, P, k))
        ctx.check(got == exp, "MultiplyAffine(P, k) == kP", dict(curve=d, P=P, k=k), obs(got), exp)


# ----------------------------------------------------------------------------------------------------------------------
# 3. batched variants
# ----------------------------------------------------------------------------------------------------------------------
def _lists(pool, maxlen, minlen=0):
  for n in range(minlen, maxlen + 1):
    for tup in itertools.product(pool, repeat=n):
      yield list(tup)


@bounded("C11", "batch_inverse",
         bound="F_97 and F_251: all lists of length <= 2 over {None, 0, 1..p-1}; length 3: all (thorough, p = 97) / "
               "20000 random; lists of length 4..7 mixing None/0/units (random)",
         functions=["ec_util.EcCurve.BatchInverse"], exhaustive=True)
def batch_inverse(ctx):
  reseed(ctx)
  for sc in small_curves(2):
    c = sc.lib()
    p = sc.p
    dom = [None] + list(range(p))
    inv = {v: (pow(v, -1, p) if v else None) for v in dom}

    def one(vals):
      ctx.case(key=(p, len(vals), tuple(v is None for v in vals), tuple(v == 0 for v in vals)))
      got = ints(call(c.BatchInverse, list(vals)))
      exp = [inv[v] for v in vals]
      ctx.check(got == exp, "BatchInverse(values)[i] == values[i]^-1 mod p, None for 0/None",
                dict(mod=p, values=list(vals)), obs(got), exp)

    for vals in _lists(dom, 2):
      one(vals)
    if ctx.thorough and p == 97:
      for vals in itertools.product(dom, repeat=3):
        one(vals)
    else:
      for _ in range(20000):
        one([ctx.rnd.choice(dom) for _ in range(3)])
    for _ in range(20000 if ctx.thorough else 4000):
      n = ctx.rnd.randrange(4, 8)
      one([ctx.rnd.choice((None, 0, 1, p - 1, ctx.rnd.randrange(p), ctx.rnd.randrange(1, p))) for _ in range(n)])


@bounded("C11", "batch_add_variants",
         bound="for EVERY point p of the group (incl. infinity) on 2 (quick) / 3 (thorough) small curves: every list of "
               "length <= 3 (quick) / 4 (thorough) over {infinity, p, -p, 2p, R1, R2} (R random; for p = infinity: "
               "{infinity, R0, -R0, 2R0, R1, R2}); BatchAdd, BatchAddX, BatchAddSubtractX against [p + q for q in points]",
         functions=["ec_util.EcCurve.BatchAdd", "ec_util.EcCurve.BatchAddX", "ec_util.EcCurve.BatchAddSubtractX"],
         exhaustive=True)
def batch_add_variants(ctx):
  reseed(ctx)
  maxlen = 4 if ctx.thorough else 3
  for sc in small_curves(3 if ctx.thorough else 2):
    c = sc.lib()
    d, q = sc.desc(), sc.q
    for i, P in enumerate(sc.pts):
      r = [ctx.rnd.randrange(1, q) for _ in range(3)]
      base = i if i else r[0]
      pool_idx = [0, base, (-base) % q, (2 * base) % q, r[1], r[2]]
      for lst in _lists(pool_idx, maxlen):
        points = [sc.pts[j] for j in lst]
        inp = dict(curve=d, p=P, points=points)
        ctx.case(key=(sc.p, i == 0, tuple(("inf" if j == 0 else "eq" if j == i else "neg" if (i + j) % q == 0 else "gen")
                                          for j in lst)))
        exp = [sc.pts[(i + j) % q] for j in lst]
        exp_d = [sc.pts[(i - j) % q] for j in lst]
        got = pts(call(c.BatchAdd, P, list(points)))
        ctx.check(got == exp, "BatchAdd(p, points) == [p + q for q in points]", inp, obs(got), exp)
        got = ints(call(c.BatchAddX, P, list(points)))
        ctx.check(got == [e[0] for e in exp], "BatchAddX(p, points) == [(p + q).x for q in points]", inp, obs(got),
                  [e[0] for e in exp])
        got = call(c.BatchAddSubtractX, P, list(points))
        ok = (not isinstance(got, Raised) and len(got) == 2 and ints(got[0]) == [e[0] for e in exp]
              and ints(got[1]) == [e[0] for e in exp_d])
        ctx.check(ok, "BatchAddSubtractX(p, points) == ([(p + q).x], [(p - q).x])", inp,
                  obs(got) if isinstance(got, Raised) else [ints(got[0]), ints(got[1])],
                  [[e[0] for e in exp], [e[0] for e in exp_d]])


@bounded("C11", "batch_addlist_double_jacobian",
         bound="for EVERY point X of the group on 2 (quick) / 3 (thorough) small curves: BatchAddList on every list of "
               "length <= 3 (quick) / 4 (thorough) of pairs from {(inf,inf), (inf,X), (X,inf), (X,X), (X,-X), (X,2X), (X,R)}; "
               "BatchDouble on every list over {inf, X, -X, 2X, R}; BatchJacobianToAffine / BatchJacobianToX on every "
               "list over {(1,1,0), (z^2,z^3,0), jac(X,1), jac(X,z), jac(-X,z'), jac(R,z'')}; length mismatch -> ValueError",
         functions=["ec_util.EcCurve.BatchAddList", "ec_util.EcCurve.BatchDouble", "ec_util.EcCurve.BatchJacobianToAffine",
                    "ec_util.EcCurve.BatchJacobianToX"], exhaustive=True)
def batch_addlist_double_jacobian(ctx):
  reseed(ctx)
  maxlen = 4 if ctx.thorough else 3
  for sc in small_curves(3 if ctx.thorough else 2):
    c = sc.lib()
    d, q, p = sc.desc(), sc.q, sc.p
    try:
      c.BatchAddList([sc.G], [])
      ctx.fail("BatchAddList raises ValueError on lists of different length", dict(curve=d), "no exception")
    except ValueError:
      pass
    except Exception as e:  # pylint: disable=broad-except
      ctx.fail("BatchAddList raises ValueError on lists of different length", dict(curve=d), repr(e))
    for i in range(1, q):
      r = ctx.rnd.randrange(1, q)
      pairs = [(0, 0), (0, i), (i, 0), (i, i), (i, (-i) % q), (i, (2 * i) % q), (i, r)]
      for lst in _lists(pairs, maxlen):
        pl = [sc.pts[u] for u, _ in lst]
        ql = [sc.pts[v] for _, v in lst]
        ctx.case(key=(p, "addlist", tuple(pairs.index(t) for t in lst)))
        exp = [sc.pts[(u + v) % q] for u, v in lst]
        got = pts(call(c.BatchAddList, list(pl), list(ql)))
        ctx.check(got == exp, "BatchAddList(ps, qs) == [p + q for p, q in zip(ps, qs)]", dict(curve=d, p_list=pl, q_list=ql),
                  obs(got), exp)
      pool = [0, i, (-i) % q, (2 * i) % q, r]
      for lst in _lists(pool, maxlen):
        pl = [sc.pts[u] for u in lst]
        ctx.case(key=(p, "double", tuple(pool.index(t) for t in lst)))
        exp = [sc.pts[(2 * u) % q] for u in lst]
        got = pts(call(c.BatchDouble, list(pl)))
        ctx.check(got == exp, "BatchDouble(ps) == [2p for p in ps]", dict(curve=d, p_list=pl), obs(got), exp)
      z = [ctx.rnd.randrange(2, p) for _ in range(4)]
      jpool = [((1, 1, 0), INF), (jac(INF, z[0], p), INF), (jac(sc.pts[i], 1, p), sc.pts[i]),
               (jac(sc.pts[i], z[1], p), sc.pts[i]), (jac(sc.pts[(-i) % q], z[2], p), sc.pts[(-i) % q]),
               (jac(sc.pts[r], z[3], p), sc.pts[r])]
      for lst in _lists(list(range(6)), maxlen):
        jl = [jpool[u][0] for u in lst]
        exp = [jpool[u][1] for u in lst]
        ctx.case(key=(p, "jac", tuple(lst)))
        got = pts(call(c.BatchJacobianToAffine, list(jl)))
        ctx.check(got == exp, "BatchJacobianToAffine(js) == affine points", dict(curve=d, p_list=jl), obs(got), exp)
        got = ints(call(c.BatchJacobianToX, list(jl)))
        ctx.check(got == [e[0] for e in exp], "BatchJacobianToX(js) == x-coordinates (None for infinity)",
                  dict(curve=d, p_list=jl), obs(got), [e[0] for e in exp])


# ----------------------------------------------------------------------------------------------------------------------
# 4. generator multiplication, sequences, tables
# ----------------------------------------------------------------------------------------------------------------------
@bounded("C11", "batch_multiply_g_small",
         bound="2 (quick) / 4 (thorough) small curves (7-, 9-, 7-, 8-bit orders: comb with 1 and 2 steps): BatchMultiplyG on "
               "the whole range [-2q, 2q] as one list (cold and warm cache), every single scalar as a list of length 1 on "
               "a fresh object (quick: every 5th), every pair/triple mixing {0, 1, -1, q, k, -k, 2k} for all k",
         functions=["ec_util.EcCurve.BatchMultiplyG"], exhaustive=True)
def batch_multiply_g_small(ctx):
  reseed(ctx)
  for sc in small_curves(4 if ctx.thorough else 2):
    d, q = sc.desc(), sc.q
    c = sc.lib()
    rng = list(range(-2 * q, 2 * q + 1))
    exp = [sc.pts[k % q] for k in rng]
    for temp in ("cold", "warm"):
      got = pts(call(c.BatchMultiplyG, list(rng)))
      ctx.case(key=(sc.p, "range", temp))
      if isinstance(got, Raised) or len(got) != len(exp):
        ctx.fail("BatchMultiplyG(range(-2q, 2q+1))", dict(curve=d, cache=temp), obs(got))
      else:
        for k, g, e in zip(rng, got, exp):
          ctx.case(key=(sc.p, k % q == 0, k < 0))
          ctx.check(g == e, "BatchMultiplyG(scalars)[i] == scalars[i] * G", dict(curve=d, k=k, batch="range", cache=temp), g, e)
    for k in rng[:: (1 if ctx.thorough else 5)]:
      c1 = sc.lib()
      got = pts(call(c1.BatchMultiplyG, [k]))
      ctx.case(key=(sc.p, "single", k))
      ctx.check(got == [sc.pts[k % q]], "BatchMultiplyG([k]) == [kG] on a fresh curve object", dict(curve=d, scalars=[k]),
                obs(got), [sc.pts[k % q]])
    c = sc.lib()
    for k in range(1, q):
      pool = [0, 1, -1, q, k, -k, 2 * k]
      for lst in _lists(pool, 3 if ctx.thorough else 2, 2):
        got = pts(call(c.BatchMultiplyG, list(lst)))
        e = [sc.pts[s % q] for s in lst]
        ctx.case(key=(sc.p, "mix", tuple(pool.index(s) for s in lst)))
        ctx.check(got == e, "BatchMultiplyG(scalars) == [sG for s in scalars]", dict(curve=d, scalars=lst), obs(got), e)


@bounded("C11", "point_sequence_and_table",
         bound="2 (quick) / 3 (thorough) small curves: every base point (incl. infinity) x n in 1..q+3 (thorough) / 19 edge "
               "values of n around 1, 16, q/2, q (quick), and every n in 1..2q+3 for infinity, G, 2G, -G and 2 (quick) / 6 "
               "(thorough) random bases: PointSequence(base, n) == [i*base for i < n]; "
               "PointTable(base, n): every i < n has an entry for x(i*base), every entry x -> v satisfies x(v*base) == x "
               "and 0 <= v < n + isqrt(n) + 1, and table[x(i*base)] == i whenever no other v' < n + isqrt(n) + 1 shares "
               "the x-coordinate",
         functions=["ec_util.EcCurve.PointSequence", "ec_util.EcCurve.PointTable"], exhaustive=True)
def point_sequence_and_table(ctx):
  reseed(ctx)
  import math
  for sc in small_curves(3 if ctx.thorough else 2):
    c = sc.lib()
    d, q = sc.desc(), sc.q
    full = sorted(set([0, 1, 2, q - 1] + [ctx.rnd.randrange(q) for _ in range(6 if ctx.thorough else 2)]))
    sparse_n = sorted(set([1, 2, 3, 4, 5, 8, 9, 10, 15, 16, 17, q // 2, q // 2 + 1, q // 2 + 2, q - 1, q, q + 1, q + 2, q + 3]))
    for i in range(q):
      B = sc.pts[i]
      if i in full:
        ns = range(1, 2 * q + 4)
      elif ctx.thorough:
        ns = range(1, q + 4)
      else:
        ns = sparse_n
      for n in ns:
        ctx.case(key=(sc.p, i == 0, n, "seq"))
        exp = [sc.pts[(i * k) % q] for k in range(n)]
        got = pts(call(c.PointSequence, B, n))
        ctx.check(got == exp, "PointSequence(base, n) == [i*base for i in range(n)]", dict(curve=d, base=B, n=n), obs(got),
                  exp)
        tab = call(c.PointTable, B, n)
        if isinstance(tab, Raised):
          ctx.fail("PointTable(base, n) returns a table", dict(curve=d, base=B, n=n), obs(tab))
          continue
        tab = {(None if x is None else int(x)): int(v) for x, v in tab.items()}
        lim = n + math.isqrt(n) + 1
        xs = {}
        for v in range(lim):
          xs.setdefault(sc.pts[(i * v) % q][0], []).append(v)
        ok_entries = all(0 <= v < lim and sc.pts[(i * v) % q][0] == x for x, v in tab.items())
        ctx.check(ok_entries, "every PointTable entry x -> v has x((v*base)) == x and 0 <= v < n + isqrt(n) + 1",
                  dict(curve=d, base=B, n=n), tab)
        miss = [k for k in range(n) if sc.pts[(i * k) % q][0] not in tab]
        ctx.check(not miss, "PointTable has an entry for x(i*base) for every i < n", dict(curve=d, base=B, n=n), miss)
        wrong = [k for k in range(n) if len(xs[sc.pts[(i * k) % q][0]]) == 1 and tab.get(sc.pts[(i * k) % q][0]) != k]
        ctx.check(not wrong, "PointTable[x(i*base)] == i when the x-coordinate is unambiguous", dict(curve=d, base=B, n=n),
                  wrong)


@bounded("C11", "degenerate_lengths",
         bound="empty lists / n = 0 for every batched operation on 2 small curves, judged against the docstring "
               "comprehension (e.g. PointSequence(base, 0) == [self.Multiply(base, i) for i in range(0)] == [])",
         functions=["ec_util.EcCurve.PointSequence", "ec_util.EcCurve.PointTable", "ec_util.EcCurve.BatchMultiplyG",
                    "ec_util.EcCurve.BatchAdd", "ec_util.EcCurve.BatchAddX", "ec_util.EcCurve.BatchAddSubtractX",
                    "ec_util.EcCurve.BatchAddList", "ec_util.EcCurve.BatchDouble", "ec_util.EcCurve.BatchInverse",
                    "ec_util.EcCurve.BatchJacobianToAffine", "ec_util.EcCurve.BatchJacobianToX"])
def degenerate_lengths(ctx):
  reseed(ctx)
  for sc in small_curves(2):
    c = sc.lib()
    d = sc.desc()
    for B in (INF, sc.G):
      cases = [
          ("BatchAdd", lambda: c.BatchAdd(B, []), []),
          ("BatchAddX", lambda: c.BatchAddX(B, []), []),
          ("BatchAddSubtractX", lambda: [list(v) for v in c.BatchAddSubtractX(B, [])], [[], []]),
          ("BatchAddList", lambda: c.BatchAddList([], []), []),
          ("BatchDouble", lambda: c.BatchDouble([]), []),
          ("BatchInverse", lambda: c.BatchInverse([]), []),
          ("BatchJacobianToAffine", lambda: c.BatchJacobianToAffine([]), []),
          ("BatchJacobianToX", lambda: c.BatchJacobianToX([]), []),
          ("BatchMultiplyG", lambda: c.BatchMultiplyG([]), []),
          ("PointSequence", lambda: c.PointSequence(B, 0), []),
          ("PointTable", lambda: c.PointTable(B, 0), {}),
      ]
      for name, f, exp in cases:
        ctx.case(key=(sc.p, name, B == INF))
        got = call(f)
        ctx.check(got == exp, name + " on an empty list / n = 0 returns the empty result of its docstring comprehension",
                  dict(curve=d, fn=name, n=0, base=B), obs(got), exp)


# ----------------------------------------------------------------------------------------------------------------------
# 5. named curves
# ----------------------------------------------------------------------------------------------------------------------
def named_prime_curves():
  """[(curve_type id, EcCurve, dict(p, a, b, n, G) as plain ints)] for the prime-field curves of CURVE_FACTORY."""
  from pyvc import runtime
  runtime.install()
  from paranoid_crypto.lib import ec_util
  res = []
  for cid, c in ec_util.CURVE_FACTORY.items():
    if c is not None:
      res.append((cid, c, dict(name=c.name, p=int(c.mod), a=int(c.a) % int(c.mod), b=int(c.b), n=int(c.n),
                               G=(int(c.g[0]), int(c.g[1])))))
  return res


def comb_edge_scalars(n, rnd, extra_random=4):
  """Scalars around every boundary that matters for double-and-add and for an 8-teeth comb of ceil(bits/8) columns."""
  bits = n.bit_length()
  steps = (bits + 7) // 8
  s = {0, 1, -1, 2, 3, n - 2, n - 1, n, n + 1, 2 * n - 1, 2 * n, 2 * n + 1, -n, -n + 1, -n - 1, -2 * n,
       (1 << bits) - 1, 1 << bits, (1 << bits) + 1, 1 << (bits - 1), (1 << (bits - 1)) - 1, 255, 256, 257}
  for j in range(0, bits + 1, steps):            # tooth positions
    for dlt in (-1, 0, 1):
      for k in (j + dlt, ):
        if k >= 0:
          s.update({1 << k, (1 << k) - 1, (1 << k) + 1})
  mask = sum(1 << j for j in range(0, bits, steps))
  for i in (0, 1, steps - 2, steps - 1):         # one full column of teeth
    if i >= 0:
      s.add(mask << i)
      s.add((mask << i) % n)
  s.add(((1 << steps) - 1))                      # lowest tooth, all columns
  s.add(((1 << steps) - 1) << (steps * 7))       # highest tooth, all columns
  for _ in range(extra_random):
    s.add(rnd.randrange(n))
    s.add(-rnd.randrange(n))
    s.add(rnd.randrange(1 << (2 * bits)))
  return sorted(s)


@bounded("C11", "named_curves_scalar_mult",
         bound="9 prime-field curves of CURVE_FACTORY x ~90 (quick) / ~150 (thorough) scalars: 0, +-1, n-2..n+1, 2n-1..2n+1, "
               "-n, 2^k-1, 2^k, 2^k+1 for k at every comb tooth position (multiples of ceil(bits/8)) +-1, full comb "
               "columns, 2^bits, random incl. negative and > n: Multiply(G, k), MultiplyAffine(G, k) (subset), "
               "BatchMultiplyG (whole list cold + warm cache, singletons) and Multiply(P, k) for a random P, against an "
               "independent affine double-and-add",
         functions=["ec_util.EcCurve.Multiply", "ec_util.EcCurve.MultiplyAffine", "ec_util.EcCurve.BatchMultiplyG",
                    "ec_util.CURVE_FACTORY"])
def named_curves_scalar_mult(ctx):
  reseed(ctx)
  for cid, c, v in named_prime_curves():
    n, a, p, G = v["n"], v["a"], v["p"], v["G"]
    scal = comb_edge_scalars(n, ctx.rnd, 20 if ctx.thorough else 4)
    exp = [t_mul(k % n, G, a, p) for k in scal]
    for k, e in zip(scal, exp):
      ctx.check(t_on_curve(e, a, v["b"], p), "oracle: kG is on the curve", dict(curve=v["name"], k=k))
    for temp in ("cold", "warm"):
      got = pts(call(c.BatchMultiplyG, list(scal)))
      if isinstance(got, Raised) or len(got) != len(scal):
        ctx.fail("BatchMultiplyG(edge scalars)", dict(curve=v["name"], cache=temp), obs(got))
        continue
      for k, g, e in zip(scal, got, exp):
        ctx.case(key=(v["name"], k, temp))
        ctx.check(g == e, "BatchMultiplyG(scalars)[i] == scalars[i] * G", dict(curve=v["name"], k=k, cache=temp), g, e)
    for idx, (k, e) in enumerate(zip(scal, exp)):
      ctx.case(key=(v["name"], k, "mul"))
      got = pt(call(c.Multiply, c.g, k))
      ctx.check(got == e, "Multiply(G, k) == kG", dict(curve=v["name"], k=k), obs(got), e)
      got = pts(call(c.BatchMultiplyG, [k]))
      ctx.check(got == [e], "BatchMultiplyG([k]) == [kG]", dict(curve=v["name"], scalars=[k]), obs(got), [e])
      if ctx.thorough or idx % 3 == 0:
        got = pt(call(c.MultiplyAffine, c.g, k))
        ctx.check(got == e, "MultiplyAffine(G, k) == kG", dict(curve=v["name"], k=k), obs(got), e)
    m = ctx.rnd.randrange(2, n)
    P = t_mul(m, G, a, p)
    for k in scal[:: (2 if ctx.thorough else 5)]:
      e = t_mul(k % n, P, a, p)
      ctx.case(key=(v["name"], k, "mulP"))
      got = pt(call(c.Multiply, P, k))
      ctx.check(got == e, "Multiply(P, k) == kP", dict(curve=v["name"], P=P, k=k), obs(got), e)


@bounded("C11", "named_curves_special_operands",
         bound="9 prime-field curves x all pairs over {infinity, P, -P, 2P, 3P, Q, G, -G, (n-1)G} (P, Q random): Add, "
               "Subtract, AddJacobian (Z = 1 and random), Double, DoubleJacobian, Negate; every list of length <= 2 (quick) "
               "/ 3 (thorough) over {infinity, P, -P, 2P, Q} for BatchAdd, BatchAddX, BatchAddSubtractX, BatchAddList, "
               "BatchDouble, BatchJacobianToAffine, BatchJacobianToX, BatchInverse",
         functions=["ec_util.EcCurve.Add", "ec_util.EcCurve.Subtract", "ec_util.EcCurve.AddJacobian",
                    "ec_util.EcCurve.Double", "ec_util.EcCurve.DoubleJacobian", "ec_util.EcCurve.Negate",
                    "ec_util.EcCurve.BatchAdd", "ec_util.EcCurve.BatchAddX", "ec_util.EcCurve.BatchAddSubtractX",
                    "ec_util.EcCurve.BatchAddList", "ec_util.EcCurve.BatchDouble", "ec_util.EcCurve.BatchJacobianToAffine",
                    "ec_util.EcCurve.BatchJacobianToX", "ec_util.EcCurve.BatchInverse"])
def named_curves_special_operands(ctx):
  reseed(ctx)
  maxlen = 3 if ctx.thorough else 2
  for cid, c, v in named_prime_curves():
    n, a, p, G, nm = v["n"], v["a"], v["p"], v["G"], v["name"]
    P = t_mul(ctx.rnd.randrange(2, n), G, a, p)
    Q = t_mul(ctx.rnd.randrange(2, n), G, a, p)
    P2 = t_add(P, P, a, p)
    ops = [INF, P, t_neg(P, p), P2, t_add(P2, P, a, p), Q, G, t_neg(G, p), t_mul(n - 1, G, a, p)]
    for X in ops:
      ctx.case(key=(nm, "single", ops.index(X)))
      e2 = t_add(X, X, a, p)
      got = pt(call(c.Double, X))
      ctx.check(got == e2, "Double(X) == 2X", dict(curve=nm, P=X), obs(got), e2)
      got = pt(call(c.Negate, X))
      ctx.check(got == t_neg(X, p), "Negate(X) == -X", dict(curve=nm, P=X), obs(got), t_neg(X, p))
      for z in (1, ctx.rnd.randrange(2, p)):
        dj = call(c.DoubleJacobian, jac(X, z, p) if X != INF or z != 1 else (1, 1, 0))
        ctx.check(jac_to_aff(dj, p) == e2, "DoubleJacobian represents 2X", dict(curve=nm, P=X, z=z), obs(dj), e2)
      for Y in ops:
        ctx.case(key=(nm, "pair", ops.index(X), ops.index(Y)))
        e = t_add(X, Y, a, p)
        got = pt(call(c.Add, X, Y))
        ctx.check(got == e, "Add(X, Y) == X + Y", dict(curve=nm, P=X, Q=Y), obs(got), e)
        es = t_add(X, t_neg(Y, p), a, p)
        got = pt(call(c.Subtract, X, Y))
        ctx.check(got == es, "Subtract(X, Y) == X - Y", dict(curve=nm, P=X, Q=Y), obs(got), es)
        for z1, z2 in ((1, 1), (ctx.rnd.randrange(2, p), ctx.rnd.randrange(2, p)), (1, ctx.rnd.randrange(2, p))):
          s = call(c.AddJacobian, jac(X, z1, p), jac(Y, z2, p))
          got = pt(call(c.JacobianToAffine, s)) if not isinstance(s, Raised) else s
          ctx.check(got == e and jac_to_aff(s, p) == e, "AddJacobian represents X + Y",
                    dict(curve=nm, P=X, Q=Y, z1=z1, z2=z2), obs(s), e)
    pool = [INF, P, t_neg(P, p), P2, Q]
    for X in pool:
      for lst in _lists(pool, maxlen):
        ctx.case(key=(nm, "batch", pool.index(X), tuple(pool.index(y) for y in lst)))
        inp = dict(curve=nm, p=X, points=lst)
        e = [t_add(X, Y, a, p) for Y in lst]
        ed = [t_add(X, t_neg(Y, p), a, p) for Y in lst]
        got = pts(call(c.BatchAdd, X, list(lst)))
        ctx.check(got == e, "BatchAdd(p, points) == [p + q]", inp, obs(got), e)
        got = ints(call(c.BatchAddX, X, list(lst)))
        ctx.check(got == [t[0] for t in e], "BatchAddX(p, points) == [(p + q).x]", inp, obs(got), [t[0] for t in e])
        got = call(c.BatchAddSubtractX, X, list(lst))
        ok = (not isinstance(got, Raised) and ints(got[0]) == [t[0] for t in e] and ints(got[1]) == [t[0] for t in ed])
        ctx.check(ok, "BatchAddSubtractX(p, points) == ([(p + q).x], [(p - q).x])", inp, obs(got) if isinstance(got, Raised)
                  else [ints(got[0]), ints(got[1])], [[t[0] for t in e], [t[0] for t in ed]])
    for pl in _lists(pool, maxlen, 1):
      ctx.case(key=(nm, "list", tuple(pool.index(y) for y in pl)))
      e = [t_add(Y, Y, a, p) for Y in pl]
      got = pts(call(c.BatchDouble, list(pl)))
      ctx.check(got == e, "BatchDouble(ps) == [2p]", dict(curve=nm, p_list=pl), obs(got), e)
      zs = [ctx.rnd.randrange(1, p) for _ in pl]
      jl = [jac(Y, z, p) for Y, z in zip(pl, zs)]
      got = pts(call(c.BatchJacobianToAffine, list(jl)))
      ctx.check(got == pl, "BatchJacobianToAffine(js) == affine points", dict(curve=nm, p_list=jl), obs(got), pl)
      got = ints(call(c.BatchJacobianToX, list(jl)))
      ctx.check(got == [Y[0] for Y in pl], "BatchJacobianToX(js) == x-coordinates", dict(curve=nm, p_list=jl), obs(got),
                [Y[0] for Y in pl])
      vals = [ctx.rnd.choice((None, 0, z, p - 1, 1)) for z in zs]
      got = ints(call(c.BatchInverse, list(vals)))
      e = [pow(x, -1, p) if x else None for x in vals]
      ctx.check(got == e, "BatchInverse(values)", dict(curve=nm, values=vals), obs(got), e)
      for ql in _lists(pool, len(pl), len(pl)):
        e = [t_add(X, Y, a, p) for X, Y in zip(pl, ql)]
        got = pts(call(c.BatchAddList, list(pl), list(ql)))
        ctx.check(got == e, "BatchAddList(ps, qs) == [p + q]", dict(curve=nm, p_list=pl, q_list=ql), obs(got), e)


# ----------------------------------------------------------------------------------------------------------------------
# 6. ground: curve parameters
# ----------------------------------------------------------------------------------------------------------------------
_PRIME_CURVE_NAMES = ["secp192r1", "secp224r1", "secp256r1", "secp384r1", "secp521r1", "secp256k1", "brainpoolP256r1",
                      "brainpoolP384r1", "brainpoolP512r1"]
_PRIME_CURVE_IDS = {"secp192r1": "CURVE_SECP192R1", "secp224r1": "CURVE_SECP224R1", "secp256r1": "CURVE_SECP256R1",
                    "secp384r1": "CURVE_SECP384R1", "secp521r1": "CURVE_SECP521R1", "secp256k1": "CURVE_SECP256K1",
                    "brainpoolP256r1": "CURVE_BRAINPOOLP256R1", "brainpoolP384r1": "CURVE_BRAINPOOLP384R1",
                    "brainpoolP512r1": "CURVE_BRAINPOOLP512R1"}
_BINARY_CURVE_IDS = ["CURVE_SECT163K1", "CURVE_SECT233K1", "CURVE_SECT283K1", "CURVE_SECT409K1", "CURVE_SECT571K1",
                     "CURVE_SECT163R2", "CURVE_SECT233R1", "CURVE_SECT283R1", "CURVE_SECT409R1", "CURVE_SECT571R1"]


def _curve_params_ground(name):
  def fn():
    import math
    import gmpy2
    from pyvc import runtime
    runtime.install()
    from paranoid_crypto import paranoid_pb2
    from paranoid_crypto.lib import ec_util
    cid = getattr(paranoid_pb2.CurveType, _PRIME_CURVE_IDS[name])
    c = ec_util.CURVE_FACTORY.get(cid)
    if c is None or c.name != name:
      return False, "CURVE_FACTORY[%s] is %r" % (_PRIME_CURVE_IDS[name], None if c is None else c.name)
    p, n, a, b, G = int(c.mod), int(c.n), int(c.a), int(c.b), (int(c.g[0]), int(c.g[1]))
    facts = {}
    facts["mod probable prime (BPSW-free: 64 Miller-Rabin rounds)"] = p > 3 and bool(gmpy2.is_prime(p, 64))
    facts["n probable prime (64 Miller-Rabin rounds)"] = bool(gmpy2.is_prime(n, 64))
    facts["4a^3+27b^2 != 0 mod p"] = (4 * a ** 3 + 27 * b * b) % p != 0
    facts["0 <= gx, gy < p and G on curve"] = 0 <= G[0] < p and 0 <= G[1] < p and t_on_curve(G, a % p, b, p)
    facts["n*G == infinity (independent double-and-add)"] = t_mul(n, G, a % p, p) == INF
    facts["(n-1)*G == -G"] = t_mul(n - 1, G, a % p, p) == t_neg(G, p)
    dlt = n - (p + 1)
    facts["Hasse: (n-(p+1))^2 <= 4p"] = dlt * dlt <= 4 * p
    # any group order N is a multiple of ord(G) = n (n prime, nG = inf, G != inf) with N <= p+1+2sqrt(p) < 2n  =>  N == n
    u = 2 * n - (p + 1)
    facts["2n > p+1+2sqrt(p) (so #E == n)"] = u > 0 and u * u > 4 * p
    facts["h == 1"] = c.h == 1
    facts["0 <= b < p and -3 <= a < p"] = 0 <= b < p and -3 <= a < p
    bad = [k for k, ok in facts.items() if not ok]
    return (not bad), ("%s: %d facts ok" % (name, len(facts)) if not bad else "%s FAILED: %s" % (name, "; ".join(bad)))
  return fn


for _nm in _PRIME_CURVE_NAMES:
  ground("C11", "curve_params_" + _nm)(_curve_params_ground(_nm))


@ground("C11", "curve_factory_keys_and_binary_curves")
def _curve_factory_keys():
  from pyvc import runtime
  runtime.install()
  from paranoid_crypto import paranoid_pb2
  from paranoid_crypto.lib import ec_util
  f = ec_util.CURVE_FACTORY
  bin_ids = [getattr(paranoid_pb2.CurveType, k) for k in _BINARY_CURVE_IDS]
  prime_ids = [getattr(paranoid_pb2.CurveType, k) for k in _PRIME_CURVE_IDS.values()]
  ok = (all(i in f and f[i] is None for i in bin_ids) and all(f.get(i) is not None for i in prime_ids)
        and set(f.keys()) == set(bin_ids) | set(prime_ids) and len(set(bin_ids) | set(prime_ids)) == 19
        and paranoid_pb2.CurveType.CURVE_UNKNOWN not in f
        and sorted(c.name for c in f.values() if c is not None) == sorted(_PRIME_CURVE_NAMES))
  return ok, "10 binary-field ids -> None, 9 prime-field ids -> EcCurve with the expected names, no other keys"
