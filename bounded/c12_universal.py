"""C12, bounded tier: Maurer's universal test against a transcription of NIST SP 800-22 section 2.9.4 (table T zero
initialised, 1-based block numbers: a pattern that is absent from the initialisation segment has T == 0, so its first
distance is its own 1-based block number).  Labelled bounded, never counted as proved."""
import math

from pyvc.registry import bounded
from bounded.c12 import _mods, _rng, _desc, _fail, _check, _call


def _nist_universal(bits, n, L, Q, table):
  """p-value of 2.9.4 with the expectedValue / variance table passed in (the table itself is a ground check)."""
  nb = n // L
  K = nb - Q
  mask = (1 << L) - 1
  block = lambda i: (bits >> ((i - 1) * L)) & mask       # i = 1..nb; bit order inside a block is immaterial
  T = [0] * (1 << L)
  for i in range(1, Q + 1):
    T[block(i)] = i
  s = 0.0
  for i in range(Q + 1, Q + K + 1):
    b = block(i)
    s += math.log2(i - T[b])
    T[b] = i
  fn = s / K
  mean, var = table[L]
  c = 0.7 - 0.8 / L + (4 + 32 / L) * K ** (-3 / L) / 15
  sigma = c * math.sqrt(var / K)
  return math.erfc(abs(fn - mean) / (math.sqrt(2) * sigma)), fn


def _with_absent_patterns(rnd, L, Q, K, absent):
  """Q + K random blocks in which the patterns of `absent` occur only behind the initialisation segment."""
  allowed = [b for b in range(1 << L) if b not in absent]
  blocks = [rnd.choice(allowed) for _ in range(Q)] + [rnd.randrange(1 << L) for _ in range(K)]
  for j, b in enumerate(sorted(absent)):          # make sure each absent pattern does occur in the test segment
    blocks[Q + (j * 7919) % K] = b
  bits = 0
  for i, b in enumerate(blocks):
    bits |= b << (i * L)
  return bits, len(blocks) * L


@bounded("C12", "universal_statistic_reference",
         bound="UniversalImpl with (L, Q) in {(2, 4), (3, 8), (3, 30), (4, 16), (6, 640)} x K in {50, 1000} x 0, 1, half of "
               "the patterns absent from the initialisation segment x 2 (quick) / 6 (thorough) seeded strings, plus trailing "
               "bits n % L != 0; Universal (L = 6, Q = 640) on 387840 / 400003 bits with 0, 1, 32 absent patterns: p-value == "
               "NIST 2.9.4 transcription (1e-9 relative + 1e-12); the expected value / variance table is the ground check "
               "universal_table",
         functions=["nist_suite.UniversalImpl", "nist_suite.Universal", "nist_suite.UniversalDistribution",
                    "util.SplitSequence"])
def universal_reference(ctx):
  ns, _, _ = _mods()
  from bounded.c12 import _assigned_values
  table = _assigned_values(ns, "UniversalDistribution", "distribution_table")[0]
  rnd = _rng(ctx, "universal_reference")
  reps = 6 if ctx.thorough else 2
  for L, Q in ((2, 4), (3, 8), (3, 30), (4, 16), (6, 640)):
    for K in (50, 1000):
      for n_absent in (0, 1, (1 << L) // 2):
        for rep in range(reps):
          absent = set(rnd.sample(range(1 << L), n_absent))
          bits, n = _with_absent_patterns(rnd, L, Q, K, absent)
          extra = rnd.randrange(L) if rep % 2 else 0
          if extra:
            bits |= rnd.getrandbits(extra) << n
            n += extra
          exp, fn = _nist_universal(bits, n, L, Q, table)
          status, got = _call(ns, ns.UniversalImpl, bits, n, L, Q)
          ctx.case(key=(L, Q, K, n_absent, bool(extra)))
          info = dict(test="UniversalImpl", statistic="universal", n=n, bits=_desc(bits, n), args=[L, Q],
                      absent_from_init_segment=n_absent)
          if status != "ok":
            _fail(ctx, "UniversalImpl returns a p-value", info, observed=repr(got)[:200])
            continue
          _check(ctx, abs(got - exp) <= 1e-12 + 1e-9 * abs(exp),
                 "UniversalImpl p-value == erfc(|fn - expectedValue| / (sqrt(2) sigma)) of NIST 2.9.4 (T zero-initialised, "
                 "1-based block numbers)", info, got, exp)
  for n in (387840, 400003):
    for n_absent in (0, 1, 32):
      for rep in range(1 if not ctx.thorough else 3):
        L, Q = 6, 640
        K = n // L - Q
        absent = set(rnd.sample(range(64), n_absent))
        bits, n0 = _with_absent_patterns(rnd, L, Q, K, absent)
        if n > n0:
          bits |= rnd.getrandbits(n - n0) << n0
        exp, fn = _nist_universal(bits, n, L, Q, table)
        status, got = _call(ns, ns.Universal, bits, n)
        ctx.case(key=("Universal", n, n_absent))
        info = dict(test="Universal", statistic="universal", n=n, bits=_desc(bits, n), absent_from_init_segment=n_absent)
        if status != "ok":
          _fail(ctx, "Universal returns a p-value", info, observed=repr(got)[:200])
          continue
        _check(ctx, abs(got - exp) <= 1e-12 + 1e-9 * abs(exp),
               "Universal p-value == NIST 2.9.4 with L = 6, Q = 640", info, got, exp)
