"""C16 bounded stand-in: DISTINCT artifacts that carry the SAME key (a key taken from two certificates) - every one of
them must get exactly one entry per applicable check, with the same verdict.  Added after seeded change C16-6
(CheckWeakECPrivateKey de-duplicated its batch through a dict keyed by the public point: only the last twin was judged)."""
from pyvc.registry import bounded


@bounded("C16", "duplicate_artifacts_each_get_every_entry",
         bound="EC: CheckValidECKey, CheckWeakCurve, CheckWeakECPrivateKey, CheckECKeySmallDifference(max_diff=2^12) on batches "
               "with 2 and 3 copies (distinct protobufs) of a weak key (d = 0x1234 << 16) and of a healthy key, alone and mixed "
               "with other keys, on secp256r1 and secp256k1; RSA: the 13 cheap checks on 2 copies of a close-prime key and a "
               "healthy key: exactly one entry per check on EVERY artifact, twins carry identical verdicts",
         functions=["ec_single_checks.*.Check", "ec_aggregate_checks.CheckECKeySmallDifference.Check",
                    "rsa_single_checks.*.Check", "rsa_aggregate_checks.*.Check"])
def duplicates(ctx):
  from bounded import c16
  pb = c16._lib()
  from paranoid_crypto.lib import ec_aggregate_checks, ec_single_checks, rsa_aggregate_checks as ra, rsa_single_checks as rs
  rnd = c16._rnd(ctx, "dups")
  CT = pb.CurveType
  for cname, ct in (("SECP256R1", CT.CURVE_SECP256R1), ("SECP256K1", CT.CURVE_SECP256K1)):
    weak = c16._pub(cname, 0x1234 << 16)
    healthy = c16._pub(cname, rnd.getrandbits(250) | (1 << 249))
    other = c16._pub(cname, rnd.getrandbits(250) | (1 << 248))
    batches = {"weak_x2": [weak, weak], "weak_x3": [weak, weak, weak], "healthy_x2": [healthy, healthy],
               "mixed": [weak, healthy, weak, other, healthy]}
    for bname, pts in batches.items():
      checks = [ec_single_checks.CheckValidECKey(), ec_single_checks.CheckWeakCurve(), ec_single_checks.CheckWeakECPrivateKey(),
                ec_aggregate_checks.CheckECKeySmallDifference(max_diff=1 << 12)]
      keys = [c16._ec_key(pb, ct, x, y) for x, y in pts]
      for chk in checks:
        chk.Check(keys)
      ctx.case(key=(cname, bname))
      inputs = dict(curve=cname, batch=bname)
      for i, k in enumerate(keys):
        names = sorted(e.test_name for e in k.test_info.test_results)
        ctx.check(names == sorted(c.check_name for c in checks), "every artifact carries exactly one entry per check",
                  dict(inputs, index=i), observed=names, expected=sorted(c.check_name for c in checks))
      for i, pi in enumerate(pts):
        for j, pj in enumerate(pts):
          if i < j and pi == pj:
            vi = sorted((e.test_name, e.result, e.severity) for e in keys[i].test_info.test_results)
            vj = sorted((e.test_name, e.result, e.severity) for e in keys[j].test_info.test_results)
            ctx.check(vi == vj and keys[i].test_info.weak == keys[j].test_info.weak,
                      "artifacts with the same key carry the same verdicts", dict(inputs, pair=[i, j]), observed=[vi, vj])
      if "weak" in bname or bname == "mixed":
        for i, pt in enumerate(pts):
          if pt == weak:
            e = [t for t in keys[i].test_info.test_results if t.test_name == "CheckWeakECPrivateKey"]
            ctx.check(bool(e) and e[0].result, "every copy of the weak key is flagged by CheckWeakECPrivateKey",
                      dict(inputs, index=i), observed=[(t.test_name, t.result) for t in keys[i].test_info.test_results])
  # RSA twins
  p = c16._next_prime(rnd.getrandbits(512) | (1 << 511) | (1 << 510))
  q = c16._next_prime(p + 2 ** 20) if hasattr(c16, "_next_prime") else None
  p2, q2 = c16._next_prime(rnd.getrandbits(512) | (3 << 510)), c16._next_prime(rnd.getrandbits(512) | (3 << 510))
  classes = [rs.CheckSizes, rs.CheckExponents, rs.CheckROCA, rs.CheckROCAVariant, rs.CheckFermat, rs.CheckHighAndLowBitsEqual,
             rs.CheckContinuedFractions, rs.CheckBitPatterns, rs.CheckPermutedBitPatterns, rs.CheckSmallUpperDifferences,
             ra.CheckGCD, ra.CheckGCDN1, rs.CheckOpensslDenylist]
  moduli = [p * q, p2 * q2, p * q, p2 * q2]
  keys = [c16._rsa_key(pb, n) for n in moduli]
  for cls in classes:
    cls().Check(keys)
  ctx.case(key=("rsa", "twins"))
  for i, k in enumerate(keys):
    names = sorted(e.test_name for e in k.test_info.test_results)
    ctx.check(names == sorted(c.__name__ for c in classes), "every RSA artifact carries exactly one entry per check",
              dict(batch="rsa_twins", index=i), observed=names)
  for i, j in ((0, 2), (1, 3)):
    vi = sorted((e.test_name, e.result, e.severity) for e in keys[i].test_info.test_results)
    vj = sorted((e.test_name, e.result, e.severity) for e in keys[j].test_info.test_results)
    ctx.check(vi == vj, "RSA artifacts with the same modulus carry the same verdicts", dict(batch="rsa_twins", pair=[i, j]),
              observed=[vi, vj])
