"""C11 bounded stand-in, non-canonical representatives: the field elements x and x + k*p are the same coordinate, and the
library is handed such integers (coordinates of unvalidated keys are arbitrary non-negative integers, differences such
as y - p or -y appear in callers).  Every point operation must return the same POINT whichever integers represent the
operands.  Oracle: bounded/c11.py (textbook law on the canonical representatives)."""
from pyvc.registry import bounded

from bounded.c11 import small_curves, pt, call, obs, jac_to_aff, pts, ints, reseed, Raised

SHIFTS = [(0, -1), (1, 0), (-1, 1), (2, 3)]


def reps(P, p):
  """Non-canonical integer representatives of the affine point P (same residues mod p)."""
  return [(P[0] + sx * p, P[1] + sy * p) for sx, sy in SHIFTS]


def canon(P, p):
  P = pt(P)
  if isinstance(P, Raised) or P is None or P[0] is None:
    return P
  return (P[0] % p, P[1] % p)


@bounded("C11", "noncanonical_representatives",
         bound="2 small prime-order curves (F_97 a = -3, F_251 generic a): every ordered pair of finite points, 4 "
               "non-canonical representatives (coordinates shifted by multiples of p, negative values) on either side: "
               "Add, Subtract, AddJacobian (Z = 1 and Z = 2), Double, DoubleJacobian, Negate; PointSequence(P', 5), "
               "PointTable(P', 7), Multiply(P', k) for k in [-3, 6], BatchAdd / BatchAddX / BatchAddList / "
               "BatchAddSubtractX with mixed representatives; results compared as field elements (mod p)",
         functions=["ec_util.EcCurve.Add", "ec_util.EcCurve.Subtract", "ec_util.EcCurve.AddJacobian",
                    "ec_util.EcCurve.Double", "ec_util.EcCurve.DoubleJacobian", "ec_util.EcCurve.Negate",
                    "ec_util.EcCurve.PointSequence", "ec_util.EcCurve.PointTable", "ec_util.EcCurve.Multiply",
                    "ec_util.EcCurve.BatchAdd", "ec_util.EcCurve.BatchAddX", "ec_util.EcCurve.BatchAddList",
                    "ec_util.EcCurve.BatchAddSubtractX"],
         exhaustive=True)
def noncanonical_representatives(ctx):
  reseed(ctx)
  for sc in small_curves(2):
    c = sc.lib()
    p, d = sc.p, sc.desc()
    finite = sc.pts[1:]
    step = 1 if (ctx.thorough or sc.q < 128) else 3
    sel = finite[ctx.seed % step::step]
    for i, P in enumerate(sel):
      for P2 in reps(P, p):
        inp = dict(curve=d, P=P2)
        ctx.case(key=(p, "single"))
        got = canon(call(c.Double, P2), p)
        ctx.check(got == sc.mul(2, P), "Double(P') == 2P", inp, obs(got), sc.mul(2, P))
        got = canon(call(c.Negate, P2), p)
        ctx.check(got == sc.neg(P), "Negate(P') == -P", inp, obs(got), sc.neg(P))
        dj = call(c.DoubleJacobian, (P2[0], P2[1], 1))
        ctx.check(jac_to_aff(dj, p) == sc.mul(2, P), "DoubleJacobian(P', 1) represents 2P", inp, obs(dj), sc.mul(2, P))
        seq = call(c.PointSequence, P2, 5)
        exp = [sc.mul(k, P) for k in range(5)]
        got = seq if isinstance(seq, Raised) else [canon(X, p) for X in seq]
        ctx.check(got == exp, "PointSequence(P', 5) == [kP]", inp, obs(got), exp)
        tab = call(c.PointTable, P2, 7)
        if isinstance(tab, Raised):
          ctx.fail("PointTable(P', 7) raised", inp, obs(tab))
        else:
          expt = {}
          for k in range(7):
            expt[sc.mul(k, P)[0]] = k
          gott = {(None if x is None else int(x) % p): int(v) for x, v in tab.items()}
          # indices >= 7 may be present as well (the table is allowed to be larger); every k < 7 must be found
          ok = all(k in [v for x, v in gott.items() if x == sc.mul(k, P)[0]] or
                   sc.mul(k, P)[0] in gott and sc.mul(gott[sc.mul(k, P)[0]], P)[0] == sc.mul(k, P)[0] for k in range(7))
          ctx.check(ok, "PointTable(P', 7) maps x(kP) to an index of that x for every k < 7", inp, gott, expt)
        for k in range(-3, 7):
          got = canon(call(c.Multiply, P2, k), p)
          ctx.check(got == sc.mul(k, P), "Multiply(P', k) == kP", dict(curve=d, P=P2, k=k), obs(got), sc.mul(k, P))
    pairs = [(P, Q) for P in sel for Q in sel]
    if not ctx.thorough and len(pairs) > 4000:
      pairs = [pairs[k] for k in sorted(ctx.rnd.sample(range(len(pairs)), 4000))] + [(P, P) for P in sel] + \
              [(P, sc.neg(P)) for P in sel]
    for P, Q in pairs:
      exp = sc.add(P, Q)
      exps = sc.add(P, sc.neg(Q))
      rp, rq = reps(P, p), reps(Q, p)
      for a_i in range(len(SHIFTS)):
        P2, Q2 = rp[a_i], rq[(a_i + 1) % len(SHIFTS)]
        inp = dict(curve=d, P=P2, Q=Q2)
        ctx.case(key=(p, "pair", P == Q, exp[0] is None))
        got = canon(call(c.Add, P2, Q), p)
        ctx.check(got == exp, "Add(P', Q) == P + Q", dict(curve=d, P=P2, Q=Q), obs(got), exp)
        got = canon(call(c.Add, P2, Q2), p)
        ctx.check(got == exp, "Add(P', Q') == P + Q", inp, obs(got), exp)
        got = canon(call(c.Subtract, P2, Q2), p)
        ctx.check(got == exps, "Subtract(P', Q') == P - Q", inp, obs(got), exps)
        for z1, z2 in ((1, 1), (1, 2), (2, 1)):
          JP = (P2[0] * z1 * z1, P2[1] * z1 ** 3, z1)
          JQ = (Q2[0] * z2 * z2, Q2[1] * z2 ** 3, z2)
          s = call(c.AddJacobian, JP, JQ)
          ctx.check(jac_to_aff(s, p) == exp, "AddJacobian(JP', JQ') represents P + Q", dict(curve=d, JP=JP, JQ=JQ),
                    obs(s), exp)
      # batched variants with mixed representatives in one list
      lst = [rq[0], Q, rq[1], rq[2]]
      explist = [exp] * 4
      got = call(c.BatchAdd, rp[1], lst)
      got = got if isinstance(got, Raised) else [canon(X, p) for X in got]
      ctx.check(got == explist, "BatchAdd(P', [Q'...]) == [P + Q]", dict(curve=d, P=rp[1], Qs=lst), obs(got), explist)
      got = call(c.BatchAddX, rp[2], lst)
      got = got if isinstance(got, Raised) else [None if v is None else int(v) % p for v in got]
      ctx.check(got == [exp[0]] * 4, "BatchAddX(P', [Q'...]) == [x(P + Q)]", dict(curve=d, P=rp[2], Qs=lst), obs(got),
                [exp[0]] * 4)
      got = call(c.BatchAddList, [rp[0], P, rp[3]], [Q, rq[1], rq[3]])
      got = got if isinstance(got, Raised) else [canon(X, p) for X in got]
      ctx.check(got == [exp] * 3, "BatchAddList([P'...], [Q'...]) == [P + Q]", dict(curve=d, P=P, Q=Q), obs(got), [exp] * 3)
      got = call(c.BatchAddSubtractX, rp[3], lst)
      if isinstance(got, Raised):
        ctx.fail("BatchAddSubtractX raised", dict(curve=d, P=rp[3], Qs=lst), obs(got))
      else:
        ga = [None if v is None else int(v) % p for v in got[0]]
        gs = [None if v is None else int(v) % p for v in got[1]]
        ctx.check(ga == [exp[0]] * 4 and gs == [exps[0]] * 4, "BatchAddSubtractX(P', [Q'...]) == ([x(P+Q)], [x(P-Q)])",
                  dict(curve=d, P=rp[3], Qs=lst), [ga, gs], [[exp[0]] * 4, [exps[0]] * 4])
