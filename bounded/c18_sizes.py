"""C18 bounded stand-in: RSA checks on a ladder of modulus BIT LENGTHS around every size gate of the helpers
(bit_length < 6, prime_size < 384, n % 8 != 1, 2048, odd / even lengths): one semiprime and one prime per length, each
check alone.  Added after seeded change C18-4 (CheckSmallUpperDifferences gate compared against the modulus length:
TypeError for 384..511-bit moduli), which the fixed list of degenerate moduli of rsa_individual_checks_total missed."""
from pyvc.registry import bounded

LENGTHS = [64, 65, 66, 96, 127, 128, 129, 191, 192, 193, 255, 256, 257, 300, 383, 384, 385, 400, 448, 480, 510, 511, 512,
           513, 600, 700, 766, 767, 768, 769, 770, 800, 1000, 1023, 1024, 1025, 1535, 1536, 1537, 2047, 2048, 2049]


@bounded("C18", "rsa_checks_total_on_every_size_gate",
         bound="13 cheap RSA checks x %d modulus bit lengths (64 ... 2049, both sides of 384 / 512 / 768 / 1024 / 2048) x "
               "{semiprime of two equal-size primes, semiprime n %% 8 == 1, prime}; thorough: + CheckUnseededRand, "
               "CheckKeypairDenylist" % len(LENGTHS),
         functions=["rsa_single_checks.*.Check", "rsa_aggregate_checks.*.Check", "rsa_util.CheckSmallUpperDifferences",
                    "rsa_util.FactorHighAndLowBitsEqual", "rsa_util.CheckContinuedFraction", "rsa_util.FermatFactor"])
def sizes(ctx):
  from bounded import c18
  pb = c18._lib()
  import gmpy2
  from paranoid_crypto.lib import rsa_aggregate_checks as ra, rsa_single_checks as rs
  rnd = c18._rnd(ctx, "sizes")
  classes = [rs.CheckSizes, rs.CheckExponents, rs.CheckROCA, rs.CheckROCAVariant, rs.CheckFermat,
             rs.CheckHighAndLowBitsEqual, rs.CheckContinuedFractions, rs.CheckBitPatterns, rs.CheckPermutedBitPatterns,
             rs.CheckSmallUpperDifferences, ra.CheckGCD, ra.CheckGCDN1, rs.CheckOpensslDenylist]
  if ctx.thorough:
    classes += [rs.CheckUnseededRand, rs.CheckKeypairDenylist]
  checks = [cls() for cls in classes]

  def semiprime(bits, want_mod8=None):
    for _ in range(400):
      p = int(gmpy2.next_prime(rnd.getrandbits(bits // 2) | (1 << (bits // 2 - 1)) | (1 << (bits // 2 - 2))))
      q = int(gmpy2.next_prime(rnd.getrandbits(bits - bits // 2) | (1 << (bits - bits // 2 - 1)) | (1 << (bits - bits // 2 - 2))))
      n = p * q
      if n.bit_length() == bits and (want_mod8 is None or n % 8 == want_mod8):
        return n
    return None
  for bits in LENGTHS:
    cands = [("semiprime", semiprime(bits)), ("semiprime_1_mod_8", semiprime(bits, 1)),
             ("prime", int(gmpy2.next_prime((1 << (bits - 1)) + rnd.getrandbits(bits - 2))))]
    for kind, n in cands:
      if n is None or n.bit_length() != bits:
        continue
      for chk in checks:
        name = type(chk).__name__
        if name == "CheckFermat" and not ctx.thorough and kind != "semiprime":
          continue
        arts = [c18._rsa_key(pb, n)]
        ctx.case(key=(name, bits, kind))
        c18._total(ctx, lambda: chk.Check(arts), f"{name}.Check returns a bool without raising",
                   dict(check=name, bit_length=bits, kind=kind, modulus=hex(n)))
