"""C05 bounded stand-in: seeded members of each documented weak-prime family are flagged / factored.

SAMPLED, not exhaustive: a few seeded keys per family and parameter.  The oracle is the construction itself (the
planted primes are known), primes come from gmpy2.is_prime / next_prime.
"""
import math

from pyvc.registry import bounded, ground


def _rnd(ctx, tag):
  """Seeded generator that depends only on VERIF_SEED (ctx.rnd mixes in hash(name), which varies per process)."""
  import random
  return random.Random(f"{ctx.seed}/c05/{tag}")


_DEFAULT_PATTERN_SIZES = list(range(1, 16, 2)) + [31, 63, 127, 255, 511] + [8, 16, 32, 64, 128, 256]  # property text


def _rand_prime(rnd, bits):
  import gmpy2
  while True:
    c = rnd.getrandbits(bits) | (3 << (bits - 2)) | 1
    p = int(gmpy2.next_prime(c))
    if p.bit_length() == bits:
      return p


def _repeat_word(word, w, bits):
  """The `bits`-bit integer whose binary expansion is the w-bit word repeated from the top (last copy truncated)."""
  s = format(word, "0%db" % w)
  assert len(s) == w
  reps = (bits + w - 1) // w
  return int((s * reps)[:bits], 2)


def _patterned_prime(rnd, w, bits, dev_bits):
  """Prime that repeats a seeded w-bit word (top bit set) except for its dev_bits low-order bits."""
  import gmpy2
  for _ in range(200):
    word = rnd.getrandbits(w) | (1 << (w - 1))
    base = (_repeat_word(word, w, bits) >> dev_bits) << dev_bits
    if dev_bits <= 10:
      cands = list(range(1, 1 << dev_bits, 2))
      rnd.shuffle(cands)
    else:
      cands = (rnd.getrandbits(dev_bits) | 1 for _ in range(3000))
    for x in cands:
      p = base | x
      if gmpy2.is_prime(p):
        return int(p), word
  return None, None  # no family member (tiny w and tiny deviation: the candidate set is finite)


@bounded("C05", "bit_pattern_prime_factored",
         bound="SAMPLED (not exhaustive): 1024-bit moduli (thorough also 2048-bit); for every w of the default pattern "
               "list with w <= L/16 and every deviation size t in {8, 16, 24, 32} low-order bits: 3 (quick) / 8 "
               "(thorough) seeded keys n = p*q, p = w-bit word repeated except its t low bits, q seeded random prime; "
               "CheckFraction(n, 2^w - 1) must return {p, q}; CheckBitPatterns().Check must flag the key with "
               "N_FACTORS == {p, q}",
         functions=["rsa_util.CheckFraction", "rsa_single_checks.CheckBitPatterns.Check", "lll.reduce"])
def bit_patterns(ctx):
  from pyvc import runtime
  runtime.install()
  import gmpy2
  from paranoid_crypto import paranoid_pb2
  from paranoid_crypto.lib import rsa_single_checks, rsa_util, util
  rnd = _rnd(ctx, "bitpatterns")
  chk = rsa_single_checks.CheckBitPatterns()
  per = 8 if ctx.thorough else 3
  stats = {}
  for mod_bits in ((1024, 2048) if ctx.thorough else (1024,)):
    pbits = mod_bits // 2
    for w in sorted(_DEFAULT_PATTERN_SIZES):
      if w > mod_bits // 16:
        continue
      for dev in (8, 16, 24, 32):
        for trial in range(per):
          p, word = _patterned_prime(rnd, w, pbits, dev)
          if p is None:
            continue
          q = _rand_prime(rnd, pbits)
          n = p * q
          inputs = dict(family="bit_pattern", modulus_bits=n.bit_length(), word_bits=w, word=word,
                        deviation_bits=dev, trial=trial, p=p, q=q, n=n)
          ctx.case(key=(mod_bits, w, dev, trial), sample=dict(word_bits=w, deviation_bits=dev, p=hex(p)))
          got = rsa_util.CheckFraction(gmpy2.mpz(n), 2 ** w - 1)
          ok = sorted(int(x) for x in got) == sorted((p, q))
          stats.setdefault((mod_bits, w), [0, 0])
          stats[(mod_bits, w)][1] += 1
          stats[(mod_bits, w)][0] += 0 if ok else 1
          ctx.check(ok, "CheckFraction(n, 2^w - 1) factors n when one prime repeats a w-bit word apart from <= 32 low "
                        "bits", inputs, observed=[int(x) for x in got], expected=sorted((p, q)))
          if trial == 0:
            key = paranoid_pb2.RSAKey()
            key.rsa_info.n = util.Int2Bytes(n)
            ret = chk.Check([key])
            facs = util.GetAttachedFactors(key.test_info, "N_FACTORS")
            res = [e for e in key.test_info.test_results if e.test_name == "CheckBitPatterns"]
            ctx.check(bool(ret) and len(res) == 1 and res[0].result and key.test_info.weak and facs == {p, q},
                      "CheckBitPatterns (default list) flags the key and records {p, q}",
                      dict(inputs, via="CheckBitPatterns.Check"), observed=sorted(facs) if facs else None,
                      expected=sorted((p, q)))
  ctx.notes.append("misses per (modulus bits, w): " + ", ".join(f"{k}: {v[0]}/{v[1]}" for k, v in stats.items() if v[0]))


@bounded("C05", "both_primes_patterned_flagged",
         bound="SAMPLED (not exhaustive): 1024-bit moduli (thorough also 2048-bit), both primes = next_prime of a "
               "repeated seeded word of w1, w2 bits, (w1, w2) over {3, 7, 8, 12, 16, 24, 31, 32, 48, 63, 64}^2 on the "
               "diagonal and seeded off-diagonal pairs: 2 (quick) / 4 (thorough) keys each; "
               "CheckContinuedFraction(n, 2^48) must flag (ok == False); any factors returned must be {p, q}",
         functions=["rsa_util.CheckContinuedFraction", "ntheory_util.ContinuedFraction", "ntheory_util.DivmodRounded"])
def continued_fraction(ctx):
  from pyvc import runtime
  runtime.install()
  import gmpy2
  from paranoid_crypto.lib import rsa_util
  rnd = _rnd(ctx, "contfrac")
  words = [3, 7, 8, 12, 16, 24, 31, 32, 48, 63, 64]
  pairs = [(w, w) for w in words]
  for _ in range(20 if ctx.thorough else 8):
    pairs.append((rnd.choice(words), rnd.choice(words)))
  per = 4 if ctx.thorough else 2
  factored = total = 0
  for mod_bits in ((1024, 2048) if ctx.thorough else (1024,)):
    pbits = mod_bits // 2
    for w1, w2 in pairs:
      for trial in range(per):
        primes = []
        for w in (w1, w2):
          while True:
            word = rnd.getrandbits(w) | (1 << (w - 1))
            p = int(gmpy2.next_prime(_repeat_word(word, w, pbits)))
            if p.bit_length() == pbits and p not in primes:
              primes.append(p)
              break
        p, q = primes
        n = p * q
        inputs = dict(family="both_primes_patterned", modulus_bits=n.bit_length(), word_bits=[w1, w2], trial=trial,
                      p=p, q=q, n=n)
        ctx.case(key=(mod_bits, w1, w2, trial), sample=dict(word_bits=[w1, w2], p=hex(p), q=hex(q)))
        ok, factors = rsa_util.CheckContinuedFraction(gmpy2.mpz(n), 2 ** 48)
        total += 1
        factored += bool(factors)
        ctx.check(not ok, "CheckContinuedFraction(n, 2^48) flags n when both primes repeat words of <= 64 bits",
                  inputs, observed=dict(ok=bool(ok), factors=[int(x) for x in factors]), expected="ok == False")
        ctx.check(not factors or sorted(int(x) for x in factors) == sorted((p, q)),
                  "factors returned by CheckContinuedFraction are the true primes", inputs,
                  observed=[int(x) for x in factors], expected=sorted((p, q)))
  ctx.notes.append(f"factored {factored} of {total} flagged-family keys")


def _low_weight_prime(rnd, bits, weight):
  import gmpy2
  while True:
    pos = rnd.sample(range(1, bits - 1), weight - 2)
    p = (1 << (bits - 1)) | 1
    for i in pos:
      p |= 1 << i
    if gmpy2.is_prime(p):
      return p


@bounded("C05", "low_hamming_weight_flagged",
         bound="SAMPLED (not exhaustive), thorough tier only: 1024-bit moduli, both primes seeded with Hamming weight "
               "(h1, h2) in {(8,8), (16,16), (24,24), (32,32), (8,32), (16,32), (28,32)} x 3 keys; "
               "CheckLowHammingWeight(n) must flag (weak == True); any factors returned must be {p, q}",
         functions=["rsa_util.CheckLowHammingWeight"], tier="thorough")
def low_hamming_weight(ctx):
  from pyvc import runtime
  runtime.install()
  import gmpy2
  from paranoid_crypto.lib import rsa_util
  rnd = _rnd(ctx, "lowhw")
  factored = total = 0
  for h1, h2 in ((8, 8), (16, 16), (24, 24), (32, 32), (8, 32), (16, 32), (28, 32)):
    for trial in range(3):
      p = _low_weight_prime(rnd, 512, h1)
      q = _low_weight_prime(rnd, 512, h2)
      if p == q:
        continue
      n = p * q
      inputs = dict(family="low_hamming_weight", modulus_bits=n.bit_length(), weights=[h1, h2], trial=trial, p=p, q=q,
                    n=n)
      ctx.case(key=(h1, h2, trial), sample=dict(weights=[h1, h2], p=hex(p), q=hex(q)))
      weak, factors = rsa_util.CheckLowHammingWeight(gmpy2.mpz(n))
      total += 1
      factored += bool(factors)
      ctx.check(bool(weak), "CheckLowHammingWeight flags n when both primes have Hamming weight <= 32", inputs,
                observed=dict(weak=bool(weak), factors=[int(x) for x in factors]), expected="weak == True")
      ctx.check(not factors or sorted(int(x) for x in factors) == sorted((p, q)),
                "factors returned by CheckLowHammingWeight are the true primes", inputs,
                observed=[int(x) for x in factors], expected=sorted((p, q)))
  ctx.notes.append(f"factored {factored} of {total}")


def _sieve(limit):
  """Independent sieve of Eratosthenes on a bytearray: all primes < limit."""
  flags = bytearray([1]) * limit
  flags[0:2] = b"\x00\x00"
  for i in range(2, math.isqrt(limit - 1) + 1):
    if flags[i]:
      flags[i * i::i] = bytearray(len(range(i * i, limit, i)))
  return [i for i in range(limit) if flags[i]]


def _smooth_prime(rnd, small_primes, shared, bits, fully_smooth):
  """Prime p of ~bits bits with shared | p-1; p-1 square-free 2^20-smooth apart from 2 (fully_smooth) or with one big
  random cofactor."""
  import gmpy2
  while True:
    m = 2 * shared
    if fully_smooth:
      used = set()
      while m.bit_length() < bits - 20:
        r = rnd.choice(small_primes)
        if r in used or shared % r == 0 or r == 2:
          continue
        used.add(r)
        m *= r
      # finish with one more small prime making m+1 prime with the right size
      for r in small_primes[::-1]:
        if r in used or shared % r == 0:
          continue
        c = m * r + 1
        if c.bit_length() == bits and gmpy2.is_prime(c):
          return int(c)
    else:
      k = rnd.getrandbits(bits - m.bit_length()) | (1 << (bits - m.bit_length() - 1))
      for d in range(2000):
        c = m * (k + d) + 1
        if c.bit_length() == bits and gmpy2.is_prime(c):
          # cofactor must not be accidentally smooth: it has a prime factor > 2^20 with overwhelming probability
          return int(c)


@bounded("C05", "pollard_pm1_smooth_prime_factored",
         bound="SAMPLED (not exhaustive), thorough tier only: 1024-bit moduli n = p*q, p-1 = 2*g*(square-free product "
               "of primes < 2^20), q-1 = 2*g*(random cofactor), g = seeded product of 4 primes in (2^16, 2^20) "
               "(>= 2^64): 4 keys must be factored by Pollardpm1(n, default m of CheckPollardpm1()); 2 keys with both "
               "p-1 and q-1 smooth must be flagged (weak == True)",
         functions=["rsa_util.Pollardpm1", "rsa_single_checks.CheckPollardpm1.__init__", "ntheory_util.Sieve",
                    "ntheory_util.FastProduct"], tier="thorough")
def pollard(ctx):
  from pyvc import runtime
  runtime.install()
  import gmpy2
  from paranoid_crypto.lib import rsa_single_checks, rsa_util
  rnd = _rnd(ctx, "pollard")
  m = rsa_single_checks.CheckPollardpm1()._m  # pylint: disable=protected-access
  primes = _sieve(1 << 20)
  large = [r for r in primes if r > (1 << 16)]
  for trial in range(6):
    both_smooth = trial >= 4
    shared = 1
    for r in rnd.sample(large, 4):
      shared *= r
    p = _smooth_prime(rnd, primes, shared, 512, True)
    q = _smooth_prime(rnd, primes, shared, 512, both_smooth)
    if p == q:
      continue
    n = p * q
    inputs = dict(family="pollard_pm1", modulus_bits=n.bit_length(), both_smooth=both_smooth, shared=shared,
                  shared_bits=shared.bit_length(), trial=trial, p=p, q=q, n=n)
    ctx.case(key=(both_smooth, trial), sample=dict(both_smooth=both_smooth, p=hex(p), q=hex(q)))
    weak, factors = rsa_util.Pollardpm1(gmpy2.mpz(n), m)
    ctx.check(bool(weak), "Pollardpm1 flags n when p-1, q-1 share a smooth factor >= 2^60 and p-1 is smooth", inputs,
              observed=dict(weak=bool(weak), factors=[int(x) for x in factors]), expected="weak == True")
    if not both_smooth:
      ctx.check(sorted(int(x) for x in factors) == sorted((p, q)),
                "Pollardpm1 factors n when exactly one of p-1, q-1 is smooth", inputs,
                observed=[int(x) for x in factors], expected=sorted((p, q)))
    else:
      ctx.check(not factors or sorted(int(x) for x in factors) == sorted((p, q)),
                "factors returned by Pollardpm1 are the true primes", inputs, observed=[int(x) for x in factors])


@ground("C05", "pollard_default_product")
def pollard_default_product():
  from pyvc import runtime
  runtime.install()
  from paranoid_crypto.lib import rsa_single_checks
  m = int(rsa_single_checks.CheckPollardpm1()._m)  # pylint: disable=protected-access
  primes = _sieve(1 << 20)
  factors = []
  exps = []
  for idx, r in enumerate(primes):
    if idx < 150:
      k = 0
      while r ** (k + 1) <= 2 ** 64:  # k = floor(log_r 2^64), exact integer arithmetic
        k += 1
      exps.append((r, k))
      factors.append(r ** k)
    else:
      factors.append(r)
  # balanced product (own loop, not ntheory_util.FastProduct)
  while len(factors) > 1:
    factors = [math.prod(factors[i:i + 2]) for i in range(0, len(factors), 2)]
  expected = factors[0]
  divisible = m % expected == 0
  bad = []
  if not divisible:
    for idx, r in enumerate(primes):
      need = exps[idx][1] if idx < 150 else 1
      if m % (r ** need):
        bad.append((r, need))
        if len(bad) >= 5:
          break
  detail = (f"primes<2^20: {len(primes)}, m bits: {m.bit_length()}, expected bits: {expected.bit_length()}, "
            f"m == expected: {m == expected}, first failing (prime, required exponent): {bad}")
  return divisible, detail



@bounded("C05", "fast_product_every_length",
         bound="ntheory_util.FastProduct (the product tree behind CheckPollardpm1's default product) on lists of every length "
               "0..200 (small primes, ones, repeated values) and 4 long lists (up to 5000): equals math.prod",
         functions=["ntheory_util.FastProduct"], exhaustive=False)
def fast_product(ctx):
  from pyvc import runtime
  runtime.install()
  from paranoid_crypto.lib import ntheory_util
  rnd = _rnd(ctx, "fastprod")
  pr = _sieve(8000)
  for n in list(range(0, 201)) + [777, 1281, 2563, 5000]:
    for kind in ("primes", "random", "ones_and_twos"):
      vals = (pr[:n] if kind == "primes" and n <= len(pr) else
              [rnd.randrange(1, 1 << 40) for _ in range(n)] if kind != "ones_and_twos" else
              [1 + (i % 2) for i in range(n)])
      ctx.case(key=(n, kind))
      try:
        got = ntheory_util.FastProduct(list(vals))
      except Exception as e:   # pylint: disable=broad-except
        if n == 0:
          continue            # the empty product is not part of the documented domain
        ctx.fail("FastProduct returns", dict(length=n, kind=kind), observed=repr(e)[:100])
        continue
      ctx.check(int(got) == math.prod(vals), "FastProduct(values) == product of the values", dict(length=n, kind=kind),
                observed=int(got).bit_length(), expected=math.prod(vals).bit_length())
