"""C12 bounded stand-in: the non-overlapping template predicate and the default template sets."""
from pyvc.registry import bounded


@bounded("C12", "non_overlapping_template_predicate",
         bound="every template of every length m = 1..12 (quick 1..10): IsNonOverlappingTemplate == 'the bit string has no "
               "proper border' (string-level definition); explicit overlapping templates are rejected",
         functions=["nist_suite.IsNonOverlappingTemplate", "nist_suite.NonOverlappingTemplateMatching"], exhaustive=True)
def templates(ctx):
  from pyvc import runtime
  runtime.install()
  from paranoid_crypto.lib.randomness_tests import nist_suite
  for m in range(1, 13 if ctx.thorough else 11):
    for t in range(1 << m):
      s = format(t, "0%db" % m)
      bordered = any(s[:i] == s[m - i:] for i in range(1, m))
      got = nist_suite.IsNonOverlappingTemplate(t, m)
      ctx.case(key=(m, t), nontrivial=True)
      ctx.check(got == (not bordered), "IsNonOverlappingTemplate(t, m) <=> t has no proper border",
                dict(m=m, template=s, even_m=m % 2 == 0), observed=got, expected=not bordered)
