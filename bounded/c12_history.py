"""C12 bounded stand-in: p-values are functions of (bits, n, parameters) only -- independent of earlier calls in the
same process (module-level caches, memoised tables)."""
import importlib

from pyvc.registry import bounded


@bounded("C12", "pvalues_independent_of_call_history",
         bound="every NIST / extended test with optional parameters x 2-3 parameter settings sharing a template length / "
               "matrix shape / block size x 2 seeded bit strings: the list of results computed in one order equals the "
               "list computed in the reverse order after re-importing the module (fresh module state)",
         functions=["nist_suite.*", "extended_nist_suite.*"])
def call_history(ctx):
  from pyvc import runtime
  runtime.install(with_bm=True)
  from paranoid_crypto.lib.randomness_tests import nist_suite, rng
  gen = rng.Shake128()
  n = 60000
  calls = []
  for seed in (11 + ctx.seed, 12 + ctx.seed):
    bits = gen.RandomBits(n, seed=seed)
    calls += [
        ("OverlappingTemplateMatching", (bits, n), {}),
        ("OverlappingTemplateMatching", (bits, n), dict(m=9, block_size=2000)),
        ("OverlappingTemplateMatching", (bits, n), dict(m=9, block_size=1500)),
        ("OverlappingTemplateMatching", (bits, n), dict(m=8, block_size=2000)),
        ("NonOverlappingTemplateMatching", (bits, n), {}),
        ("NonOverlappingTemplateMatching", (bits, n), dict(blocks=4)),
        ("NonOverlappingTemplateMatching", (bits, n), dict(blocks=16)),
        ("BinaryMatrixRank", (bits, n), {}),
        ("BinaryMatrixRank", (bits, n), dict(r=16, c=32)),
        ("BinaryMatrixRank", (bits, n), dict(r=32, c=32, k=4)),
        ("BinaryMatrixRank", (bits, n), dict(r=8, c=8, k=3)),
        ("LinearComplexity", (bits, n, 100), {}),
        ("LinearComplexity", (bits, n, 101), {}),
        ("LinearComplexity", (bits, n, 250), {}),
        ("Serial", (bits, n), {}),
        ("Serial", (bits, n), dict(m_max=5)),
        ("ApproximateEntropy", (bits, n), {}),
        ("ApproximateEntropy", (bits, n), dict(m_max=4)),
        ("LongestRuns", (bits, n), {}),
        ("LongestRuns", (bits, 6271), {}),
        ("LongestRuns", (bits, 200), {}),
        ("BlockFrequency", (bits, n), {}),
        ("BlockFrequency", (bits, 3000), {}),
        ("RandomWalk", (bits, n), {}),
        ("RandomWalk", (bits, n), dict(max_state=3)),
        ("Frequency", (bits, n), {}), ("Runs", (bits, n), {}), ("Spectral", (bits, 4096), {}),
    ]

  def run(mod, order):
    out = {}
    for idx in order:
      name, args, kw = calls[idx]
      try:
        out[idx] = repr(getattr(mod, name)(*args, **kw))
      except Exception as e:  # the exception type is part of the behaviour
        out[idx] = "raised " + type(e).__name__
    return out
  fwd = run(importlib.reload(nist_suite), range(len(calls)))
  bwd = run(importlib.reload(nist_suite), reversed(range(len(calls))))
  for idx, (name, args, kw) in enumerate(calls):
    ctx.case(key=(name, tuple(sorted(kw.items())), idx))
    ctx.check(fwd[idx] == bwd[idx], "result does not depend on the order of earlier calls in the process",
              dict(test=name, n=args[1], params=kw, position=idx), observed=[fwd[idx][:120], bwd[idx][:120]])
