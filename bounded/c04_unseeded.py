"""C04 bounded stand-in (clause 3, second half): every modulus having a prime within a prime gap of a listed
unseeded-PRNG output -- or of its variants with the top bit / the two top bits forced -- is factored by
CheckUnseededRand, with both primes recorded."""
from pyvc.registry import bounded


@bounded("C04", "unseeded_rand_outputs_and_top_bit_variants",
         bound="prime sizes 512 and 1024 (thorough: every size the shipped table lists): first 6 listed outputs per size "
               "(quick 3) x variants {as is, msb set, two msbs set} -> p = next_prime(variant), q = random prime of the "
               "same size with a product of 2 * size bits, and (when the variant allows it) another q giving 2 * size - 1 "
               "bits; sampled, not exhaustive",
         functions=["rsa_single_checks.CheckUnseededRand.Check", "special_case_factoring.FactorWithGuess"])
def unseeded(ctx):
  from pyvc import runtime
  runtime.install()
  import random
  import gmpy2
  from paranoid_crypto import paranoid_pb2 as pb
  from paranoid_crypto.lib import rsa_single_checks, util
  from paranoid_crypto.lib.data import unseeded_rands
  rnd = random.Random(f"{ctx.seed}/c04unseeded")
  sizes = sorted(unseeded_rands.size_unseeded_map)
  if not ctx.thorough:
    sizes = [s for s in sizes if s in (512, 1024)] or sizes[:2]
  chk = rsa_single_checks.CheckUnseededRand()
  for psize in sizes:
    outs = sorted(unseeded_rands.size_unseeded_map[psize])[: (6 if ctx.thorough else 3)]
    # make sure outputs with top bits 00, 01, 10, 11 are all represented when available
    by_top = {}
    for o in sorted(unseeded_rands.size_unseeded_map[psize]):
      by_top.setdefault(o >> (psize - 2), o)
    outs = list(dict.fromkeys(outs + list(by_top.values())))
    for out in outs:
      msb1 = 1 << (psize - 1)
      msb11 = msb1 | (1 << (psize - 2))
      for vname, guess in (("as_is", out), ("msb", out | msb1), ("msb11", out | msb11)):
        p = int(gmpy2.next_prime(guess))
        if p.bit_length() != psize:
          continue       # variant does not have the full size: the key would have another modulus length
        while True:
          q = int(gmpy2.next_prime(rnd.getrandbits(psize) | msb11))
          if q != p and (p * q).bit_length() == 2 * psize:
            break
        moduli = [(p * q, q, "even")]
        # two psize-bit primes may also have a product of 2 * psize - 1 bits (both below sqrt(2) * 2^(psize-1))
        for _ in range(20):
          q2 = int(gmpy2.next_prime((rnd.getrandbits(psize - 2) >> 1) | msb1))
          if q2 != p and q2.bit_length() == psize and (p * q2).bit_length() == 2 * psize - 1:
            moduli.append((p * q2, q2, "odd"))
            break
        for n, q, parity in moduli:
          key = pb.RSAKey()
          key.rsa_info.n = util.Int2Bytes(n)
          key.rsa_info.e = util.Int2Bytes(65537)
          ret = chk.Check([key])
          facs = util.GetAttachedFactors(key.test_info, "N_FACTORS")
          ctx.case(key=(psize, out % 1000003, vname, parity), sample=dict(prime_bits=psize, variant=vname, parity=parity))
          ctx.check(ret is True and facs == {p, q}, "flagged and both primes recorded",
                    dict(prime_bits=psize, variant=vname, top_bits=out >> (psize - 2), output=out,
                         modulus_bits=n.bit_length()), observed=[ret, facs], expected=[True, [p, q]])
