"""C09 bounded stand-in: the nonce relation k = a + b*d (mod n) on real ECDSA signatures made by an independent textbook
ECDSA (own affine arithmetic from bounded/c11.py, RFC 6979 bits2int written here), and the byte/int/hex conversions."""
from pyvc.registry import bounded
from bounded.c11 import reseed, INF, Raised, call, named_prime_curves, obs, t_add, t_mul


def bits2int(data: bytes, qlen: int) -> int:
  """RFC 6979 section 2.3.2: big-endian integer of the octets, keeping only the leftmost qlen bits when longer."""
  v = int.from_bytes(data, "big")
  blen = 8 * len(data)
  if blen > qlen:
    v >>= blen - qlen
  return v


def be(x: int, length=None) -> bytes:
  """Minimal (or fixed-length) big-endian encoding, independent of util.Int2Bytes."""
  if length is None:
    length = (x.bit_length() + 7) // 8
  return x.to_bytes(length, "big")


def ecdsa_sign(v, d, k, h: bytes):
  """Textbook ECDSA (FIPS 186-4 6.4): returns (r, s, e) or None when r or s is 0."""
  n = v["n"]
  e = bits2int(h, n.bit_length())
  R = t_mul(k, v["G"], v["a"], v["p"])
  if R == INF:
    return None
  r = R[0] % n
  s = pow(k, -1, n) * (e + r * d) % n
  if r == 0 or s == 0:
    return None
  return r, s, e


def ecdsa_verify(v, Q, r, s, h: bytes) -> bool:
  n = v["n"]
  if not (0 < r < n and 0 < s < n):
    return False
  e = bits2int(h, n.bit_length())
  w = pow(s, -1, n)
  X = t_add(t_mul(e * w % n, v["G"], v["a"], v["p"]), t_mul(r * w % n, Q, v["a"], v["p"]), v["a"], v["p"])
  return X != INF and X[0] % n == r


def make_sig_info(r, s, h, pad_r=0, pad_s=0):
  from paranoid_crypto import paranoid_pb2
  info = paranoid_pb2.ECDSASignatureInfo()
  info.r = b"\x00" * pad_r + be(r)
  info.s = b"\x00" * pad_s + be(s)
  info.message_hash = h
  return info


@bounded("C09", "ecdsa_hidden_number_relation",
         bound="9 prime-field curves x hash byte lengths 0..64 x {random hash; thorough: + all-0xff hash, hash with 1..3 leading "
               "zero bytes, all-zero hash}: signature by an independent textbook ECDSA with random d, k (also d, k in {1, n-1} "
               "on the first lengths), r/s encoded minimally and with leading zero bytes; verified by an independent "
               "textbook verification (quick: every 8th length); ECDSAValues returns (r, s, bits2int(hash) mod n) and "
               "HiddenNumberParams returns 0 <= a, b < n with k == a + b*d (mod n)",
         functions=["ec_util.ECDSAValues", "ec_util.EcCurve.HiddenNumberParams", "ec_util.EcCurve.TransformOrderLen",
                    "util.Bytes2Int"])
def ecdsa_hidden_number_relation(ctx):
  reseed(ctx)
  from pyvc import runtime
  runtime.install()
  from paranoid_crypto.lib import ec_util
  for cid, c, v in named_prime_curves():
    n, nm = v["n"], v["name"]
    d = ctx.rnd.randrange(1, n)
    Q = t_mul(d, v["G"], v["a"], v["p"])
    for hl in range(0, 65):
      variants = [bytes(ctx.rnd.randrange(256) for _ in range(hl))]
      if ctx.thorough and hl:
        variants.append(b"\xff" * hl)
        z = min(hl, 1 + hl % 3)
        variants.append(b"\x00" * z + bytes(ctx.rnd.randrange(256) for _ in range(hl - z)))
        variants.append(b"\x00" * hl)
      for vi, h in enumerate(variants):
        dd, QQ = d, Q
        k = ctx.rnd.randrange(1, n)
        if vi == 0 and hl == 1:
          k = 1
        elif vi == 0 and hl == 2:
          k = n - 1
        elif vi == 0 and hl in (3, 4):
          dd = 1 if hl == 3 else n - 1
          QQ = t_mul(dd, v["G"], v["a"], v["p"])
        sig = ecdsa_sign(v, dd, k, h)
        if sig is None:
          continue
        r, s, e = sig
        ctx.case(key=(nm, hl, vi), sample=dict(curve=nm, hash_len=hl, r_bits=r.bit_length()) if hl == 32 else None)
        inp = dict(curve=nm, hash_len=hl, hash=h, d=dd, k=k, r=r, s=s, variant=vi)
        if ctx.thorough or hl % 8 == 0:
          ctx.check(ecdsa_verify(v, QQ, r, s, h), "oracle: the signature verifies under textbook ECDSA", inp)
        for pad_r, pad_s in ((0, 0), (1 + hl % 3, 0), (0, 2), (3, 1)):
          info = make_sig_info(r, s, h, pad_r, pad_s)
          vals = call(ec_util.ECDSAValues, info, c)
          if isinstance(vals, Raised):
            ctx.fail("ECDSAValues returns", inp, obs(vals))
            continue
          r2, s2, z2 = (int(x) for x in vals)
          inp_p = dict(inp, pad_r=pad_r, pad_s=pad_s)
          ctx.check((r2, s2) == (r, s), "ECDSAValues returns the big-endian values of r and s", inp_p, [r2, s2], [r, s])
          ctx.check(z2 == e % n and 0 <= z2 < n, "z == bits2int(hash) mod n (RFC 6979 2.3.2/2.4, leftmost qlen bits)", inp_p,
                    z2, e % n)
          ab = call(c.HiddenNumberParams, vals[0], vals[1], vals[2])
          if isinstance(ab, Raised):
            ctx.fail("HiddenNumberParams returns", inp_p, obs(ab))
            continue
          a, b = int(ab[0]), int(ab[1])
          ctx.check(0 <= a < n and 0 <= b < n and (a + b * dd - k) % n == 0, "k == a + b*d (mod n), 0 <= a, b < n", inp_p,
                    [a, b])
    # hash longer than 64 bytes and much longer than the order
    for hl in (65, 66, 100, 128):
      h = bytes(ctx.rnd.randrange(256) for _ in range(hl))
      k = ctx.rnd.randrange(1, n)
      sig = ecdsa_sign(v, d, k, h)
      if sig is None:
        continue
      r, s, e = sig
      ctx.case(key=(nm, hl, "long"))
      vals = call(ec_util.ECDSAValues, make_sig_info(r, s, h), c)
      inp = dict(curve=nm, hash_len=hl, hash=h, d=d, k=k, r=r, s=s)
      if isinstance(vals, Raised):
        ctx.fail("ECDSAValues returns", inp, obs(vals))
        continue
      ab = call(c.HiddenNumberParams, *vals)
      ctx.check(int(vals[2]) == e % n, "z == bits2int(hash) mod n", inp, int(vals[2]), e % n)
      ctx.check(not isinstance(ab, Raised) and (int(ab[0]) + int(ab[1]) * d - k) % n == 0, "k == a + b*d (mod n)", inp, obs(ab))


@bounded("C09", "transform_order_len_bits2int",
         bound="9 prime-field curves x hlen in 0..qlen+80 bits (every bit length, not only multiples of 8) x h in {0, 1, "
               "2^hlen-1, 2^(hlen-1), random, n-1, n, n+1 when they fit}: TransformOrderLen(h, hlen) == (h >> max(0, hlen - "
               "qlen)) mod n",
         functions=["ec_util.EcCurve.TransformOrderLen"], exhaustive=True)
def transform_order_len_bits2int(ctx):
  reseed(ctx)
  import gmpy2
  for cid, c, v in named_prime_curves():
    n = v["n"]
    qlen = n.bit_length()
    for hlen in range(0, qlen + 81):
      hs = {0, (1 << hlen) - 1, (1 << hlen) >> 1, ctx.rnd.randrange(1 << hlen) if hlen else 0}
      if hlen:
        hs.add(1)
      for t in (n - 1, n, n + 1):
        if t < (1 << hlen):
          hs.add(t)
        if hlen > qlen and (t << (hlen - qlen)) < (1 << hlen):
          hs.add((t << (hlen - qlen)) | ctx.rnd.randrange(1 << (hlen - qlen)))
      for h in sorted(hs):
        exp = (h >> max(0, hlen - qlen)) % n
        ctx.case(key=(v["name"], hlen, h == 0))
        for hh in (h, gmpy2.mpz(h)):
          got = call(c.TransformOrderLen, hh, hlen)
          ctx.check(not isinstance(got, Raised) and int(got) == exp, "TransformOrderLen(h, hlen) == bits2int then mod n",
                    dict(curve=v["name"], h=h, hlen=hlen, mpz=hh is not h), obs(got), exp)


@bounded("C09", "byte_int_hex_round_trips",
         bound="Int2Bytes/Bytes2Int: every x in 0..70000 (quick) / 0..2^20 (thorough), 2^k-1, 2^k, 2^k+1 for k <= 1100, int and "
               "gmpy2.mpz arguments, every byte string of length <= 2 and random ones up to 80 bytes with 0..4 leading zero "
               "bytes; Hex2Bytes: every hex string of length <= 3 (4 thorough), random strings of every length 0..140 (odd and "
               "even, upper/lower case); PublicPoint on ECKeyInfo with leading-zero-padded coordinates",
         functions=["util.Int2Bytes", "util.Bytes2Int", "util.Hex2Bytes", "ec_util.PublicPoint"], exhaustive=True)
def byte_int_hex_round_trips(ctx):
  reseed(ctx)
  import itertools
  import gmpy2
  from pyvc import runtime
  runtime.install()
  from paranoid_crypto import paranoid_pb2
  from paranoid_crypto.lib import ec_util
  from paranoid_crypto.lib import util
  xs = list(range(0, (1 << 20) + 1 if ctx.thorough else 70001))
  for k in range(1, 1101):
    xs += [(1 << k) - 1, 1 << k, (1 << k) + 1]
  xs += [ctx.rnd.randrange(1 << ctx.rnd.randrange(1, 600)) for _ in range(2000)]
  for x in xs:
    ctx.case(key=(x.bit_length(), ))
    exp = be(x)
    got = call(util.Int2Bytes, x)
    ctx.check(got == exp and isinstance(got, bytes), "Int2Bytes(x) is the minimal big-endian encoding (b'' for 0)", dict(x=x),
              obs(got), exp)
    back = call(util.Bytes2Int, got) if isinstance(got, bytes) else got
    ctx.check(back == x, "Bytes2Int(Int2Bytes(x)) == x", dict(x=x), obs(back), x)
    if x < 4096 or x.bit_length() % 8 in (0, 1):
      got = call(util.Int2Bytes, gmpy2.mpz(x))
      ctx.check(got == exp, "Int2Bytes(mpz(x)) == Int2Bytes(x)", dict(x=x, mpz=True), obs(got), exp)
  blist = [bytes(t) for L in range(0, 3) for t in itertools.product(range(256), repeat=L)]
  for _ in range(5000):
    blist.append(b"\x00" * ctx.rnd.randrange(0, 5) + bytes(ctx.rnd.randrange(256) for _ in range(ctx.rnd.randrange(0, 80))))
  for b in blist:
    ctx.case(key=(len(b), len(b) - len(b.lstrip(b"\x00"))))
    val = sum(byte << (8 * i) for i, byte in enumerate(reversed(b)))
    got = call(util.Bytes2Int, b)
    ctx.check(got == val, "Bytes2Int(b) == sum b[i] * 256^(len-1-i)", dict(b=b), obs(got), val)
    for z in (1, 3):
      got = call(util.Bytes2Int, b"\x00" * z + b)
      ctx.check(got == val, "Bytes2Int ignores leading zero bytes", dict(b=b, zeros=z), obs(got), val)
    got = call(util.Int2Bytes, val)
    ctx.check(got == b.lstrip(b"\x00"), "Int2Bytes(Bytes2Int(b)) == b without leading zero bytes", dict(b=b), obs(got),
              b.lstrip(b"\x00"))
  digits = "0123456789abcdefABCDEF"
  hexes = ["".join(t) for L in range(0, 5 if ctx.thorough else 4) for t in itertools.product(digits, repeat=L)]
  for L in range(0, 141):
    for _ in range(4):
      hexes.append("".join(ctx.rnd.choice(digits) for _ in range(L)))
    hexes.append("0" * L)
  for hs in hexes:
    ctx.case(key=(len(hs) if len(hs) > 4 else hs.lower(), ))
    exp = be(int(hs, 16) if hs else 0, (len(hs) + 1) // 2)
    got = call(util.Hex2Bytes, hs)
    ctx.check(got == exp, "Hex2Bytes(s) == big-endian value of s in ceil(len/2) bytes (odd length: implicit leading 0)",
              dict(hex=hs), obs(got), exp)
  for _ in range(300):
    x, y = ctx.rnd.randrange(1 << 256), ctx.rnd.randrange(1 << ctx.rnd.randrange(1, 257))
    info = paranoid_pb2.ECKeyInfo()
    zx, zy = ctx.rnd.randrange(0, 3), ctx.rnd.randrange(0, 3)
    info.x = b"\x00" * zx + be(x)
    info.y = b"\x00" * zy + be(y)
    ctx.case(key=("pp", zx, zy))
    got = call(ec_util.PublicPoint, info)
    ctx.check(not isinstance(got, Raised) and (int(got[0]), int(got[1])) == (x, y), "PublicPoint == (x, y)",
              dict(x=x, y=y, zx=zx, zy=zy), obs(got))
