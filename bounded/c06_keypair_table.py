"""C06 bounded stand-in: the vulnerable-generator emulation (keypair_generator.Generator) reproduces the SHIPPED table
keypair_table_small.lzma, which was computed from the original npm `keypair` package and is independent of the Python
emulation: for a covered seed the 64 leading bits of the generated modulus must be a table key that maps back to that
seed.  Seeds whose key generation needs two or more prime regenerations (selected once, at authoring time) are always
included in the quick tier -- they are the ones a change to the regeneration logic affects."""
from pyvc.registry import bounded

# first seed bytes for which generate_key(2048) draws >= 4 primes on the pinned tree (selection only, not the oracle)
REGENERATING_2048 = [7, 12, 14, 15, 21, 22, 31, 33, 41, 47, 51, 59, 62, 69, 70, 74, 92, 114, 116, 127, 149, 163, 171, 172,
                     187, 189, 194, 203, 212, 213, 222, 242, 243, 250]


@bounded("C06", "keypair_generator_reproduces_shipped_table",
         bound="2048-bit keys for the 34 regeneration-heavy first seed bytes + 12 others (quick); all 256 seeds x "
               "{2048, 3072, 4096} (thorough): msb64(p*q) is a key of the shipped table and maps back to the seed; "
               "CheckKeypairDenylist flags the key and records {p, q}",
         functions=["keypair_generator.Generator.generate_key", "keypair_generator.Generator.generate_prime",
                    "rsa_single_checks.CheckKeypairDenylist.Check"])
def table(ctx):
  from pyvc import runtime
  runtime.install()
  from paranoid_crypto import paranoid_pb2 as pb
  from paranoid_crypto.lib import keypair_generator as kg, rsa_single_checks, util
  from paranoid_crypto.lib.data import default_storage
  tab = dict(default_storage.DefaultStorage().GetKeypairData().table)
  chk = rsa_single_checks.CheckKeypairDenylist()
  if ctx.thorough:
    work = [(b0, bits) for bits in (2048, 3072, 4096) for b0 in range(256)]
  else:
    others = [b for b in range(0, 256, 23) if b not in REGENERATING_2048][:12]
    work = [(b0, 2048) for b0 in REGENERATING_2048 + others]
  for b0, bits in work:
    seed = bytes([b0] + [0] * 31)
    p, q = kg.Generator(seed).generate_key(bits)
    n = int(p) * int(q)
    msb = n >> (n.bit_length() - 64)
    ctx.case(key=(b0, bits))
    ok = ctx.check(n.bit_length() == bits and msb in tab and bytes(tab[msb])[:1] == bytes([b0]),
                   "generated modulus has the requested size and its 64 leading bits are the shipped table entry of the seed",
                   dict(seed_first_byte=b0, bits=bits, regenerating=b0 in REGENERATING_2048), observed=hex(msb),
                   expected="table key mapping to %02x" % b0)
    if ok and (ctx.thorough or b0 % 5 == 0):
      key = pb.RSAKey()
      key.rsa_info.n = util.Int2Bytes(n)
      key.rsa_info.e = util.Int2Bytes(65537)
      ret = chk.Check([key])
      facs = util.GetAttachedFactors(key.test_info, "N_FACTORS")
      ctx.check(ret is True and facs == {int(p), int(q)}, "CheckKeypairDenylist flags the key and records both primes",
                dict(seed_first_byte=b0, bits=bits), observed=[ret, facs])


from pyvc.registry import ground


@ground("C18", "shipped_keypair_table_shape")
def _shape_c18():
  return _table_shape()


@ground("C06", "shipped_keypair_table_shape")
def _shape_c06():
  return _table_shape()


def _table_shape():
  """The precondition of CheckKeypairDenylist.Check's contract on self._table, decided for the SHIPPED table: every
  entry is one seed byte followed by (position, value) pairs with positions inside the 32-byte seed."""
  from pyvc import runtime
  runtime.install()
  from paranoid_crypto.lib.data import default_storage
  tab = dict(default_storage.DefaultStorage().GetKeypairData().table)
  bad = [hex(k) for k, v in tab.items()
         if len(bytes(v)) % 2 != 1 or any(bytes(v)[t] >= 32 for t in range(1, len(bytes(v)), 2)) or not 0 <= k < 2 ** 64]
  return (len(tab) > 0 and not bad,
          f"{len(tab)} entries, each of odd length with every odd-indexed byte < 32 and a 64-bit key; offending: {bad[:3]}")
