"""C12 bounded stand-in: the cumulative-sums p-value (SP 800-22 section 2.13) as a function of (n, z), for EVERY reachable
statistic of every short length - the structured strings of c12.py reach only few (n, z) pairs, and the sums' bounds
(n/z - 1)/4 etc. are integers only when z | n and n/z = 1 (mod 4)."""
import math

from pyvc.registry import bounded


def _phi(x):
  return 0.5 * math.erfc(-x / math.sqrt(2))


def reference(n, z):
  """p = 1 - sum_{k in [(-n/z+1)/4, (n/z-1)/4]} [Phi((4k+1)z/sqrt n) - Phi((4k-1)z/sqrt n)]
           + sum_{k in [(-n/z-3)/4, (n/z-1)/4]} [Phi((4k+3)z/sqrt n) - Phi((4k+1)z/sqrt n)],
  both sums over every integer k in the closed interval; the bounds are evaluated in exact integer arithmetic."""
  hi = (n - z) // (4 * z)            # largest k with 4kz <= n - z
  lo1 = -((n - z) // (4 * z))        # smallest k with 4kz >= -n + z
  lo2 = -((n + 3 * z) // (4 * z))    # smallest k with 4kz >= -n - 3z
  s = z / math.sqrt(n)
  p = 1.0
  for k in range(lo1, hi + 1):
    p -= _phi((4 * k + 1) * s) - _phi((4 * k - 1) * s)
  for k in range(lo2, hi + 1):
    p += _phi((4 * k + 3) * s) - _phi((4 * k + 1) * s)
  return min(1.0, max(0.0, p))


@bounded("C12", "cusum_pvalue_formula",
         bound="CumulativeSumsPValue(n, z) for every 1 <= z <= n <= 250 (quick) / 700 (thorough), and for n in {1000, 4096, "
               "10^4, 10^5, 10^6} with z in {1, 2, sqrt(n)/2, sqrt(n), 2 sqrt(n), 3 sqrt(n), n/9, n/5, n/4, n/3, n/2, n-1, n}, "
               "against the section 2.13 formula evaluated independently (erfc-based Phi, exact integer summation bounds), "
               "tolerance 1e-9; RandomWalk on constant strings returns that value in both directions",
         functions=["nist_suite.CumulativeSumsPValue", "nist_suite.RandomWalk"], exhaustive=True)
def cusum_pvalue_formula(ctx):
  from pyvc import runtime
  runtime.install()
  from paranoid_crypto.lib.randomness_tests import nist_suite
  top = 700 if ctx.thorough else 250
  for n in range(1, top + 1):
    for z in range(1, n + 1):
      ctx.case(key=(n % 4, (n % z == 0), (n // z) % 4, z == n))
      try:
        got = nist_suite.CumulativeSumsPValue(n, z)
      except Exception as e:  # pylint: disable=broad-except
        ctx.fail("CumulativeSumsPValue raised", dict(n=n, z=z), repr(e))
        continue
      want = reference(n, z)
      ctx.check(0.0 <= got <= 1.0 and abs(got - want) <= 1e-9, "cumulative sums p-value == SP 800-22 2.13 formula",
                dict(n=n, z=z, z_divides_n=(n % z == 0), ratio_mod_4=(n // z) % 4), got, want)
  for n in (1000, 4096, 10 ** 4, 10 ** 5, 10 ** 6):
    r = int(math.sqrt(n))
    for z in sorted({1, 2, r // 2, r, 2 * r, 3 * r, n // 9, n // 5, n // 4, n // 3, n // 2, n - 1, n}):
      ctx.case(key=("large", n, z))
      got = nist_suite.CumulativeSumsPValue(n, z)
      want = reference(n, z)
      ctx.check(abs(got - want) <= 1e-9, "cumulative sums p-value == SP 800-22 2.13 formula", dict(n=n, z=z), got, want)
  for n in (8, 64, 100, 128, 1000, 4096):
    for bits in (0, (1 << n) - 1):
      ctx.case(key=("constant", n, bits == 0))
      res = dict(nist_suite.RandomWalk(bits, n))
      for name in ("cumulative sums forward", "cumulative sums reverse"):
        ctx.check(abs(res[name] - reference(n, n)) <= 1e-9, "RandomWalk of a constant string: cusum p-value of z == n",
                  dict(n=n, bits="0" if bits == 0 else "1", name=name), res[name], reference(n, n))
