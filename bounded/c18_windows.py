"""C18 bounded stand-in: the biased-nonce checks split one issuer's signatures into windows of 24 / 48 / 120; batches whose
size is exactly a multiple of a window (and the sizes next to it) must not raise."""
from pyvc.registry import bounded


@bounded("C18", "ecdsa_bias_checks_window_boundaries",
         bound="one issuer on secp256r1 with 23, 24, 25, 47, 48, 49 (thorough also 119, 120, 121) distinct well-formed "
               "signatures (random nonces) x the four bias checks (MSB, common prefix, common postfix, generalized)",
         functions=["ecdsa_sig_checks.BiasedBaseCheck.Check", "hidden_number_problem.HiddenNumberProblem"])
def window_boundaries(ctx):
  from pyvc import runtime
  runtime.install()
  import hashlib
  import random
  from paranoid_crypto import paranoid_pb2 as pb
  from paranoid_crypto.lib import paranoid  # noqa: F401 (import order: breaks a circular import)
  from paranoid_crypto.lib import ec_util, ecdsa_sig_checks, util
  rnd = random.Random(f"{ctx.seed}/c18windows")
  cid = pb.CurveType.CURVE_SECP256R1
  curve = ec_util.CURVE_FACTORY[cid]
  n = int(curve.n)
  d = rnd.randrange(1, n)
  qx, qy = curve.Multiply(curve.g, d)

  def sig(i):
    h = hashlib.sha256(b"msg %d" % i).digest()
    z = int.from_bytes(h, "big") % n
    while True:
      k = rnd.randrange(1, n)
      r = int(curve.Multiply(curve.g, k)[0]) % n
      s = pow(k, -1, n) * (z + r * d) % n
      if r and s:
        break
    m = pb.ECDSASignature()
    m.ecdsa_sig_info.r = util.Int2Bytes(r)
    m.ecdsa_sig_info.s = util.Int2Bytes(s)
    m.ecdsa_sig_info.message_hash = h
    m.issuer_key_info.curve_type = cid
    m.issuer_key_info.x = util.Int2Bytes(int(qx))
    m.issuer_key_info.y = util.Int2Bytes(int(qy))
    return m
  sizes = [23, 24, 25, 47, 48, 49] + ([119, 120, 121] if ctx.thorough else [])
  pool = [sig(i) for i in range(max(sizes))]
  checks = [ecdsa_sig_checks.CheckNonceMSB, ecdsa_sig_checks.CheckNonceCommonPrefix,
            ecdsa_sig_checks.CheckNonceCommonPostfix, ecdsa_sig_checks.CheckNonceGeneralized]
  for size in sizes:
    for cls in checks:
      batch = [pb.ECDSASignature.FromString(m.SerializeToString()) for m in pool[:size]]
      ctx.case(key=(size, cls.__name__))
      try:
        ret = cls().Check(batch)
        ctx.check(isinstance(ret, bool) and ret is False, "returns False (random nonces) without raising",
                  dict(check=cls.__name__, signatures_of_issuer=size), observed=repr(ret))
      except Exception as e:   # noqa: BLE001
        ctx.fail("returns a bool without raising", dict(check=cls.__name__, signatures_of_issuer=size,
                                                         window_multiple=size % 24 == 0),
                 observed=f"{type(e).__name__}: {e}")
