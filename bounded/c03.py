"""C03 bounded stand-in: BatchGCD / product trees / CheckGCD / CheckGCDN1 against the one-line definitions.

Oracle (written here, independent of /repo):
  expected[i] = gcd(values[i], (other or 1) * prod(u for u in set(values) if u != values[i]))
computed with math.gcd / math.prod on Python ints.
"""
import itertools
import math

from pyvc.registry import bounded


def _rnd(ctx, tag):
  """Seeded generator that depends only on VERIF_SEED (ctx.rnd mixes in hash(name), which varies per process)."""
  import random
  return random.Random(f"{ctx.seed}/c03/{tag}")


# --------------------------------------------------------------------------------------------------------------------
# independent helpers
# --------------------------------------------------------------------------------------------------------------------
def _small_primes(count, start=3):
  """First `count` primes >= start by trial division (independent of ntheory_util.Sieve)."""
  out, c = [], start
  while len(out) < count:
    if all(c % d for d in range(2, math.isqrt(c) + 1)):
      out.append(c)
    c += 1
  return out


def _oracle(values, other):
  distinct = set(int(v) for v in values)
  o = int(other) if other else 1
  res = []
  if len(values) > 140:  # sampled large sizes: prod(u != v) computed as exact quotient P // v (v is one of the factors)
    big = math.prod(distinct)
    return [math.gcd(int(v), o * (big // int(v))) for v in values]
  for v in values:
    v = int(v)
    res.append(math.gcd(v, o * math.prod(u for u in distinct if u != v)))
  return res


def _patterns(size, primes, rnd):
  """Yields (pattern_name, values) for one batch size; every sharing-pattern class of the property."""
  P = primes
  if size == 0:
    yield "empty", []
    return
  # no modulus shares a prime with any other
  yield "no_share", [P[2 * i] * P[2 * i + 1] for i in range(size)]
  # disjoint pairs sharing exactly one prime (last one unpaired when size is odd)
  vals = []
  for i in range(size):
    pair = i // 2
    vals.append(P[3 * pair] * P[3 * pair + 1 + (i % 2)])
  yield "one_partner", vals
  # chain: every modulus shares one prime with each neighbour (two partners)
  yield "chain", [P[i] * P[i + 1] for i in range(size)]
  # ring: as chain, closed (both primes of every modulus are shared: gcd == n)
  if size >= 3:
    yield "ring", [P[i] * P[(i + 1) % size] for i in range(size)]
  # star: one prime shared by all (several partners)
  yield "star", [P[0] * P[i + 1] for i in range(size)]
  # two stars that overlap in one modulus (a modulus whose two primes are both shared with different partners)
  if size >= 3:
    h = size // 2
    vals = [P[0] * P[2 + i] for i in range(h)] + [P[0] * P[1]] + [P[1] * P[2 + i] for i in range(h, size - 1)]
    yield "two_stars", vals
  # nested: every modulus divides the next one
  vals, acc = [], 1
  for i in range(size):
    acc *= P[i % 40]
    vals.append(acc)
  yield "nested_tower", vals
  # nested: semiprime n together with n*r and a proper prime divisor of n
  vals = []
  for i in range(size):
    k, r = divmod(i, 3)
    base = P[4 * k] * P[4 * k + 1]
    vals.append([base, base * P[4 * k + 2], P[4 * k]][r])
  yield "nested_triples", vals
  # duplicates: identical moduli must not accuse each other
  yield "all_equal", [P[0] * P[1]] * size
  half = max(1, (size + 1) // 2)
  base = [P[2 * i] * P[2 * i + 1] for i in range(half)]
  yield "dup_no_share", (base + base)[:size]
  base = [P[0] * P[i + 1] for i in range(half)]
  yield "dup_star", (base + base[::-1])[:size]
  base = [P[i] * P[i + 1] for i in range(half)]
  yield "dup_chain", [base[i % half] for i in range(size)]
  # mixture incl. the value 1 and a prime
  vals = []
  for i in range(size):
    r = i % 5
    vals.append([P[i] * P[i + 1], 1, P[i], P[i] * P[i + 1] * P[i + 2], P[0] * P[i + 3]][r])
  yield "mixed_with_units", vals
  # seeded random moduli over a small pool (many accidental shares and duplicates)
  pool = P[:max(4, size // 2 + 2)]
  yield "random_small_pool", [rnd.choice(pool) * rnd.choice(pool) for _ in range(size)]
  pool = P[:3 * size + 3]
  yield "random_large_pool", [rnd.choice(pool) * rnd.choice(pool) * rnd.choice([1, 1, rnd.choice(pool)])
                              for _ in range(size)]


def _others(primes, values, rnd):
  """other_values_prod variants: absent, coprime to everything, sharing with some values, multiple of a value."""
  big = 1000003 * 999983  # coprime to the pool
  out = [("none", None), ("one", 1), ("coprime", big)]
  out.append(("shares_pool", primes[0] * primes[3] * primes[5] * 1000003))
  if values:
    v = values[rnd.randrange(len(values))]
    out.append(("multiple_of_value", v * 7919 * 7907))
  return out


def _run(ctx, rsa_util, values, other, meta, mpz=None):
  inputs = dict(meta)
  inputs["size"] = len(values)
  inputs["has_other"] = other is not None
  inputs["distinct"] = len(set(values))
  exp = _oracle(values, other)
  vals = list(values) if mpz is None else [mpz(v) for v in values]
  try:
    got = rsa_util.BatchGCD(vals) if other is None else rsa_util.BatchGCD(vals, other)
  except Exception as e:  # pylint: disable=broad-except
    inputs["values"] = values if len(values) <= 8 else values[:8]
    inputs["exception"] = type(e).__name__
    ctx.fail("BatchGCD returns normally (no exception) for every batch", inputs,
             observed=f"{type(e).__name__}: {e}", expected=exp if len(exp) <= 8 else "list of %d gcds" % len(exp))
    return
  ok = isinstance(got, list) and len(got) == len(values) and [int(g) for g in got] == exp
  if not ok:
    inputs["values"] = values if len(values) <= 12 else values[:12]
    inputs["other"] = other
    bad = [i for i in range(min(len(got), len(exp))) if int(got[i]) != exp[i]][:5]
    inputs["bad_indexes"] = bad
    ctx.fail("BatchGCD(values, other)[i] == gcd(values[i], (other or 1) * prod(distinct values != values[i])) "
             "and len(result) == len(values)", inputs,
             observed=[int(g) for g in got][:12] if isinstance(got, list) else repr(got), expected=exp[:12])


@bounded("C03", "batch_gcd_every_size",
         bound="EVERY batch size 0..40 (quick) / 0..130 (thorough) x 16 sharing-pattern classes over a pool of small "
               "primes (no share, one partner, chain, ring, star, two stars, nested tower, nested triples, all equal, "
               "3 duplicate shapes, units/primes mixture, 2 seeded random pools) x 5 variants of other_values_prod "
               "(absent, 1, coprime, sharing, multiple of a batch value); int and gmpy2.mpz inputs; thorough additionally "
               "sampled sizes 255..1025 around powers of two",
         functions=["rsa_util.BatchGCD", "ntheory_util.ExtendedProductTree"], exhaustive=True)
def batch_gcd_every_size(ctx):
  from pyvc import runtime
  runtime.install()
  import gmpy2
  from paranoid_crypto.lib import rsa_util
  max_size = 130 if ctx.thorough else 40
  primes = _small_primes(3 * max_size + 50)
  rnd = _rnd(ctx, 'every_size')
  for size in range(0, max_size + 1):
    for pname, values in _patterns(size, primes, rnd):
      assert len(values) == size, (pname, size, len(values))
      for oname, other in _others(primes, values, rnd):
        ctx.case(key=(size, pname, oname), sample=dict(size=size, pattern=pname, other=oname))
        _run(ctx, rsa_util, values, other, dict(pattern=pname, other_kind=oname),
             mpz=gmpy2.mpz if (size % 2 == 1) else None)
  if ctx.thorough:  # sampled larger sizes around powers of two (tree shapes with/without unpaired last nodes)
    big_sizes = [255, 256, 257, 300, 383, 511, 512, 513, 777, 1023, 1024, 1025]
    primes = _small_primes(3 * max(big_sizes) + 50)
    for size in big_sizes:
      for pname, values in _patterns(size, primes, rnd):
        if pname in ("nested_tower", "mixed_with_units"):
          continue
        for oname, other in _others(primes, values, rnd)[::2]:
          ctx.case(key=(size, pname, oname))
          _run(ctx, rsa_util, values, other, dict(pattern=pname, other_kind=oname))
  # other_values_prod == 0 is documented nowhere; the code treats it as absent.  Stated, checked for small sizes.
  for size in range(1, 9):
    values = [primes[0] * primes[i + 1] for i in range(size)]
    ctx.case(key=(size, "star", "zero"))
    _run(ctx, rsa_util, values, 0, dict(pattern="star", other_kind="zero"))


@bounded("C03", "batch_gcd_all_permutations",
         bound="all distinct orderings of every multiset of size 1..5 drawn from 9 moduli over 4 primes "
               "{pq, pr, qr, qs, rs, p, pqr, pq*pq, 1}, each with and without other_values_prod (both tiers)",
         functions=["rsa_util.BatchGCD"], exhaustive=True)
def batch_gcd_all_permutations(ctx):
  from pyvc import runtime
  runtime.install()
  from paranoid_crypto.lib import rsa_util
  p, q, r, s = 1009, 1013, 1019, 1021
  pool = [p * q, p * r, q * r, q * s, r * s, p, p * q * r, p * q * p * q, 1]
  for size in range(1, 6):
    for combo in itertools.combinations_with_replacement(range(len(pool)), size):
      for perm in set(itertools.permutations(combo)):
        values = [pool[i] for i in perm]
        for other in (None, q * 1031):
          ctx.case(key=(size, combo, other is None))
          _run(ctx, rsa_util, values, other, dict(pattern="permutation", multiset=list(combo), perm=list(perm)))


@bounded("C03", "product_trees_every_size",
         bound="every list length 0..60 (quick) / 0..200 (thorough) x 4 value shapes (distinct semiprimes, repeated "
               "values, values incl. 1, seeded 1..64-bit values): FastProduct == math.prod; ExtendedProductTree levels "
               "== pairwise products, root == [prod], T == sum(P // v), T % v == (P // v) % v",
         functions=["ntheory_util.FastProduct", "ntheory_util.ExtendedProductTree"], exhaustive=True)
def product_trees_every_size(ctx):
  from pyvc import runtime
  runtime.install()
  from paranoid_crypto.lib import ntheory_util
  max_size = 200 if ctx.thorough else 60
  rnd = _rnd(ctx, 'trees')
  primes = _small_primes(2 * max_size + 10)
  for size in range(0, max_size + 1):
    shapes = {
        "semiprimes": [primes[2 * i] * primes[2 * i + 1] for i in range(size)],
        "repeated": [primes[i % 3] for i in range(size)],
        "with_ones": [1 if i % 2 else primes[i] for i in range(size)],
        "random_sizes": [rnd.getrandbits(rnd.randint(1, 64)) | 1 for _ in range(size)],
    }
    for sname, values in shapes.items():
      inputs = dict(size=size, shape=sname)
      ctx.case(key=(size, sname))
      prod = math.prod(values)
      # FastProduct
      try:
        got = ntheory_util.FastProduct(list(values))
        ctx.check(int(got) == prod, "FastProduct(values) == prod(values)", dict(inputs, function="FastProduct"),
                  int(got), prod)
      except Exception as e:  # pylint: disable=broad-except
        ctx.fail("FastProduct returns normally", dict(inputs, function="FastProduct", exception=type(e).__name__),
                 observed=f"{type(e).__name__}: {e}", expected=prod)
      # ExtendedProductTree
      exp_t = sum(prod // v for v in values)
      try:
        tree, t = ntheory_util.ExtendedProductTree(list(values))
      except Exception as e:  # pylint: disable=broad-except
        ctx.fail("ExtendedProductTree returns normally", dict(inputs, function="ExtendedProductTree",
                                                              exception=type(e).__name__),
                 observed=f"{type(e).__name__}: {e}", expected=dict(tree=[[]] if not values else "...", T=exp_t))
        continue
      # expected levels
      levels, cur = [list(values)], list(values)
      while len(cur) > 1:
        cur = [cur[i] * (cur[i + 1] if i + 1 < len(cur) else 1) for i in range(0, len(cur), 2)]
        levels.append(cur)
      ok_tree = [[int(x) for x in lvl] for lvl in tree] == levels
      ctx.check(ok_tree, "ExtendedProductTree levels are the pairwise products, last level == [prod(values)]",
                dict(inputs, function="ExtendedProductTree"), observed=[len(l) for l in tree],
                expected=[len(l) for l in levels])
      ctx.check(int(t) == exp_t, "ExtendedProductTree T == sum(P // v for v in values)",
                dict(inputs, function="ExtendedProductTree"), int(t), exp_t)
      ctx.check(all(int(t) % v == (prod // v) % v for v in values), "T % v == (P // v) % v for every v",
                dict(inputs, function="ExtendedProductTree"))


# --------------------------------------------------------------------------------------------------------------------
# CheckGCD / CheckGCDN1 on real protobufs
# --------------------------------------------------------------------------------------------------------------------
def _next_prime(n):
  n = n + 1 if n % 2 == 0 else n + 2
  while True:
    if all(n % d for d in (3, 5, 7, 11, 13, 17, 19, 23, 29, 31, 37)) and _is_prime_mr(n):
      return n
    n += 2


def _is_prime_mr(n):
  """Deterministic Miller-Rabin for n < 3.3e24 (bases 2..41)."""
  if n < 2:
    return False
  for p in (2, 3, 5, 7, 11, 13, 17, 19, 23, 29, 31, 37, 41):
    if n % p == 0:
      return n == p
  d, s = n - 1, 0
  while d % 2 == 0:
    d //= 2
    s += 1
  for a in (2, 3, 5, 7, 11, 13, 17, 19, 23, 29, 31, 37, 41):
    x = pow(a, d, n)
    if x in (1, n - 1):
      continue
    for _ in range(s - 1):
      x = x * x % n
      if x == n - 1:
        break
    else:
      return False
  return True


def _keys(pb2, util, moduli):
  keys = []
  for n in moduli:
    k = pb2.RSAKey()
    k.rsa_info.n = util.Int2Bytes(n)
    k.rsa_info.e = util.Int2Bytes(65537)
    keys.append(k)
  return keys


@bounded("C03", "check_gcd_on_protobufs",
         bound="empty batch; every distinct ordering of every multiset of size 1..4 over 9 moduli of >= 64 bits built "
               "from 7 seeded 33-bit primes (sharing, nested, duplicate, prime square, prime); 20 (quick) / 60 "
               "(thorough) seeded batches of 5..6 / 5..8 keys; flag <=> gcd with product of the other distinct moduli > 1, "
               "N_FACTORS == {g, n // g}; return value == any flag",
         functions=["rsa_aggregate_checks.CheckGCD.Check", "rsa_util.BatchGCD", "util.AttachFactors",
                    "util.GetAttachedFactors"], exhaustive=True)
def check_gcd_on_protobufs(ctx):
  from pyvc import runtime
  runtime.install()
  from paranoid_crypto import paranoid_pb2
  from paranoid_crypto.lib import rsa_aggregate_checks, util
  rnd = _rnd(ctx, 'check_gcd')
  pr = []
  while len(pr) < 7:
    c = _next_prime(rnd.getrandbits(33) | (1 << 32))
    if c not in pr:
      pr.append(c)
  p, q, r, s, t, u, v = pr
  pool = [p * q, p * r, q * s, r * s, t * u, p * q * r, p * p, t * u * v, _next_prime(p * q)]
  chk = rsa_aggregate_checks.CheckGCD()

  def one(moduli, meta):
    keys = _keys(paranoid_pb2, util, moduli)
    exp = _oracle(moduli, None)
    inputs = dict(meta, size=len(moduli), moduli=moduli)
    try:
      ret = chk.Check(keys)
    except Exception as e:  # pylint: disable=broad-except
      ctx.fail("CheckGCD.Check returns normally", dict(inputs, exception=type(e).__name__),
               observed=f"{type(e).__name__}: {e}")
      return
    ctx.check(bool(ret) == any(g > 1 for g in exp), "CheckGCD.Check returns True iff some key is flagged", inputs,
              ret, any(g > 1 for g in exp))
    for i, (key, n, g) in enumerate(zip(keys, moduli, exp)):
      res = [e for e in key.test_info.test_results if e.test_name == "CheckGCD"]
      ctx.check(len(res) == 1, "exactly one CheckGCD result entry per key", dict(inputs, index=i), len(res), 1)
      flagged = bool(res and res[0].result)
      ctx.check(flagged == (g > 1), "key flagged <=> gcd(n, prod of the other distinct moduli) > 1",
                dict(inputs, index=i, gcd=g), flagged, g > 1)
      ctx.check(key.test_info.weak == (g > 1), "test_info.weak <=> flagged", dict(inputs, index=i), key.test_info.weak,
                g > 1)
      facs = util.GetAttachedFactors(key.test_info, "N_FACTORS")
      if g > 1:
        ctx.check(facs == {g, n // g}, "N_FACTORS == {g, n // g}", dict(inputs, index=i, gcd=g),
                  sorted(facs) if facs is not None else None, sorted({g, n // g}))
      else:
        ctx.check(facs is None, "no N_FACTORS attached to an unflagged key", dict(inputs, index=i),
                  sorted(facs) if facs is not None else None, None)

  # empty batch: "an empty batch yields an empty, non-weak result"
  ctx.case(key=(0, "empty"))
  try:
    ret = chk.Check([])
    ctx.check(ret is False or ret == 0, "CheckGCD.Check([]) is not weak", dict(size=0, kind="empty"), ret, False)
  except Exception as e:  # pylint: disable=broad-except
    ctx.fail("CheckGCD.Check returns normally", dict(size=0, kind="empty", exception=type(e).__name__),
             observed=f"{type(e).__name__}: {e}", expected=False)

  max_multiset = 4
  for size in range(1, max_multiset + 1):
    for combo in itertools.combinations_with_replacement(range(len(pool)), size):
      for perm in sorted(set(itertools.permutations(combo))):
        moduli = [pool[i] for i in perm]
        ctx.case(key=(size, combo))
        one(moduli, dict(kind="multiset", multiset=list(combo)))
  # seeded larger batches with fresh primes
  big = 8 if ctx.thorough else 6
  for trial in range(60 if ctx.thorough else 20):
    size = rnd.randint(5, big)
    moduli = [rnd.choice(pr) * rnd.choice(pr) for _ in range(size)]
    ctx.case(key=("random", size, trial))
    one(moduli, dict(kind="random", trial=trial))


@bounded("C03", "check_gcd_n1_on_protobufs",
         bound="batches of 2..6 RSAKey protobufs with moduli n = 2*k*c+1-style values of >= 64 bits sharing seeded "
               "divisors c of 8..40 bits in n-1, gcd_bound in {2, 2^8, 2^16, g-1, g, g+1, 2^128}; 60 (quick) / 400 "
               "(thorough) seeded batches incl. duplicates: flag <=> gcd(n-1, prod of other distinct (n'-1)) >= bound, "
               "N-1_FACTORS == {g}",
         functions=["rsa_aggregate_checks.CheckGCDN1.Check", "rsa_util.BatchGCD"])
def check_gcd_n1_on_protobufs(ctx):
  from pyvc import runtime
  runtime.install()
  from paranoid_crypto import paranoid_pb2
  from paranoid_crypto.lib import rsa_aggregate_checks, util
  rnd = _rnd(ctx, 'check_gcd_n1')
  ctx.case(key=(0, "empty"))
  try:
    ret = rsa_aggregate_checks.CheckGCDN1().Check([])
    ctx.check(ret is False or ret == 0, "CheckGCDN1.Check([]) is not weak", dict(size=0, kind="empty"), ret, False)
  except Exception as e:  # pylint: disable=broad-except
    ctx.fail("CheckGCDN1.Check returns normally", dict(size=0, kind="empty", exception=type(e).__name__),
             observed=f"{type(e).__name__}: {e}", expected=False)
  for trial in range(400 if ctx.thorough else 60):
    size = rnd.randint(2, 6)
    shared = [rnd.getrandbits(rnd.randint(8, 40)) | 1 for _ in range(2)]
    moduli = []
    for i in range(size):
      c = rnd.choice(shared + [1])
      k = rnd.getrandbits(66 - c.bit_length()) | (1 << (65 - c.bit_length()))
      moduli.append(2 * k * c + 1)
    if trial % 5 == 0:
      moduli[-1] = moduli[0]  # duplicate modulus
    exp = _oracle([n - 1 for n in moduli], None)
    gmax = max(exp)
    for bound in (2, 2 ** 8, 2 ** 16, max(2, gmax - 1), gmax, gmax + 1, 2 ** 128):
      keys = _keys(paranoid_pb2, util, moduli)
      inputs = dict(trial=trial, size=size, moduli=moduli, gcd_bound=bound)
      ctx.case(key=(trial, bound))
      try:
        ret = rsa_aggregate_checks.CheckGCDN1(gcd_bound=bound).Check(keys)
      except Exception as e:  # pylint: disable=broad-except
        ctx.fail("CheckGCDN1.Check returns normally", dict(inputs, exception=type(e).__name__),
                 observed=f"{type(e).__name__}: {e}")
        continue
      ctx.check(bool(ret) == any(g >= bound for g in exp), "CheckGCDN1.Check returns True iff some key is flagged",
                inputs, ret, any(g >= bound for g in exp))
      for i, (key, g) in enumerate(zip(keys, exp)):
        res = [e for e in key.test_info.test_results if e.test_name == "CheckGCDN1"]
        flagged = bool(len(res) == 1 and res[0].result)
        ctx.check(len(res) == 1 and flagged == (g >= bound),
                  "key flagged <=> gcd(n-1, prod of the other distinct n'-1) >= gcd_bound",
                  dict(inputs, index=i, gcd=g), flagged, g >= bound)
        facs = util.GetAttachedFactors(key.test_info, "N-1_FACTORS")
        exp_f = {g} if g >= bound else None
        ctx.check(facs == exp_f, "N-1_FACTORS == {g} when flagged, absent otherwise", dict(inputs, index=i, gcd=g),
                  sorted(facs) if facs is not None else None, sorted(exp_f) if exp_f else None)
        ctx.check(util.GetAttachedFactors(key.test_info, "N_FACTORS") is None,
                  "CheckGCDN1 never attaches N_FACTORS", dict(inputs, index=i))
