"""C05 bounded stand-in (quick tier): sparse primes on BOTH parities of the modulus length.  Only the leading bit of a
sparse prime is forced, so the product of two equal-size sparse primes usually has ODD bit length 2k - 1; forcing the two
top bits gives the even length 2k.  Added after seeded change C05-5 (psize = n.bit_length() // 2 loses every odd-length
modulus), which the thorough-only sample had left to the thorough tier."""
from pyvc.registry import bounded


@bounded("C05", "low_hamming_weight_both_length_parities",
         bound="SAMPLED: primes of (bits, weights) (256,6,6), (256,10,10), (256,16,16), (384,8,8) [thorough: + (256,10,24), "
               "(384,16,16), (384,10,24), (512,12,12), 2 keys each] x {odd, even} modulus length: CheckLowHammingWeight(n) must flag; any factors returned must be {p, q}",
         functions=["rsa_util.CheckLowHammingWeight"])
def both_parities(ctx):
  from bounded import c05
  from pyvc import runtime
  runtime.install()
  import gmpy2
  from paranoid_crypto.lib import rsa_util
  rnd = c05._rnd(ctx, "lhw_parity")

  def prime(bits, weight, two_top_bits):
    while True:
      p = (1 << (bits - 1)) | 1 | ((1 << (bits - 2)) if two_top_bits else 0)
      k = weight - (3 if two_top_bits else 2)
      for i in rnd.sample(range(1, bits - 2), k):
        p |= 1 << i
      if gmpy2.is_prime(p):
        return p
  plan = [(256, 6, 6), (256, 10, 10), (256, 16, 16), (384, 8, 8)]
  if ctx.thorough:
    plan += [(256, 10, 24), (384, 16, 16), (384, 10, 24), (512, 12, 12)]
  for bits, h1, h2 in plan:
    if True:
      for parity in ("odd", "even"):
        for trial in range(2 if ctx.thorough else 1):
          for _ in range(50):
            p, q = prime(bits, h1, parity == "even"), prime(bits, h2, parity == "even")
            n = p * q
            if p != q and n.bit_length() % 2 == (1 if parity == "odd" else 0):
              break
          else:
            continue
          inputs = dict(family="low_hamming_weight", modulus_bits=n.bit_length(), weights=[h1, h2], p=p, q=q, n=n)
          ctx.case(key=(bits, h1, h2, parity, trial))
          weak, factors = rsa_util.CheckLowHammingWeight(gmpy2.mpz(n))
          ctx.check(bool(weak), "CheckLowHammingWeight flags n when both primes have Hamming weight <= 32", inputs,
                    observed=dict(weak=bool(weak), factors=[int(x) for x in factors]), expected="weak == True")
          ctx.check(not factors or sorted(int(x) for x in factors) == sorted((p, q)),
                    "factors returned by CheckLowHammingWeight are the true primes", inputs,
                    observed=[int(x) for x in factors], expected=sorted((p, q)))


@bounded("C05", "low_hamming_weight_leading_ones",
         bound="PINNED (seed-independent) draws: primes of 256 / 512 bits (weight 12 / 16) whose top k bits are ALL ones, k in {3, 4, 5, 6, 8} (both "
               "primes the same k), plus TWO fixed instances of known finding F21 (1023 bits: 6 leading ones x 1, weights 16 / 16; "
               "512 bits: 8 x 8 leading ones, weights 12 / 12 - abandoned at the default cutoff): the first expansions of the best-first search then sit "
               "exactly on its pruning boundary rem == p0 + q0; CheckLowHammingWeight(n) must flag, factors must be {p, q}",
         functions=["rsa_util.CheckLowHammingWeight"])
def leading_ones(ctx):
  from bounded import c05
  from pyvc import runtime
  runtime.install()
  import gmpy2
  from paranoid_crypto.lib import rsa_util
  # PINNED instances (independent of VERIF_SEED): this family sits at the edge of what the heuristic search finds within
  # its default cutoff of 2500 steps - other draws are genuinely not flagged (known finding F21 lists two of them, which
  # are exercised below as fixed instances) - so the draws that ARE flagged on the pinned tree are fixed, and a change
  # that loses them (seed C05-8) is reported
  import random
  rnd = random.Random("0/c05/lhw_leading_ones")

  def prime(bits, weight, lead):
    while True:
      p = (((1 << lead) - 1) << (bits - lead)) | 1
      for i in rnd.sample(range(1, bits - lead), weight - lead - 1):
        p |= 1 << i
      if gmpy2.is_prime(p):
        return p
  for bits, weight in ((256, 12), (512, 16)):
    for k1, k2 in ((3, 3), (4, 4), (5, 5), (6, 6), (8, 8)):
      for trial in range(3 if ctx.thorough else 1):
        p, q = prime(bits, weight, k1), prime(bits, weight, k2)
        if p == q:
          continue
        n = p * q
        inputs = dict(family="low_hamming_weight_leading_ones", modulus_bits=n.bit_length(), leading_ones=[k1, k2],
                      weights=[weight, weight], p=p, q=q, n=n)
        ctx.case(key=(bits, k1, k2, trial))
        weak, factors = rsa_util.CheckLowHammingWeight(gmpy2.mpz(n))
        ctx.check(bool(weak), "CheckLowHammingWeight flags n when both primes have Hamming weight <= 32", inputs,
                  observed=dict(weak=bool(weak), factors=[int(x) for x in factors]), expected="weak == True")
        ctx.check(not factors or sorted(int(x) for x in factors) == sorted((p, q)),
                  "factors returned by CheckLowHammingWeight are the true primes", inputs,
                  observed=[int(x) for x in factors], expected=sorted((p, q)))

  # fixed instance (found by this check's first thorough run with a 5-ones x 1-one pair; known finding F21): the search is
  # abandoned after the default cutoff of 2500 steps although cutoff = 10000 factors n in 0.1 s
  p = 13198310956011232422421118708661988148146030312326691768084458824365489688942824473653446617499735101859609125482253637001890260738085277855815074746204161
  q = 6808654062759232851415811939008387396274355407056128261550712743007673780904390568861489932821874644024408149136899091778300031730970435892608728687443969
  n = p * q
  inputs = dict(family="low_hamming_weight_leading_ones", modulus_bits=n.bit_length(), leading_ones=[6, 1],
                weights=[16, 16], p=p, q=q, n=n, fixed_instance="F21")
  ctx.case(key=("fixed", "F21"))
  weak, factors = rsa_util.CheckLowHammingWeight(gmpy2.mpz(n))
  ctx.check(bool(weak), "CheckLowHammingWeight flags n when both primes have Hamming weight <= 32", inputs,
            observed=dict(weak=bool(weak), factors=[int(x) for x in factors]), expected="weak == True")
  # second fixed instance of F21 (drawn by this family with VERIF_SEED=1: 256-bit primes, weight 12, eight leading ones each)
  p = 115339776388732932249269908982781315149367775419912508793771865509566756159489
  q = 115339776392103745120870151425852175083686881307638744808754676382425470205953
  n = p * q
  inputs = dict(family="low_hamming_weight_leading_ones", modulus_bits=n.bit_length(), leading_ones=[8, 8],
                weights=[12, 12], p=p, q=q, n=n, fixed_instance="F21")
  ctx.case(key=("fixed", "F21", 2))
  weak, factors = rsa_util.CheckLowHammingWeight(gmpy2.mpz(n))
  ctx.check(bool(weak), "CheckLowHammingWeight flags n when both primes have Hamming weight <= 32", inputs,
            observed=dict(weak=bool(weak), factors=[int(x) for x in factors]), expected="weak == True")
