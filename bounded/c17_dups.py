"""C17 bounded stand-in: joint EC check -- inserting a duplicate of a key anywhere in the batch changes nothing for the
other keys, and identical keys never accuse each other (index bookkeeping of BatchDLOfDifferences)."""
from pyvc.registry import bounded


@bounded("C17", "ec_small_difference_duplicates_anywhere",
         bound="secp256r1 and secp256k1, max_diff 2^10: base batches of 4-5 keys (one related pair A, A+d, healthy keys) x "
               "every key duplicated x every insertion position (quick: ~120 batches); verdict and evidence of every "
               "original key must equal its verdict in the base batch",
         functions=["ec_aggregate_checks.CheckECKeySmallDifference.Check", "ec_util.EcCurve.BatchDLOfDifferences"])
def dup_anywhere(ctx):
  from pyvc import runtime
  runtime.install()
  from paranoid_crypto import paranoid_pb2 as pb
  from paranoid_crypto.lib import ec_aggregate_checks, ec_util, util
  import random
  rnd = random.Random(f"{ctx.seed}/c17dups")
  curves = [pb.CurveType.CURVE_SECP256R1] + ([pb.CurveType.CURVE_SECP256K1] if ctx.thorough else [])
  for cid in curves:
    curve = ec_util.CURVE_FACTORY[cid]
    n = int(curve.n)

    def mk(d):
      x, y = curve.Multiply(curve.g, d)
      k = pb.ECKey()
      k.ec_info.curve_type = cid
      k.ec_info.x = util.Int2Bytes(int(x))
      k.ec_info.y = util.Int2Bytes(int(y))
      return k

    def verdicts(ds):
      keys = [mk(d) for d in ds]
      chk = ec_aggregate_checks.CheckECKeySmallDifference(max_diff=2 ** 10)
      chk.Check(keys)
      out = []
      for k in keys:
        res = [t.result for t in k.test_info.test_results if t.test_name == "CheckECKeySmallDifference"]
        out.append((res[0] if res else None, bool(k.test_info.attached_info)))
      return out
    a = rnd.randrange(1 << 200, n >> 1)
    base_sets = [[rnd.randrange(1, n), rnd.randrange(1, n), a, a + 77],
                 [a, rnd.randrange(1, n), a + 5, rnd.randrange(1, n), rnd.randrange(1, n)]]
    for base in base_sets:
      ref = verdicts(base)
      expect_flag = [d in (base[base.index(a)], ) or any(0 < abs(d - e) < 2 ** 10 for e in base) for d in base]
      for i, (r, _) in enumerate(ref):
        ctx.case(key=("base", cid, i))
        ctx.check(r == expect_flag[i], "related pair flagged, healthy keys not", dict(curve=cid, batch=base, index=i), r,
                  expect_flag[i])
      for dup in range(len(base)):
        for pos in range(len(base) + 1):
          batch = base[:pos] + [base[dup]] + base[pos:]
          got = verdicts(batch)
          orig_idx = [j for j in range(len(batch)) if j != pos]
          for bi, j in enumerate(orig_idx):
            ctx.case(key=(cid, dup, pos, bi))
            ctx.check(got[j] == ref[bi], "verdict unchanged by a duplicate inserted elsewhere in the batch",
                      dict(curve=cid, base=base, duplicated_index=dup, inserted_at=pos, key_index=bi,
                           duplicate_before_pair=True), got[j], ref[bi])
          ctx.check(got[pos] == ref[dup], "the duplicate carries the verdict of its original",
                    dict(curve=cid, base=base, duplicated_index=dup, inserted_at=pos), got[pos], ref[dup])
