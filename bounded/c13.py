"""C13 bounded stand-in: decision rule of random_test_suite.TestStructure / TestSource / TestBitString with scripted
stub tests, against a model written from the property statement; Fisher combination oracle = closed form of the Erlang
survival function  Q(k, s) = exp(-s) * sum_{i<k} s^i / i!,  s = -sum(log p), evaluated with mpmath at 60 digits
(cross-checked against mpmath.gammainc(regularized=True)), independent of util.Igamc / scipy.

The two statistical sentences of C13 (good generators pass, documented weak generators fail) are only SAMPLED in the
thorough tier with a handful of fixed seeds; that is an observation on those seeds, not evidence for the distribution.
"""
import itertools

from pyvc.registry import bounded

ALPHABET = (0.0, 1e-12, 1e-9, 5e-5, 0.01, 0.5, 1.0)
ERR = "ERR"
LEVELS = ((1e-9, 0.01), (1e-9, 1e-9), (1e-4, 0.05), (0.01, 0.01), (5e-5, 0.5))   # (p_fail, p_repeat)


def _lib():
  from pyvc import runtime
  runtime.install()
  from paranoid_crypto.lib.randomness_tests import nist_suite, random_test_suite
  return random_test_suite, nist_suite


class _Fisher:
  """Memoised exact-ish Fisher combination (mpmath, 60 digits)."""

  def __init__(self):
    import mpmath
    self.mp = mpmath.mp.clone()
    self.mp.dps = 60
    self.cache = {}

  def comb(self, pvals):
    key = tuple(pvals)
    if key in self.cache:
      return self.cache[key]
    mp = self.mp
    if not pvals:
      raise ValueError
    if len(pvals) == 1:
      r = mp.mpf(pvals[0])
    elif min(pvals) == 0:
      r = mp.mpf(0)
    else:
      s = -sum(mp.log(mp.mpf(p)) for p in pvals)
      term, tot = mp.mpf(1), mp.mpf(0)
      for i in range(len(pvals)):
        tot += term
        term = term * s / (i + 1)
      r = mp.exp(-s) * tot
    self.cache[key] = r
    return r


class _Model:
  """The decision structure as the property states it."""

  def __init__(self, fisher, p_fail, p_repeat, min_rep):
    self.f, self.p_fail, self.p_repeat, self.min_rep = fisher, p_fail, p_repeat, min_rep
    self.pv, self.comb, self.state = {}, {}, {}
    self.runs, self.finished = 0, False
    self.near_tie = False

  def run(self, result):
    self.runs += 1
    if result == ERR:
      self.finished = True
      return True
    items = [("result", result)] if isinstance(result, (int, float)) else list(result)
    undecided = 0
    mp = self.f.mp
    for name, p in items:
      pv = self.pv.setdefault(name, [])
      pv.append(p)
      c = self.f.comb(pv)
      self.comb[name] = c
      rep = self.f.comb([self.p_repeat] * len(pv))
      fail_t = mp.mpf(self.p_fail)
      # a comparison closer than 1e-9 relative that is not an exact tie cannot be decided against a float implementation
      for a, b in ((c, fail_t), (rep, c)):
        if a != b and abs(a - b) <= mp.mpf(10) ** -9 * max(abs(a), abs(b)):
          self.near_tie = True
      if c < fail_t:
        self.state[name] = "FAILED"
      elif rep < c:
        self.state[name] = "PASSED"
      else:
        self.state[name] = "UNDECIDED"
        undecided += 1
    self.finished = undecided == 0 and self.runs >= self.min_rep
    return self.finished

  def failed(self):
    return any(s == "FAILED" for s in self.state.values())


def _stub(name, script, log=None, err_cls=None):
  """A test function (bits, n, *params) replaying `script`; after the script is exhausted it returns 0.5 forever."""
  it = iter(script)

  def test(bits, n, *params):
    if log is not None:
      log.append((name, bits, n, params))
    v = next(it, 0.5)
    if v == ERR:
      raise err_cls("scripted")
    return v
  test.__name__ = name
  return test


def _compare(ctx, ts, model, ret, inputs, step):
  inp = dict(inputs, step=step)
  ok = ctx.check(ret is model.finished and ts.finished is model.finished,
                 "Run() returns / sets finished <=> (no UNDECIDED among this run's names and runs >= min_repetitions), "
                 "InsufficientDataError => finished", inp, observed=[ret, ts.finished], expected=model.finished)
  got_state = {k: v.name for k, v in ts.state.items()}
  ok &= ctx.check(got_state == model.state,
                  "state[name] == FAILED iff comb < p_fail, else PASSED iff comb([p_repeat]*k) < comb, else UNDECIDED",
                  inp, observed=got_state, expected=model.state)
  ok &= ctx.check({k: list(v) for k, v in ts.p_values.items() if v} == model.pv and ts.runs == model.runs,
                  "p_values[name] grows by exactly this run's p; runs counts calls", inp,
                  observed={k: list(v) for k, v in ts.p_values.items()}, expected=model.pv)
  for name, c in model.comb.items():
    g = ts.combined_p_values.get(name)
    close = g is not None and (abs(g - float(c)) <= 1e-9 * max(abs(float(c)), 1e-300) or (g < 1e-300 and c < 1e-300))
    ok &= ctx.check(close, "combined_p_values[name] == Fisher combination (rel 1e-9)", dict(inp, name=name),
                    observed=g, expected=float(c))
  ok &= ctx.check(ts.Failed() is model.failed(), "Failed() <=> some state is FAILED", inp, observed=ts.Failed(),
                  expected=model.failed())
  return ok


def _drive(ctx, rts, err_cls, fisher, script, level, min_rep, inputs):
  p_fail, p_repeat = level
  model = _Model(fisher, p_fail, p_repeat, min_rep)
  ts = rts.TestStructure(_stub("Stub", script, err_cls=err_cls), [], p_fail, p_repeat, min_repetitions=min_rep)
  trace = []
  for step, item in enumerate(script):
    exp = model.run(item)
    if model.near_tie:
      ctx.case(nontrivial=False)
      return
    ret = ts.Run(0b1011, 4)
    trace.append((exp, tuple(sorted(model.state.items()))))
    if not _compare(ctx, ts, model, ret, inputs, step):
      break
  ctx.case(key=(level, min_rep, tuple(trace)))


@bounded("C13", "fisher_oracle_self_check",
         bound="closed form vs mpmath.gammainc(k, s, inf, regularized=True) on all multisets of <= 4 non-zero alphabet "
               "values (independence of the two oracle formulations)",
         functions=["(oracle only)"])
def fisher_self_check(ctx):
  f = _Fisher()
  mp = f.mp
  for k in range(2, 5):
    for pv in itertools.combinations_with_replacement([p for p in ALPHABET if p > 0], k):
      s = -sum(mp.log(mp.mpf(p)) for p in pv)
      a = f.comb(list(pv))
      b = mp.gammainc(k, s, mp.inf, regularized=True) if s > 0 else mp.mpf(1)
      ctx.case(key=pv)
      ctx.check(abs(a - b) <= mp.mpf(10) ** -40 * max(a, b), "closed form == regularized upper incomplete gamma",
                dict(pvals=list(pv), oracle=True), observed=str(a), expected=str(b))


@bounded("C13", "test_structure_scalar_results_exhaustive",
         bound="ALL scripts of length <= 4 over {0, 1e-12, 1e-9, 5e-5, 0.01, 0.5, 1, InsufficientDataError} (4680 "
               "scripts; single-float results, 0 and 1 additionally as Python ints) x 5 (p_fail, p_repeat) levels incl. "
               "p_fail == p_repeat and thresholds equal to alphabet values (exact ties) x min_repetitions 1..3; full "
               "structure compared with the model after EVERY Run",
         functions=["random_test_suite.TestStructure.Run", "random_test_suite.TestStructure.Failed",
                    "randomness_tests/util.CombinedPValue"],
         exhaustive=True)
def scalar_scripts(ctx):
  rts, nist = _lib()
  fisher = _Fisher()
  symbols = ALPHABET + (ERR,)
  for length in range(1, 5):
    for script in itertools.product(symbols, repeat=length):
      for li, level in enumerate(LEVELS):
        for min_rep in (1, 2, 3):
          _drive(ctx, rts, nist.InsufficientDataError, fisher, script, level, min_rep,
                 dict(form="float", script=list(script), p_fail=level[0], p_repeat=level[1], min_repetitions=min_rep))
      if length <= 2:
        as_int = tuple(int(v) if v in (0.0, 1.0) else v for v in script)
        if as_int != script or any(isinstance(v, float) and v in (0.0, 1.0) for v in script):
          _drive(ctx, rts, nist.InsufficientDataError, fisher, as_int, LEVELS[0], 1,
                 dict(form="int", script=[repr(v) for v in as_int], p_fail=LEVELS[0][0], p_repeat=LEVELS[0][1],
                      min_repetitions=1))


@bounded("C13", "test_structure_named_results_exhaustive",
         bound="named results: (a) ALL pairs of equally long scripts (length 1..2) for two names returned together; "
               "(b) ALL scripts of <= 3 runs where every run returns any subset of {a, b} (incl. the empty list) with "
               "p in {1e-12, 5e-5, 0.5} or raises InsufficientDataError (17 choices per run), so that an UNDECIDED "
               "name may be absent from a later run; x 3 levels x min_repetitions 1..2",
         functions=["random_test_suite.TestStructure.Run", "random_test_suite.TestStructure.Failed"],
         exhaustive=True)
def named_scripts(ctx):
  rts, nist = _lib()
  fisher = _Fisher()
  levels = LEVELS[:3]
  for length in (1, 2):
    seqs = list(itertools.product(ALPHABET, repeat=length))
    for sa in seqs:
      for sb in seqs:
        script = tuple((("a", pa), ("b", pb)) for pa, pb in zip(sa, sb))
        for level in levels:
          for min_rep in (1, 2):
            _drive(ctx, rts, nist.InsufficientDataError, fisher, script, level, min_rep,
                   dict(form="named2", a=list(sa), b=list(sb), p_fail=level[0], p_repeat=level[1],
                        min_repetitions=min_rep))
  small = (1e-12, 5e-5, 0.5)
  choices = [ERR, ()]
  choices += [(("a", p),) for p in small] + [(("b", p),) for p in small]
  choices += [(("a", p), ("b", q)) for p in small for q in small]
  for length in (1, 2, 3):
    for script in itertools.product(choices, repeat=length):
      for level in levels:
        for min_rep in (1, 2):
          _drive(ctx, rts, nist.InsufficientDataError, fisher, script, level, min_rep,
                 dict(form="subsets", script=[list(map(list, r)) if r != ERR else ERR for r in script],
                      p_fail=level[0], p_repeat=level[1], min_repetitions=min_rep))


def _simulate_source(fisher, scripts, level_fail, level_repeat, min_rep, cap=60):
  """Model of TestSource: re-run exactly the unfinished tests on a fresh draw until none is unfinished."""
  models = [_Model(fisher, level_fail, level_repeat, min_rep) for _ in scripts]
  its = [iter(s) for s in scripts]
  calls = [0] * len(scripts)
  rounds = 0
  undecided = len(models)
  while undecided:
    rounds += 1
    if rounds > cap:
      return None
    undecided = 0
    for i, m in enumerate(models):
      if m.finished:
        continue
      calls[i] += 1
      if not m.run(next(its[i], 0.5)):
        undecided += 1
  if any(m.near_tie for m in models):
    return None
  return dict(rounds=rounds, calls=calls, failed=any(m.failed() for m in models))


@bounded("C13", "test_source_and_bitstring_drivers",
         bound="TestSource with TESTS replaced (in this process only) by two scripted stubs: ALL pairs of scripts of "
               "length <= 2 over the alphabet + InsufficientDataError, followed by 0.5 forever, x min_repetitions 1..2, "
               "default levels; checks number of source draws, which stub is re-run on which draw with which bits, and "
               "the returned bool; test_prefix filtering; TestBitString on ALL pairs of single results x 3 levels",
         functions=["random_test_suite.TestSource", "random_test_suite.TestBitString"], exhaustive=True)
def drivers(ctx):
  rts, nist = _lib()
  fisher = _Fisher()
  symbols = ALPHABET + (ERR,)
  scripts = [()] + [s for L in (1, 2) for s in itertools.product(symbols, repeat=L)]
  saved = rts.TESTS
  try:
    for sa in scripts:
      for sb in scripts:
        for min_rep in (1, 2):
          exp = _simulate_source(fisher, [sa, sb], 1e-9, 0.01, min_rep)
          if exp is None:
            ctx.case(nontrivial=False)
            continue
          log, draws = [], []

          def source(n):
            draws.append(n)
            return 1000 + len(draws)
          rts.TESTS = [(_stub("StubA", sa, log, nist.InsufficientDataError), []),
                       (_stub("StubB", sb, log, nist.InsufficientDataError), [7])]
          ret = rts.TestSource(source, 64, log_level=0, min_repetitions=min_rep)
          inp = dict(driver="TestSource", script_a=list(sa), script_b=list(sb), min_repetitions=min_rep)
          ctx.case(key=(sa, sb, min_rep), sample=dict(inp, rounds=exp["rounds"], failed=exp["failed"]))
          ctx.check(ret is exp["failed"], "TestSource returns True <=> some sub-test FAILED", inp, observed=ret,
                    expected=exp["failed"])
          ctx.check(draws == [64] * exp["rounds"], "one draw of n bits per round, stops when no test is unfinished", inp,
                    observed=len(draws), expected=exp["rounds"])
          calls = [sum(1 for e in log if e[0] == nm) for nm in ("StubA", "StubB")]
          ctx.check(calls == exp["calls"], "exactly the unfinished tests are re-run", inp, observed=calls,
                    expected=exp["calls"])
          # every call in round r saw the bits drawn in round r, n, and its params
          per = {"StubA": 0, "StubB": 0}
          good = True
          for nm, bits, n, params in log:
            per[nm] += 1
            good &= bits == 1000 + per[nm] and n == 64 and params == (() if nm == "StubA" else (7,))
          ctx.check(good, "tests receive (bits of this round, n, *params)", inp, observed=log[:4])
    # prefix filter
    for prefix, active in (("StubA", [0]), ("StubB", [1]), ("Stub", [0, 1]), (None, [0, 1])):
      for pa in (1e-12, 0.5):
        for pb in (1e-12, 0.5):
          log = []
          rts.TESTS = [(_stub("StubA", (pa,), log, nist.InsufficientDataError), []),
                       (_stub("StubB", (pb,), log, nist.InsufficientDataError), [])]
          ret = rts.TestSource(lambda n: 5, 8, test_prefix=prefix, log_level=0)
          exp = any(p < 1e-9 for i, p in enumerate((pa, pb)) if i in active)
          ctx.case(key=("prefix", prefix, pa, pb))
          ctx.check(ret is exp and sorted({e[0] for e in log}) == [("StubA", "StubB")[i] for i in active],
                    "test_prefix selects the tests whose name starts with it", dict(driver="TestSource", prefix=prefix,
                                                                                    p_a=pa, p_b=pb), observed=ret,
                    expected=exp)
    # TestBitString: one run per test, both levels equal
    for level in (1e-9, 5e-5, 0.01):
      for ra in symbols:
        for rb in symbols + ((("x", 0.5), ("y", 1e-12)),):
          log = []
          rts.TESTS = [(_stub("StubA", (ra,), log, nist.InsufficientDataError), []),
                       (_stub("StubB", (rb,), log, nist.InsufficientDataError), [3])]
          ret = rts.TestBitString(0xABCDEF, 24, significance_level=level, log_level=0)
          ms = [_Model(fisher, level, level, 1), _Model(fisher, level, level, 1)]
          ms[0].run(ra)
          ms[1].run(rb)
          exp = ms[0].failed() or ms[1].failed()
          inp = dict(driver="TestBitString", result_a=ra, result_b=rb if not isinstance(rb, tuple) else list(map(list, rb)),
                     significance_level=level)
          ctx.case(key=("bitstring", level, ra, rb))
          ctx.check(ret is exp, "TestBitString returns True <=> some p-value is below the significance level", inp,
                    observed=ret, expected=exp)
          ctx.check([(e[0], e[1], e[2], e[3]) for e in log] == [("StubA", 0xABCDEF, 24, ()), ("StubB", 0xABCDEF, 24, (3,))],
                    "TestBitString runs every test exactly once on the given string", inp, observed=log)
  finally:
    rts.TESTS = saved


# ----------------------------------------------------------------------------------------------------------------------
# thorough: a SAMPLE of the statistical sentences (fixed seeds; see module docstring)

class _SeededSource:
  def __init__(self, rng_mod, name, seed):
    self.g, self.seed, self.calls = rng_mod.GetRng(name), seed, 0

  def __call__(self, n):
    self.calls += 1
    return self.g.RandomBits(n, seed=self.seed + 7919 * self.calls)


@bounded("C13", "sample_good_generators_do_not_fail",
         bound="SAMPLE, not a distributional claim: TestSource (all 24 tests, default levels 0.01 / 1e-9) on 2^20 bits "
               "of shake128 (2 seeds), pcg64 and philox (1 seed each), seeds derived from VERIF_SEED",
         functions=["random_test_suite.TestSource", "nist_suite.*", "extended_nist_suite.*", "lattice_suite.FindBias"],
         tier="thorough")
def sample_good(ctx):
  from pyvc import runtime
  runtime.install(with_bm=True)
  from paranoid_crypto.lib.randomness_tests import random_test_suite as rts, rng
  for name, seed in (("shake128", 1 + ctx.seed), ("shake128", 0xC0FFEE + ctx.seed), ("pcg64", 17 + ctx.seed),
                     ("philox", 23 + ctx.seed)):
    src = _SeededSource(rng, name, seed)
    ret = rts.TestSource(src, 1 << 20, log_level=0)
    ctx.case(key=(name, seed), sample=dict(generator=name, seed=seed, draws=src.calls, failed=ret))
    ctx.check(ret is False, "a cryptographic / modern generator is not failed at the 1e-9 level on 2^20 bits",
              dict(generator=name, seed=seed, n_bits=1 << 20, statistical_sample=True), observed=ret, expected=False)


@bounded("C13", "sample_documented_weak_generators_fail",
         bound="SAMPLE: one seed each; FindBias on 2^20 bits of trunclcg32/64/128, lehmer128, java, mwc64/128/256; "
               "LargeBinaryMatrixRank and LinearComplexityScatter on 2^20 (xorshift128+, xorwow) / 2^23 (xorshift*) bits, "
               "as named in docs/randomness_tests.md",
         functions=["random_test_suite.TestSource", "lattice_suite.FindBias", "extended_nist_suite.LargeBinaryMatrixRank",
                    "extended_nist_suite.LinearComplexityScatter"],
         tier="thorough")
def sample_weak(ctx):
  from pyvc import runtime
  runtime.install(with_bm=True)
  from paranoid_crypto.lib.randomness_tests import random_test_suite as rts, rng
  plan = [(g, "FindBias", 20) for g in ("trunclcg32", "trunclcg64", "trunclcg128", "lehmer128", "java", "mwc64", "mwc128",
                                        "mwc256")]
  plan += [("xorshift128+", "LargeBinaryMatrixRank", 20), ("xorwow", "LargeBinaryMatrixRank", 20),
           ("xorshift*", "LargeBinaryMatrixRank", 23), ("xorshift128+", "LinearComplexityScatter", 20),
           ("xorwow", "LinearComplexityScatter", 20), ("xorshift*", "LinearComplexityScatter", 20)]
  for name, prefix, lg in plan:
    src = _SeededSource(rng, name, 99 + ctx.seed)
    ret = rts.TestSource(src, 1 << lg, test_prefix=prefix, log_level=0)
    ctx.case(key=(name, prefix), sample=dict(generator=name, test=prefix, failed=ret))
    ctx.check(ret is True, "the documented test fails the documented weak generator",
              dict(generator=name, test=prefix, n_bits=1 << lg, seed=99 + ctx.seed, statistical_sample=True),
              observed=ret, expected=True)
