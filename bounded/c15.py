"""C15 bounded stand-in: every public bit-sequence primitive of randomness_tests/util.py is run on enumerated domains and
compared with its one-line definition, written here on an explicit Python list of bits (never counted as proved).

Conventions (from the docstrings of util.py): a bit string of length L is the integer seq = sum(s[i] << i), s[0] being the
first bit.  An m-bit subsequence starting at position i is the integer sum(s[(i + j) mod L] << j for j < m)."""
import array
from collections import Counter

from pyvc.registry import bounded


def _rng(ctx, tag):
  """Deterministic given ctx.seed (ctx.rnd depends on the per-process string hash)."""
  import random
  return random.Random("c15:%d:%s" % (ctx.seed, tag))


def _util():
  from pyvc import runtime
  runtime.install()
  from paranoid_crypto.lib.randomness_tests import util
  return util


# ---------------------------------------------------------------- definitions (oracles) -------------------------------

def _bits(seq, length):
  """s[0..length-1] as a list; s[i] is bit i of seq."""
  return [(seq >> i) & 1 for i in range(length)]


def _val(bl):
  """Integer whose bit j is bl[j]."""
  return sum(b << j for j, b in enumerate(bl))


def _windows(bl, m, wrap):
  """All m-bit windows of the bit list: window i is s[i], s[i+1], .., s[i+m-1] (indices mod L iff wrap), s[i] least
  significant.  With wrap there are L windows, without L - m + 1."""
  ext = bl + bl[:m - 1] if wrap else bl
  # text form, most significant bit of each window first: reverse the list once, then window i of ext is the slice
  # [len-i-m : len-i] of the reversed text.
  txt = "".join("1" if b else "0" for b in reversed(ext))
  n = len(ext)
  return [int(txt[n - i - m:n - i], 2) for i in range(n - m + 1)]


def _windows_slow(bl, m, wrap):
  L = len(bl)
  cnt = L if wrap else L - m + 1
  return [sum(bl[(i + j) % L] << j for j in range(m)) for i in range(cnt)]


def _freq_equal(res, m, expected_windows):
  """res == tally of expected_windows as a list of length 2**m, without materialising a second 2**m list."""
  if not isinstance(res, list) or len(res) != 2 ** m:
    return False
  c = Counter(expected_windows)
  if res.count(0) != 2 ** m - len(c):
    return False
  return all(res[k] == v for k, v in c.items())


def _o_split(bl, m):
  return [_val(bl[i * m:(i + 1) * m]) for i in range(len(bl) // m)]


def _o_scatter(bl, m):
  return [_val(bl[i::m]) for i in range(m)]


def _o_runs(bl):
  return 0 if not bl else 1 + sum(1 for i in range(len(bl) - 1) if bl[i] != bl[i + 1])


def _o_longest_run(bl):
  best = cur = 0
  for b in bl:
    cur = cur + 1 if b else 0
    best = max(best, cur)
  return best


def _o_overlapping(bl, m):
  return sum(1 for i in range(len(bl) - m + 1) if all(bl[i:i + m]))


def _o_rank_span(rows):
  """Definition: log2 of the size of the row space (all XOR combinations of the rows). Small matrices only."""
  span = {0}
  for r in rows:
    span |= {x ^ r for x in span}
  return len(span).bit_length() - 1


def _o_rank(rows):
  """Independent GF(2) elimination: online basis indexed by the LOWEST set bit (the library pivots on the highest)."""
  basis = {}
  for r in rows:
    while r:
      low = r & -r
      b = basis.get(low)
      if b is None:
        basis[low] = r
        break
      r ^= b
  return len(basis)


def _structured(rnd, length):
  """A handful of seeded strings of a given length: random, constant, sparse, dense, periodic, long runs."""
  if length == 0:
    return [("empty", 0)]
  full = (1 << length) - 1
  out = [("random", rnd.getrandbits(length)), ("zeros", 0), ("ones", full)]
  sp = 0
  for _ in range(max(1, length // 40)):
    sp |= 1 << rnd.randrange(length)
  out.append(("sparse", sp))
  out.append(("dense", full ^ sp))
  p = rnd.randrange(1, 12)
  pat = rnd.getrandbits(p) | 1
  per = 0
  for k in range(0, length, p):
    per |= pat << k
  out.append(("periodic", per & full))
  out.append(("top_bit", 1 << (length - 1)))
  out.append(("random2", rnd.getrandbits(length) | 1 | (1 << (length - 1))))
  return out


# ---------------------------------------------------------------- FrequencyCount / SubSequences ------------------------

@bounded("C15", "frequency_count_exhaustive",
         bound="all bit strings of length L <= 12 (quick) / <= 16 (thorough) x all m in 1..L x wrap in {True, False}: "
               "FrequencyCount == tally, SubSequences == multiset of the m-bit windows; m = L + 1 raises ValueError",
         functions=["randomness_tests/util.FrequencyCount", "randomness_tests/util.SubSequences"], exhaustive=True)
def frequency_count_exhaustive(ctx):
  util = _util()
  lmax = 16 if ctx.thorough else 12
  # self-test of the fast window oracle against the literal definition
  for L in range(1, 9):
    for seq in range(0, 1 << L, 3):
      bl = _bits(seq, L)
      for m in range(1, L + 1):
        for wrap in (True, False):
          assert _windows(bl, m, wrap) == _windows_slow(bl, m, wrap)
  for L in range(0, lmax + 1):
    for seq in range(1 << L):
      bl = _bits(seq, L)
      for m in range(1, L + 1):
        w_wrap = _windows(bl, m, True)
        for wrap in (True, False):
          exp = w_wrap if wrap else w_wrap[:L - m + 1]
          ctx.case(key=(L, m, wrap))
          got = util.FrequencyCount(seq, L, m, wrap)
          if not _freq_equal(got, m, exp):
            ctx.fail("FrequencyCount(seq, L, m, wrap)[v] == #{i : window_i == v}", dict(seq=seq, length=L, m=m, wrap=wrap),
                     got if m <= 6 else "list", sorted(Counter(exp).items()))
          sub = sorted(util.SubSequences(seq, L, m, wrap))
          ctx.check(sub == sorted(exp), "SubSequences yields exactly the multiset of m-bit windows",
                    dict(seq=seq, length=L, m=m, wrap=wrap), sub, sorted(exp))
      if seq < 4 or seq == (1 << L) - 1:
        for fn in ("FrequencyCount", "SubSequences"):
          for wrap in (True, False):
            try:
              r = getattr(util, fn)(seq, L, L + 1, wrap)
              r = list(r)
              ok = False
            except ValueError:
              ok = True
            ctx.case(key=(fn, "m>L", L))
            ctx.check(ok, fn + " raises ValueError for m > length", dict(seq=seq, length=L, m=L + 1, wrap=wrap))


@bounded("C15", "frequency_count_fast_path_thresholds",
         bound="m in 1..6 (quick) / 1..10 (thorough): lengths 50*2^m - 8 .. 50*2^m + 17 (both sides of the 4-bit-stride "
               "fast path `50 * 2**m < length`, every residue mod 8) x 8 seeded structured strings x wrap in {T,F}; plus "
               "long strings (length 2^12..2^13 quick / up to 2^16 + r, r in 0..7, thorough) x m in 1..12 (thorough 16, "
               "and m = 20 once); the conjunct `m < 24` is only reachable beyond length 8.4e8 and is NOT exercised",
         functions=["randomness_tests/util.FrequencyCount", "randomness_tests/util.SubSequences"])
def frequency_count_thresholds(ctx):
  util = _util()
  rnd = _rng(ctx, "frequency_count_thresholds")

  def one(seq, L, m, kind, with_sub):
    bl = _bits(seq, L)
    w_wrap = _windows(bl, m, True)
    for wrap in (True, False):
      exp = w_wrap if wrap else w_wrap[:L - m + 1]
      fast = 50 * 2 ** m < L and m < 24
      ctx.case(key=(m, L % 8, fast, wrap, kind if L < 30000 else "long"))
      got = util.FrequencyCount(seq, L, m, wrap)
      if not _freq_equal(got, m, exp):
        ctx.fail("FrequencyCount == tally of the m-bit windows", dict(seq=seq, length=L, m=m, wrap=wrap, kind=kind,
                                                                   fast_path=fast),
                 got if m <= 5 else "list", sorted(Counter(exp).items())[:40])
      if with_sub:
        sub = sorted(util.SubSequences(seq, L, m, wrap))
        ctx.check(sub == sorted(exp), "SubSequences yields exactly the multiset of m-bit windows",
                  dict(seq=seq, length=L, m=m, wrap=wrap, kind=kind))

  for m in range(1, 11 if ctx.thorough else 7):
    t = 50 * 2 ** m
    for L in range(t - 8, t + 18):
      for kind, seq in _structured(rnd, L):
        one(seq, L, m, kind, with_sub=(kind in ("random", "periodic") and m <= 6))
  # the same length seen by neighbouring m (fast for small m, slow for larger m)
  longs = [4096 + r for r in range(8)] + [8191, 8192]
  if ctx.thorough:
    longs += [65536 + r for r in range(8)] + [50001, 32767]
  for L in longs:
    strings = _structured(rnd, L)
    for kind, seq in (strings if L < 10000 else strings[:1] + strings[3:6]):
      for m in range(1, 17 if ctx.thorough else 13):
        if L >= 60000 and m not in (1, 2, 3, 7, 8, 9, 10, 11, 16):
          continue
        one(seq, L, m, kind, with_sub=False)
  if ctx.thorough:
    L = 70003
    one(rnd.getrandbits(L), L, 20, "random", with_sub=False)


# ---------------------------------------------------------------- SplitSequence ---------------------------------------

@bounded("C15", "split_sequence_exhaustive",
         bound="all bit strings of length L <= 12 (quick) / <= 16 (thorough) x all m in 1..L+1",
         functions=["randomness_tests/util.SplitSequence"], exhaustive=True)
def split_sequence_exhaustive(ctx):
  util = _util()
  lmax = 16 if ctx.thorough else 12
  for L in range(0, lmax + 1):
    for seq in range(1 << L):
      bl = _bits(seq, L)
      for m in range(1, L + 2):
        ctx.case(key=(L, m))
        got = util.SplitSequence(seq, L, m)
        exp = _o_split(bl, m)
        ctx.check(got == exp, "SplitSequence(seq, L, m)[i] == bits i*m .. (i+1)*m-1 for i < L // m",
                  dict(seq=seq, length=L, m=m), got, exp)


@bounded("C15", "split_sequence_block_sizes",
         bound="block sizes m in 1..70 and {128, 255, 256, 257, 1000, 1032} x lengths {k*m + r : k in {0,1,2,7}, r in 0..7} "
               "and 997..1004 (quick) / additionally 4093..4100, 65531..65538 (thorough) x 8 seeded structured strings "
               "(incl. strings with leading zero bytes); byte-aligned fast path m % 8 == 0 vs shift-and-mask",
         functions=["randomness_tests/util.SplitSequence"])
def split_sequence_block_sizes(ctx):
  util = _util()
  rnd = _rng(ctx, "split_sequence_block_sizes")
  ms = list(range(1, 71)) + [128, 255, 256, 257, 1000, 1032]
  for m in ms:
    lengths = sorted({k * m + r for k in (0, 1, 2, 7) for r in range(8)} | set(range(997, 1005)))
    if ctx.thorough:
      lengths += list(range(4093, 4101)) + (list(range(65531, 65539)) if m % 3 == 1 or m in (8, 32, 64) else [])
    for L in lengths:
      strings = _structured(rnd, L)
      for kind, seq in (strings if L < 5000 else strings[:1] + strings[5:6]):
        ctx.case(key=(m, L % 8, kind, L // m > 0))
        got = util.SplitSequence(seq, L, m)
        # definition evaluated on the integer: block i = floor(seq / 2^(i*m)) mod 2^m (cheaper than a bit list for 2^16)
        bl = _bits(seq, L)
        exp = _o_split(bl, m)
        ctx.check(got == exp, "SplitSequence(seq, L, m)[i] == bits i*m .. (i+1)*m-1 for i < L // m",
                  dict(seq=seq, length=L, m=m, kind=kind, byte_aligned=(m % 8 == 0)),
                  got[:6], exp[:6])


# ---------------------------------------------------------------- Scatter ---------------------------------------------

@bounded("C15", "scatter",
         bound="all seq < 2^12 (quick) / 2^16 (thorough) x all m in 1..bit_length+2; seeded structured strings of "
               "length 1..300 and 1021..1030 (thorough also 4090..4100) x m in 1..70 and m in bit_length-1..bit_length+2",
         functions=["randomness_tests/util.Scatter"], exhaustive=True)
def scatter(ctx):
  util = _util()
  rnd = _rng(ctx, "scatter")
  lim = 16 if ctx.thorough else 12
  for seq in range(1 << lim):
    bl = _bits(seq, seq.bit_length())
    for m in range(1, seq.bit_length() + 3):
      ctx.case(key=(seq.bit_length(), m))
      got = util.Scatter(seq, m)
      exp = _o_scatter(bl, m)
      ctx.check(got == exp, "Scatter(seq, m)[i] has bits i, i+m, i+2m, .. of seq", dict(seq=seq, m=m), got, exp)
  lengths = list(range(1, 301)) + list(range(1021, 1031)) + (list(range(4090, 4101)) if ctx.thorough else [])
  for L in lengths:
    for kind, seq in _structured(rnd, L):
      bl = _bits(seq, seq.bit_length())
      bln = seq.bit_length()
      ms = set(range(1, 71 if L > 30 or ctx.thorough else 12)) | {max(1, bln - 1), max(1, bln), bln + 1, bln + 2}
      if not ctx.thorough and L > 300:
        ms = {1, 2, 3, 7, 8, 9, 63, 64, 65, max(1, bln - 1), max(1, bln), bln + 1}
      for m in sorted(ms):
        if m > 1200:
          continue
        ctx.case(key=(L % 8, min(m, 80), kind))
        got = util.Scatter(seq, m)
        exp = _o_scatter(bl, m)
        ctx.check(got == exp, "Scatter(seq, m)[i] has bits i, i+m, i+2m, .. of seq", dict(seq=seq, m=m, kind=kind),
                  got[:5], exp[:5])


# ---------------------------------------------------------------- Runs / LongestRunOfOnes / OverlappingRunsOfOnes ------

@bounded("C15", "runs_and_run_lengths",
         bound="all bit strings of length L <= 12 (quick) / <= 16 (thorough): Runs, LongestRunOfOnes, "
               "OverlappingRunsOfOnes for all m in 1..L+1; seeded structured strings of every length 1..600 (quick) / "
               "1..2100 (thorough) plus strings built from runs of ones of every length 1..140 and 250..260, 510..515, "
               "1022..1027 (doubling steps of the AND-shift loops) separated by single zeros",
         functions=["randomness_tests/util.Runs", "randomness_tests/util.LongestRunOfOnes",
                    "randomness_tests/util.OverlappingRunsOfOnes"], exhaustive=True)
def runs_and_run_lengths(ctx):
  util = _util()
  rnd = _rng(ctx, "runs_and_run_lengths")
  lmax = 16 if ctx.thorough else 12

  def one(seq, L, ms, kind):
    bl = _bits(seq, L)
    ctx.case(key=("runs", L if L < 40 else L % 8 + 40, kind))
    got = util.Runs(seq, L)
    exp = _o_runs(bl)
    ctx.check(got == exp, "Runs(s, L) == 1 + #{i : s[i] != s[i+1]} (0 for the empty string)",
              dict(seq=seq, length=L, kind=kind), got, exp)
    got = util.LongestRunOfOnes(seq)
    exp = _o_longest_run(bl)
    ctx.check(got == exp, "LongestRunOfOnes(seq) == longest block of consecutive 1 bits",
              dict(seq=seq, length=L, kind=kind), got, exp)
    for m in ms:
      ctx.case(key=("ovl", min(m, 200), kind))
      got = util.OverlappingRunsOfOnes(seq, m)
      exp = _o_overlapping(bl, m)
      ctx.check(got == exp, "OverlappingRunsOfOnes(seq, m) == #{i : s[i..i+m-1] all 1}",
                dict(seq=seq, length=L, m=m, kind=kind), got, exp)

  for L in range(0, lmax + 1):
    for seq in range(1 << L):
      one(seq, L, range(1, L + 2), "exhaustive")
  for L in range(1, 2101 if ctx.thorough else 601):
    for kind, seq in _structured(rnd, L):
      ms = [1, 2, 3, 4, 5, 7, 8, 9, 10, 15, 16, 17, 31, 32, 33, L - 1, L, L + 1] if L % 7 == 0 or L < 80 else [1, 2, 9, L]
      one(seq, L, [m for m in ms if m >= 1], kind)
  run_lengths = list(range(1, 141)) + list(range(250, 261)) + list(range(510, 516)) + list(range(1022, 1028))
  for r in run_lengths:
    # r ones, a zero, r-1 ones, a zero, a random tail without long runs
    tail = rnd.getrandbits(64) & 0x5B6DB6DB6DB6DB6D
    seq = tail
    L = 64
    for rl in (r - 1, r, max(1, r // 2)):
      seq |= ((1 << rl) - 1) << (L + 1)
      L += rl + 1
    L += 1
    ms = sorted({1, 2, 3, r - 1, r, r + 1, r // 2, r // 2 + 1, 9, 10} - {0, -1})
    one(seq, L, ms, "runs_of_%d" % min(r, 141))
    one(((1 << r) - 1), r, [1, r - 1, r, r + 1] if r > 1 else [1, 2], "all_ones")
    one(((1 << r) - 1) << 5, r + 9, [r, r + 1], "all_ones_shifted")


# ---------------------------------------------------------------- ReverseBits / Bits / BitCount -----------------------

@bounded("C15", "reverse_bits_bits_bitcount",
         bound="all bit strings of length L <= 12 (quick) / <= 16 (thorough); seeded structured strings of every length "
               "1..600 (quick) / 1..2100 and 65529..65544 (thorough)",
         functions=["randomness_tests/util.ReverseBits", "randomness_tests/util.Bits", "randomness_tests/util.BitCount"],
         exhaustive=True)
def reverse_bits_bits_bitcount(ctx):
  util = _util()
  rnd = _rng(ctx, "reverse_bits_bits_bitcount")
  lmax = 16 if ctx.thorough else 12

  def one(seq, L, kind):
    bl = _bits(seq, L)
    ctx.case(key=(L if L < 40 else L % 8 + 40, kind))
    got = util.ReverseBits(seq, L)
    exp = _val(bl[::-1])
    ctx.check(got == exp, "bit i of ReverseBits(seq, L) == bit L-1-i of seq", dict(seq=seq, length=L, kind=kind), got, exp)
    got = util.Bits(seq, L)
    exp = [1 if b else -1 for b in bl]
    ctx.check(isinstance(got, array.array) and list(got) == exp, "Bits(seq, L)[i] == +1 if bit i of seq else -1, len L",
              dict(seq=seq, length=L, kind=kind), list(got)[:20], exp[:20])
    got = util.BitCount(seq)
    exp = sum(bl)
    ctx.check(got == exp and isinstance(int(got), int), "BitCount(seq) == number of 1 bits",
              dict(seq=seq, length=L, kind=kind), got, exp)

  for L in range(0, lmax + 1):
    for seq in range(1 << L):
      one(seq, L, "exhaustive")
  lengths = list(range(1, 2101 if ctx.thorough else 601)) + (list(range(65529, 65545)) if ctx.thorough else [])
  for L in lengths:
    for kind, seq in _structured(rnd, L):
      one(seq, L, kind)
  # the byte table behind ReverseBits: all 256 byte values at every alignment of an 8..16 bit string
  for b in range(256):
    for L in range(8, 17):
      for sh in range(L - 7):
        one(b << sh, L, "byte")


# ---------------------------------------------------------------- BinaryMatrixRank ------------------------------------

def _rank_all(ctx, util, rows, info, exp=None):
  if exp is None:
    exp = _o_rank(rows)
  n = len(rows)
  got = util.BinaryMatrixRank(list(rows))
  ctx.check(got == exp, "BinaryMatrixRank == GF(2) rank", dict(info, rows=n, impl="BinaryMatrixRank"), got, exp)
  got_s = util._BinaryMatrixRankSmall(list(rows))
  ctx.check(got_s == exp, "_BinaryMatrixRankSmall == GF(2) rank", dict(info, rows=n, impl="small"), got_s, exp)
  got_l = util._BinaryMatrixRankLarge(list(rows))
  ctx.check(got_l == exp, "_BinaryMatrixRankLarge == GF(2) rank", dict(info, rows=n, impl="large"), got_l, exp)
  return exp


@bounded("C15", "binary_matrix_rank_small_exhaustive",
         bound="all r x c binary matrices with r, c <= 4 (incl. the empty matrix and zero-width rows), and all 5x3, 3x5 "
               "(thorough: also 5x4, 4x5, 6x3); BinaryMatrixRank, _BinaryMatrixRankSmall and _BinaryMatrixRankLarge "
               "against the size of the row space; negative rows raise ValueError",
         functions=["randomness_tests/util.BinaryMatrixRank", "randomness_tests/util._BinaryMatrixRankSmall",
                    "randomness_tests/util._BinaryMatrixRankLarge"], exhaustive=True)
def rank_exhaustive(ctx):
  util = _util()
  shapes = [(r, c) for r in range(0, 5) for c in range(0, 5)] + [(5, 3), (3, 5)]
  if ctx.thorough:
    shapes += [(5, 4), (4, 5), (6, 3)]
  for r, c in shapes:
    for code in range(1 << (r * c)):
      rows = [(code >> (i * c)) & ((1 << c) - 1) for i in range(r)]
      exp = _o_rank_span(rows)
      # the two oracles (definition / lowest-bit elimination) must agree, otherwise the oracle is at fault
      assert exp == _o_rank(rows), rows
      ctx.case(key=(r, c, exp))
      _rank_all(ctx, util, rows, dict(matrix=rows, cols=c), exp)
  for rows in ([-1], [1, -2, 3], [0] * 49 + [-5], [0] * 50 + [-5]):
    try:
      util.BinaryMatrixRank(rows)
      ok = False
    except ValueError:
      ok = True
    ctx.case(key=("neg", len(rows)))
    ctx.check(ok, "BinaryMatrixRank raises ValueError for a negative row", dict(rows=len(rows), negative=True))


def _gf2_product_rows(rnd, r, k, c):
  """Rows of A*B over GF(2), A random r x k, B random k x c: rank <= k."""
  basis = [rnd.getrandbits(c) for _ in range(k)]
  rows = []
  for _ in range(r):
    sel = rnd.getrandbits(k) if k else 0
    x = 0
    for j in range(k):
      if (sel >> j) & 1:
        x ^= basis[j]
    rows.append(x)
  return rows


@bounded("C15", "binary_matrix_rank_seeded",
         bound="rows in {0,1,2,3,5,8,15,16,17,31,32,33,48,49,50,51,63,64,65,127,128,129,255,256,257,300} (thorough also "
               "511,512,1000 and 8191,8192,8193 x 70 columns) x columns in {1,7,8,31,32,33,64,rows-1,rows,rows+1,300} x "
               "target rank in {0,1,2,min/2,min-2,min-1,min} built as A*B over GF(2) plus duplicated rows, zero rows, "
               "zero columns, identity, all-ones; each compared with an independent lowest-bit elimination; "
               "_BinaryMatrixRankSmall and _BinaryMatrixRankLarge are BOTH called on every matrix, whatever its size",
         functions=["randomness_tests/util.BinaryMatrixRank", "randomness_tests/util._BinaryMatrixRankSmall",
                    "randomness_tests/util._BinaryMatrixRankLarge"])
def rank_seeded(ctx):
  util = _util()
  rnd = _rng(ctx, "rank_seeded")
  row_counts = [0, 1, 2, 3, 5, 8, 15, 16, 17, 31, 32, 33, 48, 49, 50, 51, 63, 64, 65, 127, 128, 129, 255, 256, 257, 300]
  if ctx.thorough:
    row_counts += [511, 512, 1000]
  for r in row_counts:
    cols = sorted({1, 7, 8, 31, 32, 33, 64, max(1, r - 1), max(1, r), r + 1, 300})
    if not ctx.thorough and r > 129:
      cols = sorted({1, 8, 33, 64, r - 1, r, r + 1, 300})
    for c in cols:
      mn = min(r, c)
      for k in sorted({0, 1, 2, mn // 2, max(0, mn - 2), max(0, mn - 1), mn}):
        if k > mn:
          continue
        rows = _gf2_product_rows(rnd, r, k, c)
        exp = _rank_all(ctx, util, rows, dict(cols=c, target_rank=k, kind="product", seedcase=(r, c, k)))
        ctx.case(key=(r, c, k, exp == k))
        if r >= 2 and k in (1, mn // 2, mn):
          # duplicated / zero rows, zero low and high columns, shuffled
          rows2 = [x << 3 for x in rows]
          rows2[rnd.randrange(r)] = 0
          rows2[rnd.randrange(r)] = rows2[0]
          rnd.shuffle(rows2)
          ctx.case(key=(r, c, k, "dup"))
          _rank_all(ctx, util, rows2, dict(cols=c + 3, target_rank=k, kind="dup_zero_shift", seedcase=(r, c, k)))
      full = [rnd.getrandbits(c) for _ in range(r)]
      ctx.case(key=(r, c, "random"))
      _rank_all(ctx, util, full, dict(cols=c, kind="random", seedcase=(r, c)))
    if r:
      ident = [1 << i for i in range(r)]
      ctx.case(key=(r, "identity"))
      _rank_all(ctx, util, ident, dict(cols=r, kind="identity"), r)
      _rank_all(ctx, util, ident[::-1], dict(cols=r, kind="identity_reversed"), r)
      ones = [(1 << r) - 1] * r
      _rank_all(ctx, util, ones, dict(cols=r, kind="all_ones"), 1)
      lower = [(1 << (i + 1)) - 1 for i in range(r)]
      _rank_all(ctx, util, lower, dict(cols=r, kind="lower_triangular"), r)
      _rank_all(ctx, util, [0] * r, dict(cols=0, kind="zero"), 0)
      ctx.case(key=(r, "special"))
  if ctx.thorough:
    for r in (8191, 8192, 8193):
      for k in (3, 35, 69, 70):
        rows = _gf2_product_rows(rnd, r, k, 70)
        exp = _o_rank(rows)
        ctx.case(key=(r, 70, k))
        got = util.BinaryMatrixRank(list(rows))
        ctx.check(got == exp, "BinaryMatrixRank == GF(2) rank", dict(rows=r, cols=70, target_rank=k, impl="BinaryMatrixRank"),
                  got, exp)
        got = util._BinaryMatrixRankLarge(list(rows))
        ctx.check(got == exp, "_BinaryMatrixRankLarge == GF(2) rank", dict(rows=r, cols=70, target_rank=k, impl="large"),
                  got, exp)
