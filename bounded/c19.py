"""C19 bounded stand-in: number-theory, linear-algebra, small-root and statistics helpers against their definitions.

Every oracle below is a definition evaluated directly (brute force over range(2**k), fractions.Fraction arithmetic,
trial division, mpmath at 50 digits); nothing is taken from /repo or /verif/contracts.
"""
import itertools
import math
from fractions import Fraction

from pyvc.registry import bounded


def _rnd(ctx, tag):
  """Seeded generator that depends only on VERIF_SEED (ctx.rnd mixes in hash(name), which varies per process)."""
  import random
  return random.Random(f"{ctx.seed}/c19/{tag}")


def _lib():
  from pyvc import runtime
  runtime.install()


# --------------------------------------------------------------------------------------------------------------------
# 2-adic routines
# --------------------------------------------------------------------------------------------------------------------
@bounded("C19", "twoadic_exhaustive",
         bound="all n in -512..4607 (covers every residue mod 2^12 and non-reduced / negative arguments) x all k in "
               "0..12 (Inverse2exp: k in 1..12): Inverse2exp None <=> n even else a*n == 1 (mod 2^k); InverseSqrt2exp "
               "None <=> no a in range(2^k) with a*a*n % 2^k == 1 else that equation; Sqrt2exp (odd n) == ALL roots "
               "found by brute force over range(2^k), [] <=> none, ValueError exactly for even n / negative k",
         functions=["ntheory_util.Inverse2exp", "ntheory_util.InverseSqrt2exp", "ntheory_util.Sqrt2exp"],
         exhaustive=True)
def twoadic_exhaustive(ctx):
  _lib()
  from paranoid_crypto.lib import ntheory_util as nt
  # brute-force tables per k: residue -> list of square roots, residues having an inverse square root
  for k in range(0, 13):
    mod = 1 << k
    roots = {}
    for x in range(mod):
      roots.setdefault(x * x % mod, []).append(x)
    for n in range(-512, 4608):
      nm = n % mod
      inputs = dict(n=n, k=k)
      ctx.case(key=(nm, k, n < 0, n >= mod))
      # --- Inverse2exp
      if k >= 1:
        a = nt.Inverse2exp(n, k)
        if n % 2 == 0:
          ctx.check(a is None, "Inverse2exp(n, k) is None for even n", dict(inputs, function="Inverse2exp"), a, None)
        else:
          ctx.check(a is not None and (int(a) * n - 1) % mod == 0, "Inverse2exp: a*n == 1 (mod 2^k)",
                    dict(inputs, function="Inverse2exp"), a)
      # --- InverseSqrt2exp
      s = nt.InverseSqrt2exp(n, k)
      # docstring form "1 == a * a * n % 2**k" (for k == 0 the right-hand side is always 0: no solution)
      exists = any(y * y * n % mod == 1 for y in range(mod)) if k < 4 else (n % 8 == 1)
      if 4 <= k <= 8:  # the mod-8 criterion itself is re-derived by brute force for mid-size k
        exists_bf = any(y * y * n % mod == 1 for y in range(1, mod, 2))
        assert exists_bf == exists, (n, k)
      if exists:
        ctx.check(s is not None and int(s) * int(s) * n % mod == 1, "InverseSqrt2exp: a*a*n % 2^k == 1",
                  dict(inputs, function="InverseSqrt2exp"), s)
      else:
        ctx.check(s is None, "InverseSqrt2exp is None exactly when no solution exists",
                  dict(inputs, function="InverseSqrt2exp"), s, None)
      # --- Sqrt2exp
      if n % 2 == 0:
        try:
          r = nt.Sqrt2exp(n, k)
          ctx.fail("Sqrt2exp raises ValueError for even n", dict(inputs, function="Sqrt2exp"), observed=r)
        except ValueError:
          pass
      else:
        r = nt.Sqrt2exp(n, k)
        exp = sorted(roots.get(nm, []))
        got = sorted(int(v) for v in r)
        ctx.check(got == exp, "Sqrt2exp returns ALL square roots of n mod 2^k (each once, reduced), [] iff none",
                  dict(inputs, function="Sqrt2exp"), got, exp)
  for n in (1, 3, 17, -7):
    for k in (-1, -5):
      ctx.case(key=("negk", n, k))
      try:
        r = nt.Sqrt2exp(n, k)
        ctx.fail("Sqrt2exp raises ValueError for negative k", dict(n=n, k=k, function="Sqrt2exp"), observed=r)
      except ValueError:
        pass


@bounded("C19", "twoadic_random_large",
         bound="SAMPLED: 3000 (quick) / 40000 (thorough) seeded (n, k), n of 1..4096 bits (half forced to 1 mod 8), k in "
               "1..4096: defining congruences; Sqrt2exp returns 4 distinct reduced roots squaring to n when n == 1 mod "
               "8 (k >= 3), [] otherwise",
         functions=["ntheory_util.Inverse2exp", "ntheory_util.InverseSqrt2exp", "ntheory_util.Sqrt2exp"])
def twoadic_random(ctx):
  _lib()
  from paranoid_crypto.lib import ntheory_util as nt
  rnd = _rnd(ctx, "twoadic")
  for trial in range(40000 if ctx.thorough else 3000):
    bits = rnd.randint(1, 4096 if trial % 4 == 0 else 300)
    k = rnd.randint(3, 4096 if trial % 4 == 0 else 300)
    n = rnd.getrandbits(bits) | 1
    if trial % 2:
      n = (n >> 3 << 3) | 1
    if trial % 7 == 0:
      n = -n
    mod = 1 << k
    inputs = dict(n=n, k=k)
    ctx.case(key=(bits // 64, k // 64, n % 8))
    a = nt.Inverse2exp(n, k)
    ctx.check(a is not None and (int(a) * n - 1) % mod == 0, "Inverse2exp: a*n == 1 (mod 2^k)",
              dict(inputs, function="Inverse2exp"), a)
    s = nt.InverseSqrt2exp(n, k)
    r = nt.Sqrt2exp(n, k)
    if n % 8 == 1:
      ctx.check(s is not None and (int(s) * int(s) * n - 1) % mod == 0, "InverseSqrt2exp: a*a*n == 1 (mod 2^k)",
                dict(inputs, function="InverseSqrt2exp"), s)
      vals = [int(v) for v in r]
      ctx.check(len(vals) == 4 and len(set(vals)) == 4 and all(0 <= v < mod and (v * v - n) % mod == 0 for v in vals),
                "Sqrt2exp: four distinct reduced roots, each squares to n", dict(inputs, function="Sqrt2exp"), vals)
    else:
      ctx.check(s is None, "InverseSqrt2exp is None when n != 1 mod 8 (k >= 3)",
                dict(inputs, function="InverseSqrt2exp"), s, None)
      ctx.check(list(r) == [], "Sqrt2exp == [] when n != 1 mod 8 (k >= 3)", dict(inputs, function="Sqrt2exp"), r, [])


# --------------------------------------------------------------------------------------------------------------------
# continued fractions, rounded division, sieve, product trees
# --------------------------------------------------------------------------------------------------------------------
def _cf_oracle(a, b):
  """Continued fraction of a/b by repeated floor on Fractions; convergents by evaluating the truncated expansion."""
  x = Fraction(a, b)
  coeffs = []
  while True:
    q = math.floor(x)
    coeffs.append(q)
    frac = x - q
    if frac == 0:
      break
    x = 1 / frac
  out = []
  for i in range(len(coeffs)):
    v = Fraction(coeffs[i])
    for c in reversed(coeffs[:i]):
      v = c + 1 / v
    out.append((coeffs[i], v.numerator, v.denominator))
  return out


@bounded("C19", "continued_fraction_and_rounded_division",
         bound="ContinuedFraction(a, b): all a in -60..200, b in 1..200 (quick: b <= 90) vs floor-iteration on Fractions "
               "(coefficients, convergents in lowest terms, last convergent == a/b), b == 0 -> []; 300/3000 seeded "
               "pairs of up to 2048 bits (recurrence + last convergent + |a/b - r/t| < 1/t^2); DivmodRounded(a, b): all "
               "a in -400..400, b in 1..64 and seeded large: a == q*b + r and |2r| <= b",
         functions=["ntheory_util.ContinuedFraction", "ntheory_util.DivmodRounded"], exhaustive=True)
def cf_and_divmod(ctx):
  _lib()
  import gmpy2
  from paranoid_crypto.lib import ntheory_util as nt
  rnd = _rnd(ctx, "cf")
  for b in range(1, 201 if ctx.thorough else 91):
    for a in range(-60, 201):
      ctx.case(key=("cf", a, b))
      got = [(int(q), int(r), int(t)) for q, r, t in nt.ContinuedFraction(a, b)]
      exp = _cf_oracle(a, b)
      ctx.check(got == exp, "ContinuedFraction(a, b) == (coefficient, convergent numerator, denominator) list",
                dict(function="ContinuedFraction", a=a, b=b), got, exp)
  for a in (-5, 0, 1, 7, 10 ** 30):
    ctx.case(key=("cf0", a))
    got = nt.ContinuedFraction(a, 0)
    ctx.check(list(got) == [], "ContinuedFraction(a, 0) == []", dict(function="ContinuedFraction", a=a, b=0), got, [])
  for trial in range(3000 if ctx.thorough else 300):
    a = rnd.getrandbits(rnd.randint(1, 2048))
    b = rnd.getrandbits(rnd.randint(1, 2048)) + 1
    if trial % 2:
      a, b = gmpy2.mpz(a), gmpy2.mpz(b)
    ctx.case(key=("cfbig", trial))
    cf = nt.ContinuedFraction(a, b)
    a, b = int(a), int(b)
    ok = len(cf) >= 1
    pr, pt, ppr, ppt = 1, 0, 0, 1  # convergent recurrence h_i = q_i h_{i-1} + h_{i-2}
    x = Fraction(a, b)
    for q, r, t in cf:
      q, r, t = int(q), int(r), int(t)
      ok = ok and r == q * pr + ppr and t == q * pt + ppt and t > 0
      ok = ok and (abs(x - Fraction(r, t)) < Fraction(1, t * t) or Fraction(r, t) == x)
      ppr, ppt, pr, pt = pr, pt, r, t
    ok = ok and Fraction(pr, pt) == x and math.gcd(pr, pt) == 1
    ok = ok and all(int(q) >= 1 for q, _, _ in cf[1:]) and (len(cf) == 1 or int(cf[-1][0]) >= 2)
    ctx.check(ok, "large ContinuedFraction: recurrence, approximation quality, last convergent == a/b, canonical form",
              dict(function="ContinuedFraction", a=a, b=b))
  # DivmodRounded
  for b in range(1, 65):
    for a in range(-400, 401):
      ctx.case(key=("dr", a % b, b, a < 0))
      q, r = nt.DivmodRounded(a, b)
      ctx.check(q * b + r == a and abs(2 * r) <= b, "DivmodRounded: a == q*b + r and |2r| <= b (q is a nearest integer)",
                dict(function="DivmodRounded", a=a, b=b), [int(q), int(r)])
  for trial in range(3000 if ctx.thorough else 500):
    a = rnd.getrandbits(rnd.randint(1, 2100)) * rnd.choice((1, -1))
    b = rnd.getrandbits(rnd.randint(1, 1100)) + 1
    if trial % 3 == 0:  # exact halves
      b = 2 * b
      a = b * rnd.randint(-50, 50) + b // 2
    ctx.case(key=("drbig", trial))
    q, r = nt.DivmodRounded(gmpy2.mpz(a) if trial % 2 else a, gmpy2.mpz(b) if trial % 2 else b)
    ctx.check(q * b + r == a and abs(2 * r) <= b, "DivmodRounded: a == q*b + r and |2r| <= b (q is a nearest integer)",
              dict(function="DivmodRounded", a=a, b=b), [int(q), int(r)])


@bounded("C19", "sieve_vs_trial_division",
         bound="Sieve(n) == [p < n : p prime by trial division] for every n in 0..3000 and every n within 2 of a prime "
               "square or of a prime up to 20000 (quick) / every n in 0..20000 (thorough); plus n = 2^16, 2^16+1, 10^5",
         functions=["ntheory_util.Sieve"], exhaustive=True)
def sieve(ctx):
  _lib()
  from paranoid_crypto.lib import ntheory_util as nt
  limit = 100001
  primes = [p for p in range(2, limit) if all(p % d for d in range(2, math.isqrt(p) + 1))]
  if ctx.thorough:
    ns = list(range(0, 20001))
  else:
    s = set(range(0, 3001))
    for p in primes:
      if p > 20000:
        break
      for d in (-2, -1, 0, 1, 2):
        s.add(p + d)
        if p * p + d <= 20000:
          s.add(p * p + d)
    ns = sorted(s)
  ns += [2 ** 16, 2 ** 16 + 1, 10 ** 5]
  import bisect
  for n in ns:
    ctx.case(key=n)
    got = nt.Sieve(n)
    exp_len = bisect.bisect_left(primes, n)
    ok = len(got) == exp_len and [int(v) for v in got] == primes[:exp_len]
    ctx.check(ok, "Sieve(n) == all primes < n", dict(function="Sieve", n=n), observed=[int(v) for v in got[-5:]],
              expected=primes[max(0, exp_len - 5):exp_len])


@bounded("C19", "product_trees_every_size_c19",
         bound="same run as C03/product_trees_every_size: every list length 0..60 (quick) / 0..200 (thorough) x 4 value "
               "shapes; FastProduct == math.prod, ExtendedProductTree levels / root / T == sum(P // v)",
         functions=["ntheory_util.FastProduct", "ntheory_util.ExtendedProductTree"], exhaustive=True)
def product_trees(ctx):
  from bounded import c03
  c03.product_trees_every_size(ctx)


# --------------------------------------------------------------------------------------------------------------------
# linear algebra
# --------------------------------------------------------------------------------------------------------------------
class _Rows(list):
  """Outer list that counts echelon_form's row moves (a.insert(nrows, a.pop(i))); only used to annotate failures."""
  moved = 0

  def insert(self, i, v):
    self.moved += 1
    list.insert(self, i, v)


def _rank(rows, ncols):
  m = [[Fraction(v) for v in r] for r in rows]
  rank = 0
  for c in range(ncols):
    piv = next((i for i in range(rank, len(m)) if m[i][c] != 0), None)
    if piv is None:
      continue
    m[rank], m[piv] = m[piv], m[rank]
    for i in range(len(m)):
      if i != rank and m[i][c] != 0:
        f = m[i][c] / m[rank][c]
        m[i] = [x - f * y for x, y in zip(m[i], m[rank])]
    rank += 1
  return rank


def _solve_right_case(ctx, linalg, a, x, meta):
  """Runs solve_right on the consistent system a * x_planted = b and checks the contract."""
  nrows, ncols = len(a), len(a[0])
  b = [sum(ai * xi for ai, xi in zip(row, x)) for row in a]
  a_in = [list(r) for r in a]
  b_in = list(b)
  outcome, sol, err = "ok", None, None
  try:
    sol = linalg.solve_right(a_in, b_in)
  except Exception as e:  # pylint: disable=broad-except
    outcome, err = "exception", f"{type(e).__name__}: {e}"
  if outcome == "ok" and sol is not None:
    fr = [Fraction(int(s.numerator), int(s.denominator)) for s in sol]
    if len(fr) != ncols or any(sum(Fraction(v) * s for v, s in zip(row, fr)) != bi for row, bi in zip(a, b)):
      outcome = "wrong_vector"
  if outcome == "ok":
    return "none" if sol is None else "solved"
  # annotate the failure
  rec = _Rows([list(r) for r in a])
  try:
    linalg.solve_right(rec, list(b))
  except Exception:  # pylint: disable=broad-except
    pass
  rank = _rank(a, ncols)
  inputs = dict(meta, function="solve_right", rows=nrows, cols=ncols, a=a, b=b, planted_x=list(x),
                has_zero_row=any(all(v == 0 for v in r) for r in a),
                has_duplicate_or_proportional_rows=any(
                    _rank([a[i], a[j]], ncols) < 2 for i in range(nrows) for j in range(i + 1, nrows)),
                zero_first_pivot=a[0][0] == 0, zero_on_diagonal=any(a[i][i] == 0 for i in range(ncols)),
                rank=rank, full_column_rank=rank == ncols, row_moved=rec.moved > 0, row_moves=rec.moved,
                outcome=outcome)
  if outcome == "exception":
    inputs["exception"] = err.split(":")[0]
    ctx.fail("solve_right raises no exception for a consistent system with rows >= cols >= 1", inputs, observed=err,
             expected="None or a solution")
  else:
    ctx.fail("solve_right returns None or a vector satisfying every row of the ORIGINAL system", inputs,
             observed=[str(s) for s in sol], expected="None or a vector x with a*x == b" +
             (f" (unique solution {list(x)})" if rank == ncols else ""))
  return outcome


@bounded("C19", "solve_right_exhaustive_small",
         bound="every integer matrix with entries in [-2, 2] of shape 1x1, 2x1, 3x1, 2x2, 3x2 (5^(rows*cols) each) x "
               "planted x in [-2..2] (1 column) / 8 planted vectors (2 columns); every matrix over {-1,0,1} of shape "
               "3x3, 4x2 and over {0,1} of shape 4x4 (thorough also 4x3 over {-1,0,1} and 5x4 over {0,1}) x 1-2 planted "
               "vectors; b = a*x (all systems consistent): result is None or satisfies every original row; no "
               "exception",
         functions=["linalg_util.solve_right", "linalg_util.echelon_form", "linalg_util.upper_triangular_solve"],
         exhaustive=True)
def solve_right_small(ctx):
  _lib()
  from paranoid_crypto.lib import linalg_util
  stats = {}
  xs2 = [(0, 0), (1, 0), (0, 1), (1, 1), (1, -1), (2, 1), (-1, 2), (-2, -2)]
  shapes = [(1, 1, (-2, -1, 0, 1, 2)), (2, 1, (-2, -1, 0, 1, 2)), (3, 1, (-2, -1, 0, 1, 2)), (2, 2, (-2, -1, 0, 1, 2)),
            (3, 2, (-2, -1, 0, 1, 2)), (3, 3, (-1, 0, 1)), (4, 2, (-1, 0, 1)), (4, 4, (0, 1))]
  if ctx.thorough:
    shapes += [(4, 3, (-1, 0, 1)), (5, 4, (0, 1))]
  for nrows, ncols, entries in shapes:
    if ncols == 1:
      planted = [(v,) for v in range(-2, 3)]
    elif ncols == 2 and nrows <= 3:
      planted = xs2
    else:
      planted = [tuple(range(1, ncols + 1))] + ([tuple([1, -1, 2, 0][:ncols])] if nrows * ncols <= 9 else [])
    for flat in itertools.product(entries, repeat=nrows * ncols):
      a = [list(flat[i * ncols:(i + 1) * ncols]) for i in range(nrows)]
      for x in planted:
        ctx.case(key=(nrows, ncols, flat))
        out = _solve_right_case(ctx, linalg_util, a, x, dict(domain="exhaustive", entries=list(entries)))
        stats[(nrows, ncols, out)] = stats.get((nrows, ncols, out), 0) + 1
  ctx.notes.append("outcomes (rows, cols, outcome): " + ", ".join(f"{k}: {v}" for k, v in sorted(stats.items())))


def _seeded_system(rnd):
  ncols = rnd.randint(1, 5)
  nrows = rnd.randint(ncols, 8)
  style = rnd.randrange(3)
  ent = ([0, 0, 1, -1, 2], [-2, -1, 0, 1, 2], [0, 1, 1, -1, 3, -5])[style]
  a = [[rnd.choice(ent) for _ in range(ncols)] for _ in range(nrows)]
  for _ in range(rnd.randint(0, 3)):
    i = rnd.randrange(nrows)
    c = rnd.random()
    if c < 0.3:
      a[i] = [0] * ncols                                             # zero row
    elif c < 0.55:
      j = rnd.randrange(nrows)
      f = rnd.choice([1, 2, -1, 3])
      a[i] = [f * v for v in a[j]]                                   # proportional / duplicate row
    elif c < 0.75:
      j, k = rnd.randrange(nrows), rnd.randrange(nrows)
      a[i] = [u + v for u, v in zip(a[j], a[k])]                     # sum of two rows
    elif c < 0.9:
      d = min(i, ncols - 1)
      a[i][d] = 0                                                    # zero on / below the diagonal position
    else:
      col = rnd.randrange(ncols)
      for r in range(rnd.randint(0, nrows - 1)):
        a[r][col] = 0                                                # leading zeros in a column (zero pivots)
  x = [rnd.randint(-3, 3) for _ in range(ncols)]
  return a, x


@bounded("C19", "solve_right_seeded_degenerate",
         bound="SAMPLED: 30000 (quick) / 400000 (thorough) seeded consistent systems, 1..5 columns, cols..8 rows, small "
               "entries, 0..3 injected degeneracies (zero row, proportional row, sum of two rows, zero on the diagonal, "
               "zeroed column head), planted integer solution in [-3, 3]^cols: result is None or satisfies every "
               "original row; no exception",
         functions=["linalg_util.solve_right", "linalg_util.echelon_form", "linalg_util.upper_triangular_solve"])
def solve_right_seeded(ctx):
  _lib()
  from paranoid_crypto.lib import linalg_util
  rnd = _rnd(ctx, "linalg")
  stats = {}
  for trial in range(400000 if ctx.thorough else 30000):
    a, x = _seeded_system(rnd)
    ctx.case(key=(len(a), len(a[0]), trial % 500))
    out = _solve_right_case(ctx, linalg_util, a, x, dict(domain="seeded", trial=trial))
    stats[out] = stats.get(out, 0) + 1
  ctx.notes.append("outcomes: " + ", ".join(f"{k}: {v}" for k, v in sorted(stats.items())))


@bounded("C19", "upper_triangular_solve_exhaustive",
         bound="every upper triangular integer matrix of size 1..3 with entries in [-2, 2] x every b in {-2, 0, 1}^size: "
               "None <=> a zero on the diagonal, else a*x == b exactly (Fractions); ValueError for non-square / length "
               "mismatch",
         functions=["linalg_util.upper_triangular_solve"], exhaustive=True)
def upper_triangular(ctx):
  _lib()
  from paranoid_crypto.lib import linalg_util
  for size in (1, 2, 3):
    pos = [(i, j) for i in range(size) for j in range(i, size)]
    for vals in itertools.product(range(-2, 3), repeat=len(pos)):
      a = [[0] * size for _ in range(size)]
      for (i, j), v in zip(pos, vals):
        a[i][j] = v
      for b in itertools.product((-2, 0, 1), repeat=size):
        ctx.case(key=(size, vals))
        inputs = dict(function="upper_triangular_solve", a=a, b=list(b))
        try:
          sol = linalg_util.upper_triangular_solve([list(r) for r in a], list(b))
        except Exception as e:  # pylint: disable=broad-except
          ctx.fail("upper_triangular_solve returns normally", dict(inputs, exception=type(e).__name__),
                   observed=f"{type(e).__name__}: {e}")
          continue
        singular = any(a[i][i] == 0 for i in range(size))
        if singular:
          ctx.check(sol is None, "None when a zero is on the diagonal", inputs, observed=None if sol is None else
                    [str(s) for s in sol], expected=None)
        else:
          ok = sol is not None and len(sol) == size
          if ok:
            fr = [Fraction(int(s.numerator), int(s.denominator)) for s in sol]
            ok = all(sum(Fraction(v) * s for v, s in zip(row, fr)) == bi for row, bi in zip(a, b))
          ctx.check(ok, "a*x == b exactly for a non-singular upper triangular a", inputs,
                    observed=None if sol is None else [str(s) for s in sol])
  for a, b in (([[1, 2]], [1]), ([[1, 0], [0, 1]], [1]), ([[1, 0], [0, 1], [0, 0]], [1, 2, 3])):
    ctx.case(key=("shape", len(a), len(a[0]), len(b)))
    try:
      r = linalg_util.upper_triangular_solve(a, b)
      ctx.fail("ValueError for a non-square matrix or a length mismatch", dict(function="upper_triangular_solve", a=a,
                                                                                 b=b), observed=repr(r))
    except ValueError:
      pass


# NOT registered: the rank returned by echelon_form is outside the wording of C19 (which speaks about the solver only).
# On the pinned tree echelon_form([[1],[0]]) returns 0 (rank is 1); kept here for reference, see DESIGN.md section 5.
def echelon_rank(ctx):
  _lib()
  from paranoid_crypto.lib import linalg_util
  rnd = _rnd(ctx, "echelon")

  def one(a, meta):
    nrows, ncols = len(a), len(a[0])
    exp = _rank(a, ncols)
    inputs = dict(meta, function="echelon_form", rows=nrows, cols=ncols, a=a, rank=exp,
                  has_zero_row=any(all(v == 0 for v in r) for r in a), zero_first_pivot=a[0][0] == 0)
    rec = _Rows([list(r) for r in a])
    try:
      got = linalg_util.echelon_form([list(r) for r in a])
    except Exception as e:  # pylint: disable=broad-except
      try:
        linalg_util.echelon_form(rec)
      except Exception:  # pylint: disable=broad-except
        pass
      ctx.fail("echelon_form raises no exception for rows >= cols >= 1",
               dict(inputs, exception=type(e).__name__, row_moved=rec.moved > 0, outcome="exception"),
               observed=f"{type(e).__name__}: {e}", expected=exp)
      return "exception"
    if int(got) != exp:
      try:
        linalg_util.echelon_form(rec)
      except Exception:  # pylint: disable=broad-except
        pass
      ctx.fail("echelon_form(a) returns the rank of a",
               dict(inputs, row_moved=rec.moved > 0, outcome="wrong_rank",
                    direction="over_reported" if int(got) > exp else "under_reported"),
               observed=int(got), expected=exp)
      return "wrong_rank"
    return "ok"

  stats = {}
  for nrows in (1, 2, 3):
    for ncols in range(1, nrows + 1):
      for flat in itertools.product((-1, 0, 1), repeat=nrows * ncols):
        a = [list(flat[i * ncols:(i + 1) * ncols]) for i in range(nrows)]
        ctx.case(key=(nrows, ncols, flat))
        out = one(a, dict(domain="exhaustive"))
        stats[("exhaustive", out)] = stats.get(("exhaustive", out), 0) + 1
  for trial in range(200000 if ctx.thorough else 20000):
    a, _ = _seeded_system(rnd)
    ctx.case(key=(len(a), len(a[0]), trial % 500))
    out = one(a, dict(domain="seeded", trial=trial))
    stats[("seeded", out)] = stats.get(("seeded", out), 0) + 1
  ctx.notes.append("outcomes: " + ", ".join(f"{k}: {v}" for k, v in sorted(stats.items())))


# --------------------------------------------------------------------------------------------------------------------
# small roots
# --------------------------------------------------------------------------------------------------------------------
def _rand_prime(rnd, bits):
  import gmpy2
  while True:
    c = rnd.getrandbits(bits) | (3 << (bits - 2)) | 1
    p = int(gmpy2.next_prime(c))
    if p.bit_length() == bits:
      return p


@bounded("C19", "small_roots_upstream_shapes",
         bound="SAMPLED: the planted-root shapes of small_roots_test.py (univariate high bits 400/k=3, negative root, low "
               "bits, cubic 128 bits; bivariate mod p [120,120] m=4, [232,16] m=4; bivariate mod n [340,340], [820,100], "
               "[400,400] m=2, quadratic x cubic [128,128]; thorough adds univariate 480/k=9, bivariate [130,130] m=5, "
               "[128,128] m=6, trivariate [48,48,48], [112,16,16]; univariate 400/k=3 and bivariate [120,120] also with "
               "the relation negated, f(root) == -p) on 2 (quick) / 4 (thorough) seeded 2048-bit moduli "
               "with 1024-bit primes. Each shape is run (i) with the unknown sizes scaled to 95% (margin): the planted "
               "root MUST be found, and (ii) at the upstream sizes: not finding is tolerated. In both: every returned "
               "root is a true root (f(root) != 0 shares a factor with n, resp. f(root) == 0 mod n)",
         functions=["small_roots.univariate_modp", "small_roots.multivariate_modp", "small_roots.multivariate_modn",
                    "lll.reduce", "linalg_util.solve_right"])
def small_roots_shapes(ctx):
  _lib()
  import sympy
  from paranoid_crypto.lib import small_roots
  rnd = _rnd(ctx, "smallroots")
  x, x1, x2, x3 = sympy.symbols("x x1 x2 x3")
  pb = 1024
  stats = {}

  def report(shape, inputs, roots, value, modp, must):
    """value: integer f(roots) computed here from the planted construction (None if nothing was returned)."""
    st = stats.setdefault((shape, "margin" if must else "upstream"), [0, 0, 0])
    st[0] += 1
    inputs = dict(inputs, shape=shape, function=shape.split("/")[0], with_margin=must)
    if roots is None:
      st[1] += 1
      if must:
        ctx.fail("the planted root (5% below the upstream-documented size) is found", inputs, observed=None,
                 expected=inputs.get("planted"))
      return
    n = inputs["n"]
    if modp:
      ok = value != 0 and (value % inputs["p"] == 0 or value % inputs["q"] == 0) and value % n != 0
    else:
      ok = value % n == 0
    if not ok:
      st[2] += 1
    ctx.check(ok, "every returned root is a true root of the polynomial modulo a factor of n (resp. modulo n)", inputs,
              observed=[int(r) for r in roots])

  def sz(u, scale):
    return u if scale == 100 else (u * scale) // 100

  for key_index in range(4 if ctx.thorough else 2):
    p = _rand_prime(rnd, pb)
    q = _rand_prime(rnd, pb)
    n = p * q
    base = dict(n=n, p=p, q=q, key_index=key_index)
    for scale in (95, 100):
      must = scale != 100
      # ---- univariate, high bits known
      for ub0, k, thorough_only in ((400, 3, False), (480, 9, True)):
        if thorough_only and not ctx.thorough:
          continue
        ub = sz(ub0, scale)
        b = 2 ** ub
        p0 = (p >> ub) << ub
        f = sympy.Poly(p0 + x, modulus=n)
        ctx.case(key=("uni_high", ub, k, key_index))
        r = small_roots.univariate_modp(f, b, k)
        report(f"univariate_modp/high_bits_{ub0}_k{k}", dict(base, unknown_bits=ub, k=k, planted=p - p0),
               None if r is None else [r], None if r is None else p0 + int(r), True, must)
        if must and not thorough_only:
          # the same relation written with the other sign (x - p0 style: f(root) == -p in sympy's symmetric
          # representation): being a root does not depend on the orientation of the relation
          f = sympy.Poly(-p0 - x, modulus=n)
          ctx.case(key=("uni_high_negated", ub, k, key_index))
          r = small_roots.univariate_modp(f, b, k)
          report(f"univariate_modp/high_bits_{ub0}_k{k}_negated", dict(base, unknown_bits=ub, k=k, planted=p - p0),
                 None if r is None else [r], None if r is None else p0 + int(r), True, must)
      # ---- univariate, negative root
      ub = sz(400, scale)
      b = 2 ** ub
      rx = rnd.randint(1, b)
      p0 = p + rx
      f = sympy.Poly(p0 - x, modulus=n)
      ctx.case(key=("uni_neg", scale, key_index))
      r = small_roots.univariate_modp(f, b)
      report("univariate_modp/negative_root_400", dict(base, unknown_bits=ub, planted=rx), None if r is None else [r],
             None if r is None else p0 - int(r), True, must)
      # ---- univariate, low bits known
      l = pb - ub
      p0 = p % 2 ** l
      f = sympy.Poly(x * 2 ** l + p0, modulus=n)
      ctx.case(key=("uni_low", scale, key_index))
      r = small_roots.univariate_modp(f, b)
      report("univariate_modp/low_bits_400", dict(base, unknown_bits=ub, planted=p >> l), None if r is None else [r],
             None if r is None else int(r) * 2 ** l + p0, True, must)
      # ---- univariate, cubic
      ub = sz(128, scale)
      b = 2 ** ub
      rx = rnd.randint(1, b)
      p0 = p - rx ** 3
      f = sympy.Poly(p0 + x ** 3, modulus=n)
      ctx.case(key=("uni_cubic", scale, key_index))
      r = small_roots.univariate_modp(f, b)
      report("univariate_modp/cubic_128", dict(base, unknown_bits=ub, planted=rx), None if r is None else [r],
             None if r is None else p0 + int(r) ** 3, True, must)
      # ---- bivariate mod p:  p = x1 || known || x2
      for (v1, v2), m, thorough_only in (((120, 120), 4, False), ((232, 16), 4, False), ((130, 130), 5, True),
                                         ((128, 128), 6, True)):
        if thorough_only and not ctx.thorough:
          continue
        u1, u2 = sz(v1, scale), sz(v2, scale)
        known = pb - u1 - u2
        lx1 = known + u2
        p0 = ((p >> u2) % 2 ** known) << u2
        f = sympy.Poly(p0 + x1 * 2 ** lx1 + x2, modulus=n)
        ctx.case(key=("bi_modp", u1, u2, m, key_index))
        r = small_roots.multivariate_modp(f, [2 ** u1, 2 ** u2], m)
        report(f"multivariate_modp/bivariate_{v1}_{v2}_m{m}",
               dict(base, unknown_bits=[u1, u2], m=m, planted=[p >> lx1, p % 2 ** u2]), r,
               None if r is None else p0 + int(r[0]) * 2 ** lx1 + int(r[1]), True, must)
        if must and (v1, v2) == (120, 120):
          f = sympy.Poly(-p0 - x1 * 2 ** lx1 - x2, modulus=n)
          ctx.case(key=("bi_modp_negated", u1, u2, m, key_index))
          r = small_roots.multivariate_modp(f, [2 ** u1, 2 ** u2], m)
          report(f"multivariate_modp/bivariate_{v1}_{v2}_m{m}_negated",
                 dict(base, unknown_bits=[u1, u2], m=m, planted=[p >> lx1, p % 2 ** u2]), r,
                 None if r is None else p0 + int(r[0]) * 2 ** lx1 + int(r[1]), True, must)
      # ---- trivariate mod p:  p = x1 || known1 || x2 || known2 || x3
      if ctx.thorough and (must or key_index < 2):
        for v in ((48, 48, 48), (112, 16, 16)):
          u1, u2, u3 = (sz(t, scale) for t in v)
          known = pb - u1 - u2 - u3
          k1 = known // 2
          k2 = known - k1
          lx1 = k1 + u2 + k2 + u3
          lk1 = u2 + k2 + u3
          lx2 = k2 + u3
          lk2 = u3
          p0 = ((p >> lk1) % 2 ** k1) << lk1
          p0 += ((p >> lk2) % 2 ** k2) << lk2
          f = sympy.Poly(p0 + x1 * 2 ** lx1 + x2 * 2 ** lx2 + x3, modulus=n)
          ctx.case(key=("tri_modp", u1, u2, u3, key_index))
          r = small_roots.multivariate_modp(f, [2 ** u1, 2 ** u2, 2 ** u3], 4)
          report(f"multivariate_modp/trivariate_{v[0]}_{v[1]}_{v[2]}_m4",
                 dict(base, unknown_bits=[u1, u2, u3], m=4,
                      planted=[p >> lx1, (p >> lx2) % 2 ** u2, p % 2 ** u3]), r,
                 None if r is None else p0 + int(r[0]) * 2 ** lx1 + int(r[1]) * 2 ** lx2 + int(r[2]), True, must)
      # ---- bivariate mod n: (p0 + x1)(q0 + x2) == 0 mod n
      for (v1, v2), m in (((340, 340), 1), ((820, 100), 1), ((400, 400), 2)):
        u1, u2 = sz(v1, scale), sz(v2, scale)
        p0 = (p >> u1) << u1
        q0 = (q >> u2) << u2
        f = sympy.Poly((p0 + x1) * (q0 + x2), modulus=n)
        ctx.case(key=("bi_modn", u1, u2, m, key_index))
        r = small_roots.multivariate_modn(f, [2 ** u1, 2 ** u2], m)
        shape = f"multivariate_modn/bivariate_{v1}_{v2}_m{m}"
        integral = r is None or all(sympy.sympify(t).is_integer for t in r)
        ctx.check(integral, "returned roots are integers", dict(base, shape=shape, function="multivariate_modn"),
                  observed=None if r is None else [str(t) for t in r])
        report(shape, dict(base, unknown_bits=[u1, u2], m=m, planted=[p - p0, q - q0]), r if integral else None,
               None if (r is None or not integral) else (p0 + int(r[0])) * (q0 + int(r[1])), False, must)
      # ---- bivariate mod n, higher degree
      u1 = u2 = sz(128, scale)
      r1, r2 = rnd.randint(1, 2 ** u1), rnd.randint(1, 2 ** u2)
      p0 = p - r1 ** 2
      q0 = q - r2 ** 3
      f = sympy.Poly((p0 + x1 ** 2) * (q0 + x2 ** 3), modulus=n)
      ctx.case(key=("bi_modn_deg", scale, key_index))
      r = small_roots.multivariate_modn(f, [2 ** u1, 2 ** u2])
      shape = "multivariate_modn/quadratic_cubic_128_128"
      integral = r is None or all(sympy.sympify(t).is_integer for t in r)
      ctx.check(integral, "returned roots are integers", dict(base, shape=shape, function="multivariate_modn"),
                observed=None if r is None else [str(t) for t in r])
      report(shape, dict(base, unknown_bits=[u1, u2], m=1, planted=[r1, r2]), r if integral else None,
             None if (r is None or not integral) else (p0 + int(r[0]) ** 2) * (q0 + int(r[1]) ** 3), False, must)
  ctx.notes.append("(shape, sizes): [runs, not found, false roots]: " + ", ".join(f"{k}: {v}" for k, v in stats.items()))


# --------------------------------------------------------------------------------------------------------------------
# lattice_suite.PseudoAverage / Bias
# --------------------------------------------------------------------------------------------------------------------
def _pseudo_average_candidates(a, n):
  """All values round_half_up(mean(b)) % n over the shift choices b[i] in {a[i], a[i] + n} of minimal variance."""
  m = len(a)
  best, res = None, set()
  for c in itertools.product((0, 1), repeat=m):
    b = [v + n * s for v, s in zip(a, c)]
    s1 = sum(b)
    cost = m * sum(v * v for v in b) - s1 * s1      # m^2 * variance, exact
    if best is None or cost < best:
      best, res = cost, set()
    if cost == best:
      res.add(((2 * s1 + m) // (2 * m)) % n)        # floor(mean + 1/2)
  return res


@bounded("C19", "pseudo_average_vs_brute_force",
         bound="every multiset of residues in range(n) of length 1..6, n in 2..11 (quick) / length 1..8, n in 2..10 "
               "(thorough) (the function sorts its argument; 3 seeded orderings per multiset of length <= 4 are also "
               "run): PseudoAverage(a, n) is round-half-up(mean(b)) mod n for a variance-minimal choice b[i] in "
               "{a[i], a[i]+n} among all 2^len choices",
         functions=["lattice_suite.PseudoAverage"], exhaustive=True)
def pseudo_average(ctx):
  _lib()
  from paranoid_crypto.lib.randomness_tests import lattice_suite
  rnd = _rnd(ctx, "pseudoavg")
  max_len, max_n = (8, 10) if ctx.thorough else (6, 11)
  for n in range(2, max_n + 1):
    for m in range(1, max_len + 1):
      for combo in itertools.combinations_with_replacement(range(n), m):
        a = list(combo)
        exp = _pseudo_average_candidates(a, n)
        orders = [a]
        if m <= 4:
          for _ in range(3):
            sh = list(a)
            rnd.shuffle(sh)
            orders.append(sh)
        for arg in orders:
          ctx.case(key=(n, combo))
          got = lattice_suite.PseudoAverage(list(arg), n)
          ctx.check(int(got) in exp and 0 <= int(got) < n,
                    "PseudoAverage == rounded mean of a minimal-variance lift, reduced mod n",
                    dict(function="PseudoAverage", a=arg, n=n), int(got), sorted(exp))


def _irwin_hall_cdf(n, x):
  """Exact CDF of the sum of n independent U(0,1) at rational x."""
  x = Fraction(x)
  if x <= 0:
    return Fraction(0)
  if x >= n:
    return Fraction(1)
  total = Fraction(0)
  for k in range(math.floor(x) + 1):
    total += (-1) ** k * math.comb(n, k) * (x - k) ** n
  return total / math.factorial(n)


@bounded("C19", "bias_integer_part",
         bound="every sample list over range(n) of length 1..3 x every non-empty prefix of 3 transforms, n in 2..9 "
               "(quick) / 2..13 (thorough), plus 200/2000 seeded cases with n up to 2^64: the normalised statistic "
               "handed to UniformSumCdf == 2 * sum(min(v, n-v)) / n with v = (a*s+b) mod n and count == len(sample) * "
               "len(transforms) (observed by a spy on util.UniformSumCdf); Bias == exact Irwin-Hall CDF within 1e-9 for "
               "count <= 9",
         functions=["lattice_suite.Bias", "randomness_tests/util.UniformSumCdf"], exhaustive=True)
def bias_integer_part(ctx):
  _lib()
  from paranoid_crypto.lib.randomness_tests import lattice_suite
  from paranoid_crypto.lib.randomness_tests import util as rutil
  rnd = _rnd(ctx, "bias")
  calls = []
  real = rutil.UniformSumCdf

  def spy(count, xval):
    calls.append((count, xval))
    return real(count, xval)

  def one(sample, n, transforms, exact):
    t = 0
    for s in sample:
      for a, b in transforms:
        v = (a * s + b) % n
        t += min(v, n - v)
    del calls[:]
    got = lattice_suite.Bias(list(sample), n, list(transforms))
    inputs = dict(function="Bias", sample=list(sample), n=n, transforms=[list(tr) for tr in transforms])
    count = len(sample) * len(transforms)
    ok = len(calls) >= 1 and calls[0][0] == count and Fraction(calls[0][1]) == Fraction(2 * t / n)
    ctx.check(ok, "Bias passes count == len(sample)*len(transforms) and 2*t/n with t == sum(min(v, n-v))", inputs,
              observed=calls[:1], expected=[count, 2 * t / n])
    if exact:
      exp = _irwin_hall_cdf(count, Fraction(2 * t, n))
      ctx.check(abs(Fraction(got) - exp) <= Fraction(1, 10 ** 9), "Bias == Irwin-Hall CDF(count, 2t/n) within 1e-9",
                inputs, got, float(exp))

  lattice_suite.util.UniformSumCdf = spy
  try:
    for n in range(2, 14 if ctx.thorough else 10):
      transforms_all = [(1, 0), (3, 1), (n - 1, n // 2)]
      for m in (1, 2, 3):
        for sample in itertools.product(range(n), repeat=m):
          for tcount in (1, 2, 3):
            ctx.case(key=(n, sample, tcount))
            one(sample, n, transforms_all[:tcount], exact=True)
    for trial in range(2000 if ctx.thorough else 200):
      n = rnd.getrandbits(rnd.randint(2, 64)) + 2
      sample = [rnd.randrange(n) for _ in range(rnd.randint(1, 12))]
      transforms = [(rnd.randrange(1, n), rnd.randrange(n)) for _ in range(rnd.randint(1, 3))]
      ctx.case(key=("seeded", trial))
      one(sample, n, transforms, exact=False)
  finally:
    lattice_suite.util.UniformSumCdf = real


# --------------------------------------------------------------------------------------------------------------------
# statistics helpers
# --------------------------------------------------------------------------------------------------------------------
@bounded("C19", "uniform_sum_cdf_vs_exact_irwin_hall",
         bound="n in 1..20 (quick) / 1..36 (thorough) x x on the grid {i/8 : -8 <= i <= 8n+8}: |UniformSumCdf(n, x) - "
               "exact Irwin-Hall CDF (Fractions)| <= 1e-9; result within [0, 1] up to 1e-9",
         functions=["randomness_tests/util.UniformSumCdf"], exhaustive=True)
def uniform_sum_cdf(ctx):
  _lib()
  from paranoid_crypto.lib.randomness_tests import util as rutil
  tol = Fraction(1, 10 ** 9)
  worst = {}
  for n in range(1, 37 if ctx.thorough else 21):
    for i in range(-8, 8 * n + 9):
      x = Fraction(i, 8)
      ctx.case(key=(n, i))
      got = rutil.UniformSumCdf(n, float(x))
      exp = _irwin_hall_cdf(n, x)
      err = abs(Fraction(got) - exp)
      if err > worst.get(n, (0, None))[0]:
        worst[n] = (err, float(x))
      ctx.check(err <= tol, "UniformSumCdf(n, x) == Irwin-Hall CDF within 1e-9",
                dict(function="UniformSumCdf", n=n, x=float(x), abs_error=float(err)), got, float(exp))
  ctx.notes.append("max abs error per n: " + ", ".join(f"{n}: {float(e):.2e}@{x}" for n, (e, x) in worst.items()))


def _close(got, exp, rel=1e-9, abs_tol=1e-12):
  import mpmath
  got = mpmath.mpf(got)
  return abs(got - exp) <= rel * abs(exp) + abs_tol


@bounded("C19", "combined_pvalue_vs_fisher_mpmath",
         bound="SAMPLED: 400 (quick) / 4000 (thorough) seeded p-value lists of length 2..40 (uniform, tiny 1e-300..1e-5, "
               "near 1, mixed) vs Fisher's method Q(k, -sum ln p) with mpmath at 50 digits (rel 1e-9 + abs 1e-300); "
               "length 1 -> the value itself; a zero entry -> 0; [] -> ValueError",
         functions=["randomness_tests/util.CombinedPValue", "randomness_tests/util.Igamc"])
def combined_pvalue(ctx):
  _lib()
  import mpmath
  from paranoid_crypto.lib.randomness_tests import util as rutil
  mpmath.mp.dps = 50
  rnd = _rnd(ctx, "fisher")
  for trial in range(4000 if ctx.thorough else 400):
    k = rnd.randint(2, 40)
    style = trial % 4
    if style == 0:
      ps = [rnd.random() or 0.5 for _ in range(k)]
    elif style == 1:
      ps = [10.0 ** rnd.uniform(-300, -5) for _ in range(k)]
    elif style == 2:
      ps = [1.0 - rnd.random() * 1e-3 for _ in range(k)]
    else:
      ps = [rnd.choice([rnd.random() or 0.5, 10.0 ** rnd.uniform(-40, 0), 1.0]) for _ in range(k)]
    ctx.case(key=(k, style))
    got = rutil.CombinedPValue(list(ps))
    s = -sum(mpmath.log(mpmath.mpf(p)) for p in ps)
    exp = mpmath.gammainc(k, s, mpmath.inf, regularized=True)
    ctx.check(_close(got, exp, 1e-9, 1e-300), "CombinedPValue == Q(k, -sum ln p) (Fisher)",
              dict(function="CombinedPValue", pvalues=ps, k=k), float(got), float(exp))
  for p in (0.0, 1e-300, 0.25, 1.0):
    ctx.case(key=("single", p))
    ctx.check(rutil.CombinedPValue([p]) == p, "CombinedPValue([p]) == p", dict(function="CombinedPValue", pvalues=[p]))
  for ps in ([0.0, 0.5], [0.3, 0.0, 0.9], [0.0, 0.0]):
    ctx.case(key=("zero", len(ps)))
    ctx.check(rutil.CombinedPValue(list(ps)) == 0, "CombinedPValue with a zero entry == 0",
              dict(function="CombinedPValue", pvalues=ps))
  ctx.case(key="empty")
  try:
    r = rutil.CombinedPValue([])
    ctx.fail("CombinedPValue([]) raises ValueError", dict(function="CombinedPValue", pvalues=[]), observed=r)
  except ValueError:
    pass


@bounded("C19", "normal_binomial_igamc_vs_mpmath",
         bound="NormalCdf: z-grid -40..40 step 1/4 x 4 (mean, variance) pairs vs mpmath.ncdf (abs 1e-12); BinomialCdf(n, m) "
               "for all m <= 64 (quick) / 300 (thorough), all n in -1..m+1 vs exact Fractions (rel 1e-9 + abs 1e-15) and "
               "m in {1000, 10000} sampled n; Igamc(a, x) on a 14 x 17 grid (a 0.5..4096, x 0..5000) vs "
               "mpmath.gammainc regularized (rel 1e-9 + abs 1e-300)",
         functions=["randomness_tests/util.NormalCdf", "randomness_tests/util.BinomialCdf",
                    "randomness_tests/util.Igamc"])
def normal_binomial_igamc(ctx):
  _lib()
  import mpmath
  from paranoid_crypto.lib.randomness_tests import util as rutil
  mpmath.mp.dps = 50
  # NormalCdf
  for mean, var in ((0.0, 1.0), (3.5, 0.25), (-10.0, 100.0), (1e6, 12345.0)):
    sd = mpmath.sqrt(mpmath.mpf(var))
    for i in range(-160, 161):
      z = i / 4
      xval = mean + z * math.sqrt(var)
      ctx.case(key=("normal", mean, i))
      got = rutil.NormalCdf(xval, mean, var)
      exp = mpmath.ncdf((mpmath.mpf(xval) - mpmath.mpf(mean)) / sd)
      ctx.check(_close(got, exp, 0, 1e-12) and 0.0 <= got <= 1.0, "NormalCdf == Phi((x-mean)/sqrt(variance)) (abs 1e-12)",
                dict(function="NormalCdf", x=xval, mean=mean, variance=var), got, float(exp))
  # BinomialCdf
  ms = list(range(0, 301 if ctx.thorough else 65))
  for m in ms:
    acc = Fraction(0)
    denom = 2 ** m
    cum = {}
    for n in range(0, m + 1):
      acc += Fraction(math.comb(m, n), denom)
      cum[n] = acc
    for n in range(-1, m + 2):
      exp = Fraction(0) if n < 0 else (Fraction(1) if n >= m else cum[n])
      ctx.case(key=("binom", m, n))
      got = float(rutil.BinomialCdf(n, m))
      ctx.check(abs(Fraction(got) - exp) <= exp / 10 ** 9 + Fraction(1, 10 ** 15),
                "BinomialCdf(n, m) == sum_{i<=n} C(m, i) / 2^m", dict(function="BinomialCdf", n=n, m=m), got, float(exp))
  for m in (1000, 10000):
    wanted = sorted({0, 1, m // 4, m // 2 - 60, m // 2 - 1, m // 2, m // 2 + 1, m // 2 + 60, 3 * m // 4, m - 1, m})
    partial, c, acc = {}, 1, 0
    for i in range(0, m + 1):                      # C(m, i) by the multiplicative recurrence, exact
      acc += c
      if i in wanted:
        partial[i] = acc
      c = c * (m - i) // (i + 1)
    assert acc == 2 ** m
    for n in wanted:
      exp = Fraction(partial[n], 2 ** m)
      ctx.case(key=("binom", m, n))
      got = float(rutil.BinomialCdf(n, m))
      ctx.check(abs(Fraction(got) - exp) <= exp / 10 ** 9 + Fraction(1, 10 ** 300),
                "BinomialCdf(n, m) == sum_{i<=n} C(m, i) / 2^m", dict(function="BinomialCdf", n=n, m=m), got,
                float(exp) if exp > Fraction(1, 10 ** 300) else 0.0)
  # Igamc
  for a in (0.5, 1.0, 1.5, 2.0, 2.5, 3.0, 5.0, 7.5, 10.0, 20.0, 64.0, 100.0, 512.0, 4096.0):
    for xval in (0.0, 1e-8, 0.1, 0.5, 1.0, 2.0, 5.0, 10.0, 20.0, 50.0, 100.0, 200.0, 500.0, 700.0, 1000.0, 4096.0,
                 5000.0):
      ctx.case(key=("igamc", a, xval))
      got = float(rutil.Igamc(a, xval))
      exp = mpmath.gammainc(mpmath.mpf(a), mpmath.mpf(xval), mpmath.inf, regularized=True)
      ctx.check(_close(got, exp, 1e-9, 1e-300) and 0.0 <= got <= 1.0, "Igamc(a, x) == Q(a, x) (rel 1e-9)",
                dict(function="Igamc", a=a, x=xval), got, float(exp))
