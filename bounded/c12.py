"""C12: ground obligations for the probability tables embedded in the NIST tests (exact Fraction arithmetic, oracles derived
here from first principles) and bounded stand-in checks of the integer statistics, p-value ranges, insufficient-data
thresholds and invariances of nist_suite / extended_nist_suite (never counted as proved).

Bit convention of the library: a string of n bits is the integer sum(b[i] << i), b[0] is the first bit."""
import ast
import hashlib
import math
import random
import sys
from fractions import Fraction as F

from pyvc.registry import bounded, ground


def _mods(with_bm=False):
  from pyvc import runtime
  runtime.install(with_bm=with_bm)
  from paranoid_crypto.lib.randomness_tests import berlekamp_massey as bmpy
  from paranoid_crypto.lib.randomness_tests import extended_nist_suite, nist_suite, util
  if with_bm:
    # the wrapper must see the freshly compiled shim even if the module was imported before
    bmpy.berlekamp_massey = sys.modules["paranoid_crypto.lib.randomness_tests.cc_util.pybind.berlekamp_massey"]
  return nist_suite, extended_nist_suite, util


def _rng(ctx, tag):
  return random.Random("c12:%d:%s" % (ctx.seed, tag))


# ======================================================================================================================
# (a) ground obligations
# ======================================================================================================================

def _assigned_values(module, func, var):
  """Values of the literal expressions assigned to `var` inside function `func` of the module's source, in source order
  (the tables are locals, so they are read from the source text of the working tree)."""
  tree = ast.parse(open(module.__file__).read())
  out = []
  for node in tree.body:
    if isinstance(node, ast.FunctionDef) and node.name == func:
      assigns = [s for s in ast.walk(node) if isinstance(s, ast.Assign)
                 and any(isinstance(t, ast.Name) and t.id == var for t in s.targets)]
      for s in sorted(assigns, key=lambda a: a.lineno):
        out.append(eval(compile(ast.Expression(s.value), "<table>", "eval"), {"__builtins__": {}}))
  return out


def _longest_run(bl):
  best = cur = 0
  for b in bl:
    cur = cur + 1 if b else 0
    best = max(best, cur)
  return best


def _count_longest_run_le(M, r):
  """Number of M-bit strings whose runs of ones all have length <= r.  c[t] = number of strings of the current length
  with all runs <= r and exactly t trailing ones."""
  c = [1] + [0] * r
  for _ in range(M):
    c = [sum(c)] + c[:-1]   # append a 0 (any state -> 0 trailing ones) / append a 1 (t -> t+1, dropped if t+1 > r)
  return sum(c)


def _longest_run_classes(M, v_lower, v_upper):
  """Exact probabilities of the classes {<= v_lower}, {v_lower+1}, .., {v_upper-1}, {>= v_upper} as the code lumps them."""
  le = {r: _count_longest_run_le(M, r) for r in range(v_lower, v_upper)}
  tot = 2 ** M
  return ([F(le[v_lower], tot)] + [F(le[r] - le[r - 1], tot) for r in range(v_lower + 1, v_upper)]
          + [1 - F(le[v_upper - 1], tot)])


def _longest_runs_ground(M):
  ns, _, _ = _mods()
  rows = [p for p in _assigned_values(ns, "LongestRuns", "params")[0] if p[1] == M]
  if len(rows) != 1:
    return False, "no parameter row with block size %d found in LongestRuns" % M
  _, m, v_lower, v_upper, pi = rows[0]
  # self-test of the counting recurrence against enumeration of all 2^10 strings
  for r in range(0, 11):
    brute = sum(1 for x in range(1 << 10) if _longest_run([(x >> i) & 1 for i in range(10)]) <= r)
    assert brute == _count_longest_run_le(10, r), "oracle bug"
  exact = _longest_run_classes(M, v_lower, v_upper)
  if len(exact) != len(pi):
    return False, "table has %d classes, v_lower..v_upper gives %d" % (len(pi), len(exact))
  dev = [abs(F(p) - e) for p, e in zip(pi, exact)]
  unit = F(1, 10 ** 4)
  ok = all(d <= unit for d in dev)
  detail = "M=%d classes <=%d..>=%d table=%s exact=%s max|table-exact|=%.3g (tolerance 1e-4 = one unit of the last printed digit)" % (
      M, v_lower, v_upper, pi, [round(float(e), 6) for e in exact], float(max(dev)))
  return ok, detail


@ground("C12", "longest_runs_pi_M8")
def longest_runs_pi_m8():
  return _longest_runs_ground(8)


@ground("C12", "longest_runs_pi_M128")
def longest_runs_pi_m128():
  return _longest_runs_ground(128)


@ground("C12", "longest_runs_pi_M10000")
def longest_runs_pi_m10000():
  return _longest_runs_ground(10000)


def _rank_prob(r, c, k):
  """P(rank == k) of a uniformly random r x c matrix over GF(2):
  2^(k(r+c-k) - rc) * prod_{i<k} (1 - 2^(i-r)) (1 - 2^(i-c)) / (1 - 2^(i-k))."""
  if k < 0 or k > min(r, c):
    return F(0)
  p = F(2) ** (k * (r + c - k) - r * c)
  for i in range(k):
    p *= (1 - F(2) ** (i - r)) * (1 - F(2) ** (i - c)) / (1 - F(2) ** (i - k))
  return p


def _rank_span(rows):
  span = {0}
  for x in rows:
    span |= {y ^ x for y in span}
  return len(span).bit_length() - 1


def _rank_distribution_exact(r, c, k):
  """[P(rank = r), P(rank = r-1), .., P(rank = r-k+1), P(rank <= r-k)]"""
  head = [_rank_prob(r, c, r - i) for i in range(k)]
  return head + [1 - sum(head)]


@ground("C12", "rank_distribution_exact")
def rank_distribution_exact():
  ns, _, _ = _mods()
  # self-test of the product formula by enumerating all matrices up to 3 x 4
  for r in range(1, 4):
    for c in range(1, 5):
      cnt = {}
      for code in range(1 << (r * c)):
        rk = _rank_span([(code >> (i * c)) & ((1 << c) - 1) for i in range(r)])
        cnt[rk] = cnt.get(rk, 0) + 1
      for rk in range(0, min(r, c) + 1):
        assert F(cnt.get(rk, 0), 2 ** (r * c)) == _rank_prob(r, c, rk), "oracle bug"
  shapes = [(r, c) for r in range(1, 11) for c in range(1, 11)] + [(32, 32), (31, 31), (64, 64), (6, 8), (8, 6), (3, 40),
                                                                   (40, 3), (33, 32), (32, 33)]
  worst, n = 0.0, 0
  bad = []
  for r, c in shapes:
    for k in range(1, min(r, c, 8) + 1):
      got = ns.RankDistribution(r, c, k, allow_approximation=False)
      exp = _rank_distribution_exact(r, c, k)
      n += 1
      if len(got) != k + 1:
        bad.append((r, c, k, "length"))
        continue
      d = max(abs(F(g) - e) for g, e in zip(got, exp))
      worst = max(worst, float(d))
      if d > F(1, 10 ** 12):
        bad.append((r, c, k, float(d)))
  return not bad, "%d (r, c, k) triples, max |RankDistribution - exact product formula| = %.3g (tolerance 1e-12)%s" % (
      n, worst, "; violations: %s" % bad[:5] if bad else "")


@ground("C12", "rank_distribution_precomputed")
def rank_distribution_precomputed():
  ns, _, _ = _mods()
  worst = F(0)
  bad = []
  n = 0
  # square shapes use the embedded asymptotic table from 31 x 31 on; non-square shapes of every size must NOT (the
  # limiting distribution of the rank deficiency depends on c - r) - seeded change C12-5
  shapes = [(r, r) for r in (31, 32, 33, 40, 64)] + [(31, 33), (33, 31), (32, 40), (40, 32), (31, 32), (64, 32), (32, 64),
                                                     (100, 31), (31, 100), (30, 40), (40, 30)]
  for r, c in shapes:
    for k in range(1, 6):
      got = ns.RankDistribution(r, c, k)
      exp = _rank_distribution_exact(r, c, k)
      n += 1
      for i, (g, e) in enumerate(zip(got, exp)):
        # the last entry is the sum of 6-k printed values: one unit per summand
        tol = F(1, 10 ** 8) * (1 if i < k else 6 - k)
        d = abs(F(g) - e)
        worst = max(worst, d)
        if d > tol or len(got) != k + 1:
          bad.append((r, c, k, i, float(d)))
  return not bad, ("default RankDistribution (precomputed row for r == c >= 31, k <= 5; exact otherwise) vs exact product "
                   "formula at 5 square and 11 non-square shapes >= 30: %d (r, c, k) triples, max deviation %.3g (tolerance 1e-8 per printed value)%s" % (
                       n, float(worst), "; violations: %s" % bad[:5] if bad else ""))


@ground("C12", "asymptotic_rank_sf")
def asymptotic_rank_sf():
  _, ens, _ = _mods()
  table = ens.ASYMPTOTIC_RANK_SF
  # Q_j = lim_n P(rank = n - j) = 2^(-j^2) prod_{i>j} (1 - 2^-i) / prod_{i<=j} (1 - 2^-i).
  # Truncating the infinite product at N changes it by a factor in (1 - 2^-N, 1); terms j > J add < 2^(-J^2) * 4.
  N, J = 200, 40
  head = [F(1)]                       # head[j] = prod_{i=1..j} (1 - 2^-i)
  for i in range(1, J + 1):
    head.append(head[-1] * (1 - F(1, 2 ** i)))
  tail = [F(1)] * (J + 2)             # tail[j] = prod_{i=j+1..N} (1 - 2^-i)
  acc = F(1)
  for i in range(N, 0, -1):
    acc *= 1 - F(1, 2 ** i)
    if i - 1 <= J + 1:
      tail[i - 1] = acc
  q_hi = [F(1, 2 ** (j * j)) * tail[j] / head[j] for j in range(J + 1)]           # upper bounds of Q_j
  bad = []
  worst = 0.0
  for k, t in enumerate(table):
    hi = sum(q_hi[k:]) + F(4, 2 ** (J * J))
    lo = sum(q_hi[k:]) * (1 - F(1, 2 ** N))
    # six significant digits are printed: one unit of the sixth digit of the table value
    e = math.floor(math.log10(t))
    unit = F(10) ** (e - 5)
    d = max(abs(F(t) - lo), abs(F(t) - hi))
    worst = max(worst, float(d / unit))
    if d > unit:
      bad.append((k, t, float(lo)))
  ok = not bad and len(table) == 33
  return ok, "%d entries, max deviation %.3f units of the 6th significant digit (tolerance 1 unit)%s" % (
      len(table), worst, "; violations %s" % bad[:4] if bad else "")


def _rueppel(n, m):
  if m < 0 or m > n:
    return 0
  if m == 0:
    return 1
  if 2 * m <= n:
    return 2 ** (2 * m - 1)
  return 4 ** (n - m)


@ground("C12", "linear_complexity_pi")
def linear_complexity_pi():
  ns, _, _ = _mods()
  vals = _assigned_values(ns, "LinearComplexityImpl", "pi")
  if len(vals) != 2:
    return False, "expected two pi tables (even / odd block size) in LinearComplexityImpl, found %d" % len(vals)
  pi_even, pi_odd = vals
  limit = {0: [F(1, 96), F(1, 32), F(1, 8), F(1, 2), F(1, 4), F(1, 16), F(1, 48)],
           1: [F(1, 48), F(1, 16), F(1, 4), F(1, 2), F(1, 8), F(1, 32), F(1, 96)]}
  worst_mid, worst_tail_ratio = F(0), F(0)
  bad = []
  for m in range(10, 601):
    assert sum(_rueppel(m, l) for l in range(m + 1)) == 2 ** m, "oracle bug"
    med = (m + 1) // 2
    prob = lambda l: F(_rueppel(m, l), 2 ** m)
    exact = ([sum(prob(l) for l in range(0, med - 2))] + [prob(med - 3 + j) for j in range(1, 6)]
             + [sum(prob(l) for l in range(med + 3, m + 1))])
    assert sum(exact) == 1, "oracle bug"
    pi = pi_even if m % 2 == 0 else pi_odd
    for j in range(7):
      d = abs(F(pi[j]) - exact[j])
      if 1 <= j <= 5:
        worst_mid = max(worst_mid, d)
        if d != 0:
          bad.append((m, j, float(d)))
      else:
        # the tails are the m -> infinity limits; the finite-m value differs by at most 2^-m (plus float rounding of 1/96, 1/48)
        worst_tail_ratio = max(worst_tail_ratio, d * 2 ** m if m <= 40 else F(0))
        if d > F(1, 2 ** m) + F(1, 2 ** 55):
          bad.append((m, j, float(d)))
  lim_ok = all(abs(F(p) - q) <= F(1, 2 ** 55) for par, tab in ((0, pi_even), (1, pi_odd)) for p, q in zip(tab, limit[par]))
  ok = not bad and lim_ok
  return ok, ("block sizes 10..600: the five central classes equal the Rueppel probabilities exactly; the two tail classes "
              "equal the m->infinity limits 1/96, 1/48 and differ from the exact finite-m value by <= 2^-m "
              "(max ratio %.3f; 3.3e-4 at m = 10)%s" % (float(worst_tail_ratio), "; violations %s" % bad[:4] if bad else ""))


def _hit_x_before_0(x):
  """h[i] = P(simple random walk started at i reaches x before 0), 0 <= i <= x, by solving the harmonic equations
  h[i] = (h[i-1] + h[i+1]) / 2, h[0] = 0, h[x] = 1 exactly (Gaussian elimination over Fractions)."""
  n = x - 1
  if n <= 0:
    return [F(0), F(1)][:x + 1]
  a = [[F(0)] * (n + 1) for _ in range(n)]
  for i in range(1, x):
    a[i - 1][i - 1] = F(1)
    if i - 1 >= 1:
      a[i - 1][i - 2] = F(-1, 2)
    if i + 1 <= x - 1:
      a[i - 1][i] = F(-1, 2)
    else:
      a[i - 1][n] += F(1, 2)   # h[x] = 1 moved to the right-hand side
  for col in range(n):
    piv = next(r for r in range(col, n) if a[r][col] != 0)
    a[col], a[piv] = a[piv], a[col]
    inv = 1 / a[col][col]
    a[col] = [v * inv for v in a[col]]
    for r in range(n):
      if r != col and a[r][col] != 0:
        f = a[r][col]
        a[r] = [v - f * w for v, w in zip(a[r], a[col])]
  return [F(0)] + [a[i][n] for i in range(n)] + [F(1)]


def _excursion_distribution(x, max_cnt):
  """P(state x is visited k times within one excursion), k = 0..max_cnt-1, and P(>= max_cnt), from first principles:
  reach x at all: first step towards x (1/2), then x before 0 from 1; once at x: step away from 0 (1/2, returns to x with
  probability 1 by recurrence) or towards 0 (1/2) and then x before 0 from |x|-1."""
  ax = abs(x)
  h = _hit_x_before_0(ax)
  p_visit = F(1, 2) * h[1]
  p_again = F(1, 2) + F(1, 2) * h[ax - 1]
  dist = [1 - p_visit] + [p_visit * p_again ** (k - 1) * (1 - p_again) for k in range(1, max_cnt)]
  return dist + [p_visit * p_again ** (max_cnt - 1)]


def _excursion_distribution_nist(x, max_cnt=5):
  """Transcription of NIST SP 800-22 section 3.14."""
  t = F(1, 2 * abs(x))
  return [1 - t] + [t * t * (1 - t) ** (k - 1) for k in range(1, max_cnt)] + [t * (1 - t) ** (max_cnt - 1)]


@ground("C12", "random_excursions_distribution")
def random_excursions_distribution():
  ns, _, _ = _mods()
  worst = 0.0
  bad = []
  n = 0
  for x in list(range(-9, 0)) + list(range(1, 10)):
    for max_cnt in range(1, 9):
      exact = _excursion_distribution(x, max_cnt)
      assert sum(exact) == 1, "oracle bug"
      if max_cnt == 5:
        assert exact == _excursion_distribution_nist(x), "first-principles derivation disagrees with NIST 3.14"
      got = ns.RandomExcursionsDistribution(x, max_cnt)
      n += 1
      if len(got) != max_cnt + 1:
        bad.append((x, max_cnt, "length"))
        continue
      d = max(abs(F(g) - e) for g, e in zip(got, exact))
      worst = max(worst, float(d))
      if d > F(1, 10 ** 15):
        bad.append((x, max_cnt, float(d)))
  return not bad, ("x in -9..9 \\ {0}, max_cnt in 1..8 (%d pairs): max |RandomExcursionsDistribution - exact| = %.3g "
                   "(tolerance 1e-15); exact = gambler's-ruin derivation == NIST 3.14 formula%s" % (
                       n, worst, "; violations %s" % bad[:4] if bad else ""))


@ground("C12", "overlapping_template_distribution_small")
def overlapping_template_distribution_small():
  ns, _, _ = _mods()
  worst = 0.0
  bad = []
  cases = 0
  for n in range(1, 13):
    strings = [[(x >> i) & 1 for i in range(n)] for x in range(1 << n)]
    for m in range(1, 6):
      occ = [sum(1 for i in range(n - m + 1) if all(bl[i:i + m])) for bl in strings]
      for k in range(1, 7):
        exact = [F(sum(1 for o in occ if o == i), 2 ** n) for i in range(k)] + [F(sum(1 for o in occ if o >= k), 2 ** n)]
        got = ns.OverlappingTemplateMatchingDistribution(n, m, k)
        cases += 1
        d = max(abs(F(float(g)) - e) for g, e in zip(got, exact)) if len(got) == k + 1 else F(1)
        worst = max(worst, float(d))
        if d > F(1, 10 ** 12):
          bad.append((n, m, k, float(d)))
  return not bad, ("block length n <= 12, run length m <= 5, k <= 6 (%d triples): max |OverlappingTemplateMatchingDistribution - "
                   "enumerated distribution| = %.3g (tolerance 1e-12)%s" % (cases, worst, "; violations %s" % bad[:4] if bad else ""))


@ground("C12", "universal_table")
def universal_table():
  """float64 evaluation (not exact): E = 2^-L sum_i (1-2^-L)^(i-1) log2 i, Var = same with (log2 i)^2, minus E^2 (Maurer 1992);
  series truncated at 60 * 2^L terms (remainder < 1e-20), pairwise summation error < 1e-12."""
  import numpy as np
  ns, _, _ = _mods()
  tables = _assigned_values(ns, "UniversalDistribution", "distribution_table")
  if len(tables) != 1:
    return False, "distribution_table not found"
  table = tables[0]
  bad = []
  worst_m, worst_v = 0.0, 0.0
  for L, (mean, var) in sorted(table.items()):
    N = 60 * 2 ** L + 100
    i = np.arange(1, N + 1, dtype=np.float64)
    w = np.exp((i - 1) * math.log1p(-2.0 ** -L)) * 2.0 ** -L
    lg = np.log2(i)
    e1 = float(np.sum(w * lg))
    e2 = float(np.sum(w * lg * lg)) - e1 * e1
    tol_m = 1e-7 if L <= 10 else 1e-6     # 7 decimals printed up to L = 10, 6 decimals beyond
    worst_m = max(worst_m, abs(e1 - mean) / tol_m)
    worst_v = max(worst_v, abs(e2 - var) / 1e-3)
    if abs(e1 - mean) > tol_m or abs(e2 - var) > 1e-3:
      bad.append((L, mean, e1, var, e2))
  return not bad and sorted(table) == list(range(1, 17)), (
      "L = 1..16: expected value within %.2f units and variance within %.2f units of the last printed digit of Maurer's series "
      "(float64 evaluation, error < 1e-12)%s" % (worst_m, worst_v, "; violations %s" % bad[:3] if bad else ""))


# ======================================================================================================================
# (b) bounded stand-in checks
# ======================================================================================================================


_CLASS_FIELDS = ("test", "statistic", "exception", "constant", "walk_one_sided", "relation", "transform", "no_blocks",
                 "range_class", "runs_pretest_failed", "args", "kwargs", "impl")


def _fail(ctx, what, inputs, observed=None, expected=None):
  """ctx.fail, but at most 2 reports per failure class (the registry keeps only 50 failures per check; without this a
  frequent class would hide every other one).  The class is made of the fields a known-finding predicate may use."""
  key = (what,) + tuple(str(inputs.get(k)) for k in _CLASS_FIELDS)
  seen = ctx.__dict__.setdefault("_c12_classes", {})
  seen[key] = seen.get(key, 0) + 1
  if seen[key] <= 2:
    ctx.fail(what, inputs, observed, expected)
  elif seen[key] == 3:
    ctx.notes.append("further failures of class %r not listed individually" % (key,))


def _check(ctx, cond, what, inputs, observed=None, expected=None):
  if not cond:
    _fail(ctx, what, inputs, observed, expected)
  return cond


def _bl(bits, n):
  return [(bits >> i) & 1 for i in range(n)]


def _rev(bits, n):
  """bit i of the result = bit n-1-i of bits (text reversal)."""
  return int(format(bits, "0%db" % n)[::-1], 2) if n else 0


def _rot(bits, n, r):
  """cyclic rotation: bit i of the result = bit (i + r) mod n of bits."""
  r %= n
  return ((bits >> r) | (bits << (n - r))) & ((1 << n) - 1)


def _desc(bits, n):
  """The string itself up to 4096 bits, else a digest (long strings are reproducible from VERIF_SEED, kind and n)."""
  return bits if n <= 4096 else "sha256:" + hashlib.sha256(bits.to_bytes((n + 7) // 8, "little")).hexdigest()[:16]


def _structured(rnd, n):
  full = (1 << n) - 1
  out = [("random", rnd.getrandbits(n)), ("zeros", 0), ("ones", full)]
  p = rnd.randrange(2, 12)
  pat = rnd.getrandbits(p) | 1
  per = 0
  for k in range(0, n, p):
    per |= pat << k
  out.append(("periodic", per & full))
  sp = 0
  for _ in range(1 + n // 64):
    sp |= 1 << rnd.randrange(n)
  out.append(("sparse", sp))
  out.append(("dense", full ^ sp))
  out.append(("alternating", int("01" * (n // 2 + 1), 2) & full))
  half = n // 2
  out.append(("half_ones", (1 << half) - 1))
  return out


def _call(ns, f, *args, **kw):
  """('ok', value) | ('insufficient', exc) | ('rejected', exc: other ValueError) | ('error', exc)"""
  try:
    return "ok", f(*args, **kw)
  except ns.InsufficientDataError as e:
    return "insufficient", e
  except ValueError as e:
    return "rejected", e
  except Exception as e:  # pylint: disable=broad-except
    return "error", e


def _named(res):
  if isinstance(res, (list, tuple)):
    return list(res)
  return [("result", res)]


def _unit(p):
  try:
    return (not isinstance(p, bool)) and p == p and 0.0 <= p <= 1.0
  except Exception:  # pylint: disable=broad-except
    return False


def _range_class(p):
  """'ok' | 'nan' | 'rounding' (outside [0, 1] by at most 1e-9) | 'material'"""
  if _unit(p):
    return "ok"
  try:
    if p != p:
      return "nan"
    return "rounding" if -1e-9 <= p <= 1 + 1e-9 else "material"
  except Exception:  # pylint: disable=broad-except
    return "material"


def _psi2(bl, m):
  """psi^2_m of NIST 2.11 exactly: (2^m / n) sum over all m-bit patterns of (cyclic count)^2 - n; psi^2_0 = psi^2_-1 = 0."""
  n = len(bl)
  if m <= 0:
    return F(0)
  cnt = {}
  ext = bl + bl[:m - 1]
  for i in range(n):
    w = tuple(ext[i:i + m])
    cnt[w] = cnt.get(w, 0) + 1
  return F(2 ** m, n) * sum(v * v for v in cnt.values()) - n


def _range_inputs(inputs, name, p):
  """inputs of a failing range check, with the structure a known-finding predicate needs."""
  out = dict(inputs, pvalue_name=name, range_class=_range_class(p))
  if inputs.get("test") == "Serial" and isinstance(inputs.get("bits"), int) and name.startswith("m="):
    m = int(name.split()[0][2:])
    bl = _bl(inputs["bits"], inputs["n"])
    out["exact_del_psi2"] = float(_psi2(bl, m) - _psi2(bl, m - 1))
    out["exact_del2_psi2"] = float(_psi2(bl, m) - 2 * _psi2(bl, m - 1) + _psi2(bl, m - 2))
  return out


def _check_pvalues(ctx, status, res, inputs):
  """p-values in [0, 1]; an exception other than ValueError / InsufficientDataError is a failure. Returns ok-flag."""
  if status == "error":
    _fail(ctx, "the test returns p-values or raises InsufficientDataError / ValueError", dict(inputs, exception=type(res).__name__),
          observed=repr(res)[:200])
    return False
  if status != "ok":
    return True
  good = True
  for name, p in _named(res):
    if not _unit(p):
      good = False
      _fail(ctx, "every returned p-value lies in [0, 1]", _range_inputs(inputs, name, p), observed=float(p) if p == p else "nan")
  return good


# ---------------------------------------------------------------- p-values of the tests that accept short strings ------

@bounded("C12", "pvalue_range_short_exhaustive",
         bound="all bit strings of length 1..12 (quick) / 1..16 (thorough): Frequency, Runs, Serial, ApproximateEntropy, "
               "Spectral (default parameters) return p-values in [0, 1] (not NaN) or reject the input with ValueError",
         functions=["nist_suite.Frequency", "nist_suite.Runs", "nist_suite.Serial", "nist_suite.ApproximateEntropy",
                    "nist_suite.Spectral"], exhaustive=True)
def pvalue_range_short(ctx):
  ns, _, _ = _mods()
  tests = [("Frequency", ns.Frequency), ("Runs", ns.Runs), ("Serial", ns.Serial), ("ApproximateEntropy", ns.ApproximateEntropy),
           ("Spectral", ns.Spectral)]
  for n in range(1, 17 if ctx.thorough else 13):
    full = (1 << n) - 1
    for bits in range(1 << n):
      for name, f in tests:
        status, res = _call(ns, f, bits, n)
        ctx.case(key=(name, n, status))
        _check_pvalues(ctx, status, res, dict(test=name, n=n, bits=bits, constant=bits in (0, full)))


# ---------------------------------------------------------------- p-value formulae on exact statistics -----------------

def _phi(bl, m):
  """phi(m) of NIST 2.12: sum over m-bit patterns of (c/n) ln(c/n), c = cyclic count; 40-digit arithmetic."""
  import mpmath
  n = len(bl)
  cnt = {}
  ext = bl + bl[:m - 1]
  for i in range(n):
    w = tuple(ext[i:i + m])
    cnt[w] = cnt.get(w, 0) + 1
  return sum(mpmath.mpf(c) / n * mpmath.log(mpmath.mpf(c) / n) for c in cnt.values())


def _formula_pvalues(name, bl, names):
  """Transcriptions of NIST SP 800-22 sections 2.1.4, 2.3.4, 2.11.4, 2.12.4 evaluated on exactly computed statistics.
  Returns {p-value name: expected or None when the formula is undefined}."""
  import mpmath
  import scipy.special as sp
  n = len(bl)
  ones = sum(bl)
  if name == "Frequency":
    return {"result": math.erfc(abs(2 * ones - n) / math.sqrt(n) / math.sqrt(2))}
  if name == "Runs":
    if ones in (0, n):
      return {"result": None}
    pi = F(ones, n)
    v = 1 + sum(1 for i in range(n - 1) if bl[i] != bl[i + 1])
    num = abs(v - 2 * n * pi * (1 - pi))
    return {"result": math.erfc(float(num) / (2 * math.sqrt(2 * n) * float(pi * (1 - pi))))}
  out = {}
  if name == "Serial":
    for nm in names:
      m = int(nm.split()[0][2:])
      d1 = _psi2(bl, m) - _psi2(bl, m - 1)
      d2 = _psi2(bl, m) - 2 * _psi2(bl, m - 1) + _psi2(bl, m - 2)
      if nm.endswith("p-value1"):
        out[nm] = float(sp.gammaincc(2.0 ** (m - 2), float(d1) / 2)) if d1 >= 0 else None
      else:
        out[nm] = float(sp.gammaincc(2.0 ** (m - 3), float(d2) / 2)) if d2 >= 0 else None
    return out
  if name == "ApproximateEntropy":
    mpmath.mp.dps = 40
    for nm in names:
      m = int(nm[2:])
      chi = 2 * n * (mpmath.log(2) - (_phi(bl, m) - _phi(bl, m + 1)))
      chi = float(chi) if chi > 0 else 0.0
      out[nm] = float(sp.gammaincc(2.0 ** (m - 1), chi / 2))
    return out
  raise AssertionError(name)


@bounded("C12", "pvalue_formulae_short",
         bound="all bit strings of length 2..10 (quick) / 2..14 (thorough) and 8 seeded structured strings of every length 11..200 and "
               "{256, 1000, 1024, 4096}: Frequency, Runs (incl. the prerequisite of 2.3.4 step 2), Serial and ApproximateEntropy p-values (for the block "
               "lengths m the functions choose) == NIST 2.1.4 / 2.3.4 / 2.11.4 / 2.12.4 evaluated on exactly computed statistics "
               "(Fractions; 40-digit logarithms), tolerance 1e-12 (Frequency, Runs) / 1e-6 (igamc-based, whose argument the library "
               "computes in floating point)",
         functions=["nist_suite.Frequency", "nist_suite.Runs", "nist_suite.Serial", "nist_suite.ApproximateEntropy"], exhaustive=True)
def pvalue_formulae_short(ctx):
  ns, _, _ = _mods()
  rnd = _rng(ctx, "formulae")
  tests = [("Frequency", ns.Frequency, 1e-12), ("Runs", ns.Runs, 1e-12), ("Serial", ns.Serial, 1e-6),
           ("ApproximateEntropy", ns.ApproximateEntropy, 1e-6)]

  def one(bits, n, kind):
    bl = _bl(bits, n)
    ones = sum(bl)
    for name, f, tol in tests:
      status, res = _call(ns, f, bits, n)
      ctx.case(key=(name, n, kind))
      if status != "ok":
        continue   # rejections / exceptions are reported by the range checks
      got = _named(res)
      info = dict(test=name, n=n, bits=_desc(bits, n), string_kind=kind, constant=bits in (0, (1 << n) - 1))
      if name == "Runs" and (2 * ones - n) ** 2 >= 16 * n:
        # NIST 2.3.4 step (2): |pi - 1/2| >= tau = 2 / sqrt(n)  ->  the test is not applicable and the P-value is set to 0
        _check(ctx, got[0][1] == 0.0, "Runs p-value == 0 when the monobit prerequisite |pi - 1/2| < 2/sqrt(n) fails (NIST 2.3.4 step 2)",
               dict(info, runs_pretest_failed=True, ones=ones), observed=float(got[0][1]), expected=0.0)
        continue
      exp = _formula_pvalues(name, bl, [nm for nm, _ in got])
      for nm, p in got:
        e = exp.get(nm)
        if e is None:
          if len(ctx.notes) < 20:
            ctx.notes.append("formula undefined: %s %s n=%d bits=%s" % (name, nm, n, _desc(bits, n)))
          continue
        if not (p == p and abs(p - e) <= tol):
          _fail(ctx, "p-value == NIST formula on the exact statistic", _range_inputs(info, nm, p),
                observed=float(p) if p == p else "nan", expected=e)

  for n in range(2, 15 if ctx.thorough else 11):
    for bits in range(1 << n):
      one(bits, n, "exhaustive")
  for n in list(range(11, 201)) + [256, 1000, 1024, 4096]:
    for kind, bits in _structured(rnd, n):
      one(bits, n, kind)


# ---------------------------------------------------------------- cumulative sums --------------------------------------

class _Recorder:
  """Observation hook: replaces a module-level function by a wrapper that records the arguments and calls the original."""

  def __init__(self, module, name):
    self.module, self.name, self.calls = module, name, []
    self.orig = getattr(module, name)

  def __enter__(self):
    def wrapper(*args, **kw):
      self.calls.append(args)
      return self.orig(*args, **kw)
    setattr(self.module, self.name, wrapper)
    return self

  def __exit__(self, *exc):
    setattr(self.module, self.name, self.orig)
    return False


def _cusum_def(bits, n):
  """(z_forward, z_backward) of NIST 2.13: X_i = 2 b_i - 1; forward partial sums S_k = X_1 + .. + X_k, backward partial sums
  X_n + .. + X_{n-k+1} = S_n - S_{n-k}; z = max over k = 1..n of the absolute value."""
  s = [0]
  for i in range(n):
    s.append(s[-1] + (1 if (bits >> i) & 1 else -1))
  zf = max(abs(s[k]) for k in range(1, n + 1))
  zb = max(abs(s[n] - s[n - k]) for k in range(1, n + 1))
  return zf, zb, s


def _one_sided(s):
  return all(v >= 0 for v in s) or all(v <= 0 for v in s)


def _cusum_one(ctx, ns, bits, n, kind, results=None):
  zf, zb, s = _cusum_def(bits, n)
  with _Recorder(ns, "CumulativeSumsPValue") as rec:
    status, res = _call(ns, ns.RandomWalk, bits, n)
  base = dict(test="RandomWalk", n=n, bits=_desc(bits, n), kind=kind, walk_one_sided=_one_sided(s))
  if status != "ok":
    which = "cusum_reverse" if len(rec.calls) == 2 else ("cusum_forward" if len(rec.calls) == 1 else "random_walk")
    _fail(ctx, "RandomWalk returns its p-values for every non-empty bit string",
             dict(base, statistic=which, exception=type(res).__name__, z_passed=[c[1] for c in rec.calls]),
             observed=repr(res)[:200], expected=[zf, zb])
    if results is not None and len(rec.calls) == 2:
      results[bits] = (rec.calls[0][1], rec.calls[1][1])
    return
  if len(rec.calls) != 2:
    _fail(ctx, "RandomWalk evaluates CumulativeSumsPValue exactly twice (forward, reverse)", dict(base, statistic="random_walk"),
             observed=len(rec.calls))
    return
  (n1, of), (n2, ob) = rec.calls
  if results is not None:
    results[bits] = (of, ob)
  _check(ctx, n1 == n and of == zf, "forward cusum statistic == max_{1<=k<=n} |S_k|", dict(base, statistic="cusum_forward"), of, zf)
  _check(ctx, n2 == n and ob == zb, "reverse cusum statistic == max_{1<=k<=n} |X_n + .. + X_{n-k+1}|",
            dict(base, statistic="cusum_reverse"), ob, zb)
  pv = dict(res)
  for nm, st, zdef, zobs in (("cumulative sums forward", "cusum_forward", zf, of), ("cumulative sums reverse", "cusum_reverse", zb, ob)):
    p = pv.get(nm)
    _check(ctx, p is not None and _unit(p), "cumulative sums p-value lies in [0, 1]",
           dict(base, statistic=st, pvalue_name=nm, z=zdef, z_passed=zobs, range_class=_range_class(p), below_nist_minimum=n < 100),
           observed=p)
  for nm, p in res:
    if not nm.startswith("cumulative sums"):
      _check(ctx, _unit(p), "every returned p-value lies in [0, 1]",
             dict(base, statistic=nm, pvalue_name=nm, range_class=_range_class(p)), observed=p)


@bounded("C12", "cusum_statistics",
         bound="all bit strings of length 1..12 (quick) / 1..16 (thorough), and 8 seeded structured strings of every length "
               "17..400 (quick) / 17..1500 (thorough): the two integers RandomWalk passes to CumulativeSumsPValue (observed "
               "by wrapping that function) == max |partial sum| of NIST 2.13 forwards / backwards; both p-values in [0,1]; "
               "exhaustive part also: forward statistic of the reversed string == reverse statistic, both unchanged under "
               "complementing all bits",
         functions=["nist_suite.RandomWalk", "nist_suite.CumulativeSumsPValue"], exhaustive=True)
def cusum_statistics(ctx):
  ns, _, _ = _mods()
  rnd = _rng(ctx, "cusum")
  for n in range(1, 17 if ctx.thorough else 13):
    full = (1 << n) - 1
    results = {}
    for bits in range(1 << n):
      ctx.case(key=(n, _cusum_def(bits, n)[:2]))
      _cusum_one(ctx, ns, bits, n, "exhaustive", results)
    for bits, (of, ob) in results.items():
      r = results.get(_rev(bits, n))
      c = results.get(bits ^ full)
      if r is not None:
        _check(ctx, r[0] == ob, "forward cusum statistic of the reversed string == reverse cusum statistic of the string",
                  dict(statistic="cusum_reverse", relation="reversal", n=n, bits=bits), [r[0], ob])
      if c is not None:
        _check(ctx, c[0] == of, "forward cusum statistic unchanged under complement",
                  dict(statistic="cusum_forward", relation="complement", n=n, bits=bits), [c[0], of])
        _check(ctx, c[1] == ob, "reverse cusum statistic unchanged under complement",
                  dict(statistic="cusum_reverse", relation="complement", n=n, bits=bits), [c[1], ob])
  for n in range(17, 1501 if ctx.thorough else 401):
    for kind, bits in _structured(rnd, n):
      ctx.case(key=(n, kind))
      _cusum_one(ctx, ns, bits, n, kind)


# ---------------------------------------------------------------- insufficient data -----------------------------------

@bounded("C12", "insufficient_data_thresholds",
         bound="BlockFrequency (100), LongestRuns (128), BinaryMatrixRank default 32x32 (38912) and (r,c) in {(3,3),(4,5),(6,8)} "
               "(38rc), LinearComplexity (block_size in {1,5,9} always; {10,11,16,31,32} x n = 200*block_size -1/0/+1), "
               "LargeBinaryMatrixRank (4096), NonOverlappingTemplateMatching (n // 8 < 4), Universal (387840): "
               "InsufficientDataError for n in {0, 1, min//2, min-9..min-1}, p-values in [0,1] for n in min..min+8, on "
               "random / all-zero / all-one / periodic strings (Universal: n in {0, 1000, 387839} raise, {387840, 387841} accept)",
         functions=["nist_suite.BlockFrequency", "nist_suite.LongestRuns", "nist_suite.BinaryMatrixRank", "nist_suite.Universal",
                    "nist_suite.LinearComplexity", "nist_suite.NonOverlappingTemplateMatching",
                    "extended_nist_suite.LargeBinaryMatrixRank"])
def insufficient_data(ctx):
  ns, ens, _ = _mods(with_bm=True)
  rnd = _rng(ctx, "insufficient")

  def strings(n):
    if n == 0:
      return [("empty", 0)]
    s = _structured(rnd, n)
    return s[:4] if n < 50000 else s[:1]

  def probe(name, f, minimum, extra=(), kw=None, below=None, above=None):
    kw = kw or {}
    below = below if below is not None else sorted({0, 1, minimum // 2} | set(range(minimum - 9, minimum)))
    above = above if above is not None else list(range(minimum, minimum + 9))
    for n in below + above:
      if n < 0:
        continue
      for kind, bits in strings(n):
        status, res = _call(ns, f, bits, n, *extra, **kw)
        ctx.case(key=(name, tuple(extra), n - minimum, kind))
        info = dict(test=name, n=n, minimum=minimum, args=list(extra), kwargs=kw, kind=kind, bits=_desc(bits, n))
        if n < minimum:
          _check(ctx, status == "insufficient", "raises InsufficientDataError below the documented minimum", info,
                    observed=status if status != "ok" else repr(res)[:100])
        else:
          _check(ctx, status == "ok", "accepts the input at and above the documented minimum", dict(info, constant=bits in (0, (1 << n) - 1)),
                    observed=status + ":" + repr(res)[:150])
          _check_pvalues(ctx, status if status == "ok" else "rejected", res, dict(info, constant=bits in (0, (1 << n) - 1)))

  probe("BlockFrequency", ns.BlockFrequency, 100)
  probe("LongestRuns", ns.LongestRuns, 128)
  probe("BinaryMatrixRank", ns.BinaryMatrixRank, 38 * 32 * 32)
  for r, c in ((3, 3), (4, 5), (6, 8)):
    probe("BinaryMatrixRank", ns.BinaryMatrixRank, 38 * r * c, kw=dict(r=r, c=c))
  probe("LargeBinaryMatrixRank", ens.LargeBinaryMatrixRank, 4096)
  probe("NonOverlappingTemplateMatching", ns.NonOverlappingTemplateMatching, 32)
  for bs in (1, 5, 9):
    # block_size < 10: always insufficient
    for n in (0, 10, 199 * bs, 200 * bs, 2000, 20000):
      for kind, bits in strings(n)[:2]:
        status, res = _call(ns, ns.LinearComplexity, bits, n, bs)
        ctx.case(key=("LinearComplexity", bs, n))
        _check(ctx, status == "insufficient", "LinearComplexity raises InsufficientDataError for block_size < 10",
                  dict(test="LinearComplexity", n=n, block_size=bs, kind=kind), observed=status)
  for bs in (10, 11, 16, 31, 32):
    probe("LinearComplexity", ns.LinearComplexity, 200 * bs, extra=(bs,), below=[0, 1, 100 * bs, 200 * bs - 2, 200 * bs - 1],
          above=[200 * bs, 200 * bs + 1, 200 * bs + bs])
  probe("Universal", ns.Universal, 387840, below=[0, 1000, 387839], above=[387840, 387841])


# ---------------------------------------------------------------- invariances -----------------------------------------

def _same(p, q):
  if p != p or q != q:
    return (p != p) and (q != q)
  return abs(p - q) <= 1e-12 + 1e-9 * max(abs(p), abs(q))


def _invariant(ctx, ns, name, f, bits, n, tbits, transform, kind, extra=()):
  s1, r1 = _call(ns, f, bits, n, *extra)
  s2, r2 = _call(ns, f, tbits, n, *extra)
  info = dict(test=name, transform=transform, n=n, bits=_desc(bits, n), transformed=_desc(tbits, n), kind=kind)
  if s1 != "ok" or s2 != "ok":
    # both must fail alike; the failure itself is reported by the range checks
    _check(ctx, s1 == s2, "the test accepts a string iff it accepts the transformed string", info, observed=[s1, s2])
    return
  a, b = _named(r1), _named(r2)
  ok = len(a) == len(b) and all(x[0] == y[0] and _same(x[1], y[1]) for x, y in zip(a, b))
  _check(ctx, ok, "p-values unchanged under a transformation that leaves the statistic unchanged", info,
            observed=[a[:4], b[:4]])


@bounded("C12", "invariances",
         bound="all bit strings of length 2..12 (quick) / 2..14 (thorough) and 8 seeded structured strings of every length "
               "15..300 and {1000..1007, 4096, 5000} (thorough also 10^5): Frequency, Runs, BlockFrequency(n>=100) under complement; "
               "Frequency, Runs under reversal; Serial, ApproximateEntropy under every cyclic rotation (exhaustive part, n <= 10 / "
               "12) or 6 rotations (seeded part), under complement and under reversal; the cumulative-sums p-values under "
               "complement; p-values compared with tolerance 1e-12 + 1e-9 relative",
         functions=["nist_suite.Frequency", "nist_suite.Runs", "nist_suite.BlockFrequency", "nist_suite.Serial",
                    "nist_suite.ApproximateEntropy", "nist_suite.RandomWalk"], exhaustive=True)
def invariances(ctx):
  ns, _, _ = _mods()
  rnd = _rng(ctx, "invariances")

  def cusum_only(bits, n):
    return ns.RandomWalk(bits, n)[:2]

  def one(bits, n, kind, rotations):
    full = (1 << n) - 1
    comp, rev = bits ^ full, _rev(bits, n)
    ctx.case(key=(n, kind))
    for name, f in (("Frequency", ns.Frequency), ("Runs", ns.Runs)):
      _invariant(ctx, ns, name, f, bits, n, comp, "complement", kind)
      _invariant(ctx, ns, name, f, bits, n, rev, "reversal", kind)
    if n >= 100:
      _invariant(ctx, ns, "BlockFrequency", ns.BlockFrequency, bits, n, comp, "complement", kind)
    _invariant(ctx, ns, "RandomWalk/cusum", cusum_only, bits, n, comp, "complement", kind)
    for name, f in (("Serial", ns.Serial), ("ApproximateEntropy", ns.ApproximateEntropy)):
      _invariant(ctx, ns, name, f, bits, n, comp, "complement", kind)
      _invariant(ctx, ns, name, f, bits, n, rev, "reversal", kind)
      for r in rotations:
        _invariant(ctx, ns, name, f, bits, n, _rot(bits, n, r), "rotation", kind)

  nmax = 14 if ctx.thorough else 12
  rot_max = 12 if ctx.thorough else 10
  for n in range(2, nmax + 1):
    for bits in range(1 << n):
      one(bits, n, "exhaustive", range(1, n) if n <= rot_max else (1, n - 1))
  lengths = list(range(15, 301)) + list(range(1000, 1008)) + [4096, 5000] + ([100000] if ctx.thorough else [])
  for n in lengths:
    for kind, bits in _structured(rnd, n)[:8 if n < 10000 else 2]:
      one(bits, n, kind, sorted({1, 7, 8, n // 2, n - 1, rnd.randrange(1, n)}))


# ---------------------------------------------------------------- integer statistics observed at ChiSquare -------------

def _split(bl, m):
  return [bl[i * m:(i + 1) * m] for i in range(len(bl) // m)]


def _rank_lowbit(rows):
  basis = {}
  for r in rows:
    while r:
      low = r & -r
      b = basis.get(low)
      if b is None:
        basis[low] = r
        break
      r ^= b
  return len(basis)


def _val(bl):
  return sum(b << j for j, b in enumerate(bl))


def _bm_textbook(bl):
  """Massey's algorithm with explicit connection polynomials (integers); cross-checked against the definition in c14."""
  C, B, L, m, rev = 1, 1, 0, 1, 0
  for N, bit in enumerate(bl):
    rev = (rev << 1) | bit
    if (C & rev).bit_count() & 1 == 0:
      m += 1
    elif 2 * L <= N:
      C, B, L, m = C ^ (B << m), C, N + 1 - L, 1
    else:
      C, m = C ^ (B << m), m + 1
  return L


@bounded("C12", "chi_square_inputs",
         bound="the count vector v (and the probability vector) each test hands to ChiSquare, observed by wrapping "
               "nist_suite.ChiSquare, equals its one-line definition: LongestRuns for n in 128..140, 6264..6280 (thorough also "
               "750000) ; BinaryMatrixRank for (r,c,k) in {(3,3,2),(4,5,3),(6,8,3),(32,32,3)} at n = 38rc + {0, 1, rc-1, rc, 3rc+5}; "
               "OverlappingTemplateMatching for (m, block) in {(2,9),(3,18),(4,35),(9,1032)} x 3..40 blocks (+ partial block); "
               "LinearComplexity for block_size in {10,11,12,13,16,17,31,32,63,64,65,100} x 200 blocks (+ partial block), "
               "including the second p-value's q handed to BinomialCdf; seeded random / constant / periodic / sparse strings",
         functions=["nist_suite.LongestRuns", "nist_suite.BinaryMatrixRank", "nist_suite.BinaryMatrixRankImpl",
                    "nist_suite.OverlappingTemplateMatching", "nist_suite.LinearComplexity", "nist_suite.LinearComplexityImpl"])
def chi_square_inputs(ctx):
  ns, _, util = _mods(with_bm=True)
  rnd = _rng(ctx, "chisq")
  params = _assigned_values(ns, "LongestRuns", "params")[0]

  def observe(f, *args, **kw):
    with _Recorder(ns, "ChiSquare") as rec:
      status, res = _call(ns, f, *args, **kw)
    return status, res, rec.calls

  # LongestRuns: block size by the ladder of 2.4.2, v[i] = #blocks whose longest run falls in class i
  lengths = list(range(128, 141)) + list(range(6264, 6281)) + ([750000] if ctx.thorough else [])
  for n in lengths:
    strs = _structured(rnd, n)
    for kind, bits in (strs if n < 10000 else strs[:1]):
      _, M, lo, hi, pi = max((p for p in params if p[0] <= n), key=lambda p: p[0])
      exp_M = 8 if n < 6272 else (128 if n < 750000 else 10000)
      blocks = _split(_bl(bits, n), exp_M)
      exp_lo, exp_hi = {8: (1, 4), 128: (4, 9), 10000: (10, 16)}[exp_M]
      v = [0] * (exp_hi - exp_lo + 1)
      for b in blocks:
        v[min(max(_longest_run(b), exp_lo), exp_hi) - exp_lo] += 1
      status, res, calls = observe(ns.LongestRuns, bits, n)
      ctx.case(key=("LongestRuns", n, kind))
      info = dict(test="LongestRuns", n=n, kind=kind, bits=_desc(bits, n), constant=bits in (0, (1 << n) - 1))
      if status != "ok" or len(calls) != 1:
        _fail(ctx, "LongestRuns evaluates one chi-square", info, observed=status + repr(res)[:100])
        continue
      _check(ctx, list(calls[0][0]) == v and M == exp_M, "LongestRuns class counts == #blocks with longest run in each class "
                "(block size 8 / 128 / 10^4 for n >= 128 / 6272 / 750000)", info, list(calls[0][0]), v)
      _check(ctx, list(calls[0][1]) == pi and calls[0][2] == len(v) - 1, "probabilities = table row of the block size, K = classes - 1",
                info, [list(calls[0][1]), calls[0][2]])
      _check_pvalues(ctx, status, res, info)

  # BinaryMatrixRank: v[i] = #matrices of rank r - i (i < k), v[k] = #matrices of rank <= r - k; rows = consecutive c-bit blocks
  for r, c, k in ((3, 3, 2), (4, 5, 3), (6, 8, 3), (32, 32, 3)):
    base = 38 * r * c
    for n in (base, base + 1, base + r * c - 1, base + r * c, base + 3 * r * c + 5):
      strs = _structured(rnd, n)
      for kind, bits in strs[:1] + strs[3:5] + strs[7:8] + [("low_rank", _low_rank_string(rnd, n, r, c))]:
        rows = [_val(b) for b in _split(_bl(bits, n), c)]
        v = [0] * (k + 1)
        for i in range(len(rows) // r):
          rk = _rank_lowbit(rows[i * r:(i + 1) * r])
          v[min(k, r - rk)] += 1
        status, res, calls = observe(ns.BinaryMatrixRank, bits, n, r, c, k)
        ctx.case(key=("BinaryMatrixRank", r, c, n - base, kind))
        info = dict(test="BinaryMatrixRank", n=n, r=r, c=c, k=k, kind=kind, bits=_desc(bits, n))
        if status != "ok" or len(calls) != 1:
          _fail(ctx, "BinaryMatrixRank evaluates one chi-square", info, observed=status + repr(res)[:100])
          continue
        _check(ctx, list(calls[0][0]) == v, "rank class counts == #matrices with rank r, r-1, .., <= r-k", info, list(calls[0][0]), v)
        exact = _rank_distribution_exact(r, c, k)
        _check(ctx, all(abs(F(float(p)) - e) <= F(1, 10 ** 8) * 3 for p, e in zip(calls[0][1], exact)) and len(calls[0][1]) == k + 1,
                  "rank probabilities == exact distribution (1e-8)", info, list(map(float, calls[0][1])), list(map(float, exact)))
        _check_pvalues(ctx, status, res, info)

  # OverlappingTemplateMatching: v[i] = #blocks with i (possibly overlapping) runs of m ones, i < 5; v[5] = #blocks with >= 5
  for m, bs in ((2, 9), (3, 18), (4, 35), (9, 1032)):
    for nb in (3, 7, 40):
      n = nb * bs + rnd.randrange(0, bs)
      strs = _structured(rnd, n)
      for kind, bits in strs[:1] + strs[2:6]:
        v = [0] * 6
        for b in _split(_bl(bits, n), bs):
          occ = sum(1 for i in range(bs - m + 1) if all(b[i:i + m]))
          v[min(5, occ)] += 1
        if (m, bs) == (9, 1032):
          status, res, calls = observe(ns.OverlappingTemplateMatching, bits, n)
        else:
          status, res, calls = observe(ns.OverlappingTemplateMatching, bits, n, m, bs)
        ctx.case(key=("Overlapping", m, bs, nb, kind))
        info = dict(test="OverlappingTemplateMatching", n=n, m=m, block_size=bs, kind=kind, bits=_desc(bits, n))
        if status != "ok" or len(calls) != 1:
          _fail(ctx, "OverlappingTemplateMatching evaluates one chi-square", info, observed=status + repr(res)[:100])
          continue
        _check(ctx, list(calls[0][0]) == v, "class counts == #blocks with 0,1,2,3,4,>=5 runs of m ones", info, list(calls[0][0]), v)
        _check_pvalues(ctx, status, res, info)

  # LinearComplexity: v by distance of the block's linear complexity from the median (m+1)//2, classes <= -3, -2, .., 2, >= 3
  pis = _assigned_values(ns, "LinearComplexityImpl", "pi")
  for bs in (10, 11, 12, 13, 16, 17, 31, 32, 63, 64, 65, 100):
    n = 200 * bs + rnd.randrange(0, bs)
    strs = _structured(rnd, n)
    for kind, bits in strs[:2] + strs[3:5] + [("lfsr_blocks", _low_complexity_string(rnd, n, bs))]:
      med = (bs + 1) // 2
      v = [0] * 7
      q = 0
      for b in _split(_bl(bits, n), bs):
        L = _bm_textbook(b)
        v[min(6, max(0, L - med + 3))] += 1
        # -log2 P(linear complexity of a random bs-bit block == L)
        q += bs - (_rueppel(bs, L).bit_length() - 1)
      with _Recorder(util, "BinomialCdf") as rec2:
        status, res, calls = observe(ns.LinearComplexity, bits, n, bs)
      ctx.case(key=("LinearComplexity", bs, kind))
      info = dict(test="LinearComplexity", n=n, block_size=bs, kind=kind, bits=_desc(bits, n))
      if status != "ok" or len(calls) != 1 or len(rec2.calls) != 1:
        _fail(ctx, "LinearComplexity evaluates one chi-square and one binomial tail", info, observed=status + repr(res)[:100])
        continue
      _check(ctx, list(calls[0][0]) == v, "class counts == #blocks with linear complexity - median <= -3, -2, -1, 0, 1, 2, >= 3", info,
                list(calls[0][0]), v)
      _check(ctx, list(calls[0][1]) == pis[bs % 2] and calls[0][2] == 6, "probabilities = the table for the parity of the block size", info,
                list(calls[0][1]))
      _check(ctx, tuple(rec2.calls[0]) == (len(_split(_bl(bits, n), bs)) - 1, q - 1),
                "second p-value = P(at most #blocks - 1 heads in q - 1 tosses), q = -sum log2 P(complexity of block)", info,
                list(rec2.calls[0]), [n // bs - 1, q - 1])
      _check_pvalues(ctx, status, res, info)


def _low_rank_string(rnd, n, r, c):
  """Concatenation of r x c matrices of assorted (low) ranks, rows written as consecutive c-bit blocks."""
  bits, pos = 0, 0
  while pos + r * c <= n:
    k = rnd.randrange(0, min(r, c) + 1)
    basis = [rnd.getrandbits(c) for _ in range(k)]
    for _ in range(r):
      x = 0
      for b in basis:
        if rnd.getrandbits(1):
          x ^= b
      bits |= x << pos
      pos += c
  return bits


def _low_complexity_string(rnd, n, bs):
  """Blocks of assorted linear complexity: an LFSR of random length 0..bs started at a random state."""
  out = []
  while len(out) < n:
    deg = rnd.choice([0, 1, 2, bs // 2 - 3, bs // 2 - 1, bs // 2, bs // 2 + 1, bs // 2 + 4, bs - 1, bs])
    deg = max(0, min(bs, deg))
    taps = [j for j in range(1, deg + 1) if rnd.getrandbits(1) or j == deg]
    b = [rnd.getrandbits(1) for _ in range(deg)]
    for i in range(deg, bs):
      x = 0
      for j in taps:
        x ^= b[i - j]
      b.append(x)
    out += b[:bs]
  return _val(out[:n])


# ---------------------------------------------------------------- random excursions ------------------------------------

def _excursion_oracle(bits, n):
  """NIST 2.14 / 2.15 on S' = 0, S_1, .., S_n, 0: J = zeros after the starting one; per-cycle visit counts."""
  import scipy.special
  s = 0
  cycles = [dict()]
  total = {}
  for i in range(n):
    s += 1 if (bits >> i) & 1 else -1
    if s == 0:
      cycles.append(dict())
    else:
      cycles[-1][s] = cycles[-1].get(s, 0) + 1
      total[s] = total.get(s, 0) + 1
  J = len(cycles)   # zeros among S_1..S_n, plus the appended final zero
  out = {}
  if J < 500:
    return J, out
  for x in (-4, -3, -2, -1, 1, 2, 3, 4):
    v = [0] * 6
    for cyc in cycles:
      v[min(5, cyc.get(x, 0))] += 1
    pi = [float(p) for p in _excursion_distribution_nist(x)]
    chi = sum((v[k] - J * pi[k]) ** 2 / (J * pi[k]) for k in range(6))
    out["random excursions %d" % x] = float(scipy.special.gammaincc(2.5, chi / 2))
  for x in list(range(-9, 0)) + list(range(1, 10)):
    out["random excursions variant %d" % x] = math.erfc(abs(total.get(x, 0) - J) / math.sqrt(2 * J * (4 * abs(x) - 2)))
  return J, out


def _many_cycles_string(rnd, cycles, max_half):
  """Concatenation of `cycles` balanced segments (each returns the walk to zero at least once)."""
  out = []
  for _ in range(cycles):
    h = rnd.randrange(1, max_half + 1)
    seg = [1] * h + [0] * h
    rnd.shuffle(seg)
    out += seg
  return _val(out), len(out)


@bounded("C12", "random_excursions_statistics",
         bound="seeded strings built from 300..2500 balanced segments of half-length <= 1, 3, 8, 20 (below and above the J >= 500 "
               "rule) and random strings of 2*10^5 bits (thorough also 10^6): RandomWalk returns 2 values iff J < 500 and "
               "otherwise 2 + 8 + 18 p-values equal (1e-9) to a transcription of NIST 2.14/2.15 evaluated on the cycle visit "
               "counts; all in [0, 1]",
         functions=["nist_suite.RandomWalk", "nist_suite.RandomExcursionsDistribution"])
def random_excursions_statistics(ctx):
  ns, _, _ = _mods()
  rnd = _rng(ctx, "excursions")
  cases = []
  for cyc in (300, 499, 500, 501, 800, 2500):
    for mh in (1, 3, 8, 20):
      bits, n = _many_cycles_string(rnd, cyc // (2 if mh > 3 else 1) if cyc > 501 else cyc, mh)
      cases.append(("segments_%d_%d" % (cyc, mh), bits, n))
  for rep in range(3 if not ctx.thorough else 6):
    cases.append(("random", rnd.getrandbits(200000), 200000))
  if ctx.thorough:
    for rep in range(3):
      cases.append(("random", rnd.getrandbits(10 ** 6), 10 ** 6))
  for kind, bits, n in cases:
    J, exp = _excursion_oracle(bits, n)
    status, res = _call(ns, ns.RandomWalk, bits, n)
    ctx.case(key=(kind, n, J >= 500), sample=dict(kind=kind, n=n, J=J))
    info = dict(test="RandomWalk", kind=kind, n=n, bits=_desc(bits, n), cycles=J)
    if status != "ok":
      _fail(ctx, "RandomWalk returns p-values", dict(info, statistic="random_walk"), observed=repr(res)[:200])
      continue
    rest = [(nm, p) for nm, p in res if not nm.startswith("cumulative sums")]
    _check(ctx, len(res) - len(rest) == 2 and len(rest) == (26 if J >= 500 else 0),
              "2 cusum p-values, plus 8 + 18 excursion p-values iff the number of cycles J >= 500", dict(info, statistic="count"),
              len(rest), 26 if J >= 500 else 0)
    for nm, p in rest:
      e = exp.get(nm)
      _check(ctx, e is not None and abs(p - e) <= 1e-12 + 1e-9 * abs(e) and _unit(p),
                "excursion p-value == NIST 2.14.4 / 2.15.4 formula on the cycle visit counts", dict(info, statistic=nm), p, e)


# ---------------------------------------------------------------- all tests, p-value range on longer strings -----------

@bounded("C12", "pvalue_range_all_tests",
         bound="every test of random_test_suite's NIST and extended lists with default parameters (LinearComplexity block sizes "
               "16 and 512, LinearComplexityScatter step 8/32) on 8 seeded structured strings (random, all-zero, all-one, periodic, "
               "sparse, dense, alternating, half ones) of lengths {16, 31, 32, 100, 127, 128, 1031, 1032, 2064, 4096, 6272, 16384, "
               "38912, 102400} (thorough also {387840, 750000, 1000003}): every p-value in [0, 1], no exception other than "
               "InsufficientDataError / ValueError",
         functions=["nist_suite.*", "extended_nist_suite.LargeBinaryMatrixRank", "extended_nist_suite.LinearComplexityScatter"])
def pvalue_range_all(ctx):
  ns, ens, _ = _mods(with_bm=True)
  rnd = _rng(ctx, "alltests")
  tests = [("Frequency", ns.Frequency, ()), ("BlockFrequency", ns.BlockFrequency, ()), ("Runs", ns.Runs, ()),
           ("LongestRuns", ns.LongestRuns, ()), ("BinaryMatrixRank", ns.BinaryMatrixRank, ()), ("Spectral", ns.Spectral, ()),
           ("NonOverlappingTemplateMatching", ns.NonOverlappingTemplateMatching, ()),
           ("OverlappingTemplateMatching", ns.OverlappingTemplateMatching, ()), ("Universal", ns.Universal, ()),
           ("LinearComplexity", ns.LinearComplexity, (16,)), ("LinearComplexity", ns.LinearComplexity, (512,)),
           ("Serial", ns.Serial, ()), ("ApproximateEntropy", ns.ApproximateEntropy, ()), ("RandomWalk", ns.RandomWalk, ()),
           ("LargeBinaryMatrixRank", ens.LargeBinaryMatrixRank, ()),
           ("LinearComplexityScatter", ens.LinearComplexityScatter, (8, 2000)),
           ("LinearComplexityScatter", ens.LinearComplexityScatter, (32, 1000))]
  lengths = [16, 31, 32, 100, 127, 128, 1031, 1032, 2064, 4096, 6272, 16384, 38912, 102400]
  if ctx.thorough:
    lengths += [387840, 750000, 1000003]
  for n in lengths:
    strs = _structured(rnd, n)
    if n > 200000:
      strs = strs[:4]
    for kind, bits in strs:
      for name, f, extra in tests:
        if n > 200000 and name in ("Spectral",) and kind != "random":
          continue
        if name == "RandomWalk":
          # statistic-by-statistic attribution, see cusum_statistics
          ctx.case(key=(name, extra, n, kind))
          _cusum_one(ctx, ns, bits, n, kind)
          continue
        status, res = _call(ns, f, bits, n, *extra)
        ctx.case(key=(name, extra, n, kind, status))
        info = dict(test=name, args=list(extra), n=n, kind=kind, bits=_desc(bits, n), constant=bits in (0, (1 << n) - 1))
        if name == "OverlappingTemplateMatching":
          info["no_blocks"] = n < 1032
        _check_pvalues(ctx, status, res, info)
