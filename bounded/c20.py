"""C20 bounded stand-in: the real generators, run (never counted as proved)."""
from pyvc.registry import bounded


def _rngs():
  from pyvc import runtime
  runtime.install()
  from paranoid_crypto.lib.randomness_tests import rng
  return rng


@bounded("C20", "rng_range_and_determinism",
         bound="every generator name of rng.RNGS x n in 1..200 (quick) / 1..2048 + sampled larger at every residue mod 64 "
               "(thorough) x 3 non-zero seeds; determinism on a repeated call",
         functions=["rng.*.RandomBits", "rng.GetRng"])
def rng_range(ctx):
  rng = _rngs()
  ns = list(range(1, 201 if not ctx.thorough else 2049))
  if ctx.thorough:
    ns += [4096 + r for r in range(64)]
  seeds = [1, 0xDEADBEEF, (1 << 200) + 12345 + ctx.seed]
  # non-zero seeds whose low words vanish (the generators reduce the seed modulo 2^32 / 2^64 / 2^160 ...)
  odd_seeds = [1 << 32, 1 << 64, 3 << 64, 1 << 128, 1 << 160, 5 << 192, -(1 << 64)]
  for name, g in rng.RNGS.items():
    slow = name.startswith("subsetsum") or name.startswith("lcgnist")
    for n in (ns if not slow else ns[::7]):
      for seed in seeds[: (3 if n < 130 else 1)]:
        r = g.RandomBits(n, seed=seed)
        ctx.case(key=(name, n % 64, n < 64), sample=dict(generator=name, n=n, seed=seed, result_bits=int(r).bit_length()))
        ctx.check(isinstance(r, int) and 0 <= r < (1 << n), "0 <= RandomBits(n) < 2**n",
                  dict(generator=name, n=n, seed=seed), observed=r)
        if name not in ("urandom",) and not name.startswith("subsetsum") and n % 16 == 1:
          r2 = g.RandomBits(n, seed=seed)
          ctx.check(r2 == r, "RandomBits is a function of (generator, n, seed)", dict(generator=name, n=n, seed=seed),
                    observed=[r, r2])
    ctx.check(rng.GetRng(name) is g, "GetRng(name) returns the registered generator", dict(generator=name))
    if name != "urandom" and not name.startswith("subsetsum"):
      for seed in odd_seeds:
        if seed < 0 and name in ("mt19937", "pcg64", "philox", "sfc64", "shake128", "lcgnist", "java") + tuple(
            k for k in rng.RNGS if k.startswith(("mwc", "lehmer", "trunclcg"))):
          continue   # negative seeds are outside those generators' domains
        for n in (1, 64, 65):
          try:
            rs = [g.RandomBits(n, seed=seed) for _ in range(3)]
          except (ValueError, OverflowError, TypeError):
            continue
          ctx.case(key=(name, "lowzero", n, seed % 7))
          ctx.check(len(set(rs)) == 1, "RandomBits is a function of (generator, n, seed) for a non-zero seed",
                    dict(generator=name, n=n, seed=seed, seed_low_words_zero=True), observed=rs)


def _java_next32(state):
  state = (state * 0x5DEECE66D + 0xB) & ((1 << 48) - 1)
  v = state >> 16
  return state, (v - (1 << 32) if v >= (1 << 31) else v)


def _java_biginteger(n, seed):
  """Independent transcription of new BigInteger(n, new java.util.Random(seed)) (java.math.BigInteger.randomBits)."""
  state = (seed ^ 0x5DEECE66D) & ((1 << 48) - 1)
  num_bytes = (n + 7) // 8
  buf = bytearray(num_bytes)
  # java.util.Random.nextBytes: for each int, bytes are taken little-endian
  i = 0
  while i < num_bytes:
    state, rnd = _java_next32(state)
    for _ in range(min(num_bytes - i, 4)):
      buf[i] = rnd & 0xFF
      rnd >>= 8
      i += 1
  if num_bytes > 0:
    excess = 8 * num_bytes - n
    buf[0] &= (1 << (8 - excess)) - 1
  return int.from_bytes(buf, "big")


@bounded("C20", "java_random_stream",
         bound="n in 1..512 (quick) / 1..2048 (thorough) x 5 seeds against an independent transcription of "
               "java.util.Random.nextBytes + BigInteger(numBits, rnd)",
         functions=["rng.JavaRandom.RandomBits"])
def java_stream(ctx):
  rng = _rngs()
  g = rng.JavaRandom()
  for n in range(1, 513 if not ctx.thorough else 2049):
    for seed in (1, 42, 0x123456789ABC, (1 << 47) + 5, ctx.seed + 7):
      ctx.case(key=(n % 32, seed % 3))
      exp = _java_biginteger(n, seed)
      got = g.RandomBits(n, seed=seed)
      ctx.check(got == exp, "JavaRandom reproduces BigInteger(n, new Random(seed))", dict(n=n, seed=seed), got, exp)


@bounded("C20", "trunc_lcg_stream",
         bound="output sizes 16,20,28,32,64,128 x n multiple of the output size up to 40 outputs x 3 seeds: upper half of "
               "the LCG state, outputs concatenated little-endian (only n % 8 == 0, see known finding F6)",
         functions=["rng.TruncLcgRand.RandomBits"])
def trunc_lcg_stream(ctx):
  rng = _rngs()
  for size in (16, 20, 28, 32, 64, 128):
    g = rng.TruncLcgRand(size)
    ob = (size + 7) // 8
    for cnt in range(1, 41 if ctx.thorough else 12):
      n = 8 * ob * cnt
      for seed in (1, 0xABCDEF, (1 << (2 * size)) - 3):
        state, out = seed, 0
        for j in range(cnt):
          state = (state * g.a + g.c) % (1 << (2 * size))
          out |= (state >> size) << (8 * ob * j)
        ctx.case(key=(size, cnt))
        got = g.RandomBits(n, seed=seed)
        ctx.check(got == out, "TruncLcgRand stream == upper halves of the LCG states", dict(size=size, n=n, seed=seed),
                  got, out)
