"""C04 bounded stand-in: close primes are factored (Fermat threshold, equal high/low bits, documented differences).

Oracles: the planted primes themselves (the factorisation is known by construction) and the closed-form Fermat step
count (p+q)/2 - ceil(sqrt(n)) computed with math.isqrt.  Sampled within each family (seeded), not exhaustive over
primes; exhaustive over the stated parameter grids.
"""
import math

from pyvc.registry import bounded


def _rnd(ctx, tag):
  """Seeded generator that depends only on VERIF_SEED (ctx.rnd mixes in hash(name), which varies per process)."""
  import random
  return random.Random(f"{ctx.seed}/c04/{tag}")


def _rand_prime(rnd, bits, top2=False):
  import gmpy2
  while True:
    c = rnd.getrandbits(bits) | (1 << (bits - 1)) | 1
    if top2:
      c |= 1 << (bits - 2)
    p = int(gmpy2.next_prime(c))
    if p.bit_length() == bits:
      return p


def _fermat_steps(p, q):
  """(p+q)/2 - ceil(sqrt(p*q)) for odd p, q."""
  n = p * q
  c = math.isqrt(n)
  if c * c < n:
    c += 1
  return (p + q) // 2 - c


@bounded("C04", "fermat_exact_step_threshold",
         bound="SAMPLED primes: prime sizes 64,80,...,256 bits x target step counts T in {0 (adjacent primes), ~1, ~7, "
               "~100, ~3000, ~20000 (thorough also ~150000)} x 3 (quick) / 8 (thorough) seeded pairs; for each pair "
               "max_steps in {0, 1, T-1, T, T+1, T+2, 100000}: FermatFactor(n, max_steps) returns {p, q} iff "
               "T < max_steps, else None",
         functions=["rsa_util.FermatFactor"])
def fermat_threshold(ctx):
  from pyvc import runtime
  runtime.install()
  import gmpy2
  from paranoid_crypto.lib import rsa_util
  rnd = _rnd(ctx, 'fermat')
  targets = [0, 1, 7, 100, 3000, 20000] + ([150000] if ctx.thorough else [])
  pairs = 8 if ctx.thorough else 3
  for bits in range(64, 257, 16):
    for target in targets:
      for trial in range(pairs):
        p = _rand_prime(rnd, bits)
        if target == 0:
          q = int(gmpy2.next_prime(p))
        else:
          # T ~ (q-p)^2 / (8 sqrt n)  =>  q - p ~ sqrt(8 T p)
          d = math.isqrt(8 * target * p)
          d += rnd.randrange(max(1, d // 16))
          q = int(gmpy2.next_prime(p + d))
        n = p * q
        steps = _fermat_steps(p, q)
        cands = sorted({0, 1, max(0, steps - 1), steps, steps + 1, steps + 2, 100000})
        for max_steps in cands:
          if max_steps > 400000:
            continue
          exp = steps < max_steps
          ctx.case(key=(bits, target, max_steps - steps if abs(max_steps - steps) < 3 else max_steps),
                   sample=dict(p=p, q=q, fermat_steps=steps, max_steps=max_steps))
          for arg in ((n, gmpy2.mpz(n)) if trial == 0 else (gmpy2.mpz(n),)):
            got = rsa_util.FermatFactor(arg, max_steps)
            inputs = dict(n=n, p=p, q=q, prime_bits=bits, fermat_steps=steps, max_steps=max_steps,
                          arg_type=type(arg).__name__)
            if exp:
              ctx.check(got is not None and sorted(int(x) for x in got) == sorted((p, q)),
                        "FermatFactor factors n when (p+q)/2 - ceil(sqrt n) < max_steps", inputs,
                        observed=None if got is None else [int(x) for x in got], expected=[p, q])
            else:
              ctx.check(got is None, "FermatFactor returns None when (p+q)/2 - ceil(sqrt n) >= max_steps", inputs,
                        observed=None if got is None else [int(x) for x in got], expected=None)


def _partner(rnd, p, bits, r, s, tries=4000):
  """A prime q != p of `bits` bits agreeing with p on the r lowest and s highest bits; middle bits seeded random."""
  import gmpy2
  mid = bits - r - s
  if mid < 1:
    return None
  low = p & ((1 << r) - 1)
  high = (p >> (bits - s)) << (bits - s) if s else 0
  for _ in range(tries):
    q = high | (rnd.getrandbits(mid) << r) | low
    if q != p and q.bit_length() == bits and gmpy2.is_prime(q):
      return int(q)
  return None


@bounded("C04", "equal_high_and_low_bits_factored",
         bound="SAMPLED primes, exhaustive over splits: prime sizes 64..96 bits (quick: step 8, 2 seeded pairs per "
               "split; thorough: every size, 4 pairs) and, thorough only, sizes 128,192,256,384,512 with (r, s) on a "
               "grid of stride ~size/24: every (r, s) with r >= 3, s >= 0 (s = 0: no common high bits; s >= 1 is "
               "implied by equal size), 4(r+s) >= L+8 (L = bit length of n) and >= 12 free middle bits; "
               "FactorHighAndLowBitsEqual(n) or FermatFactor(n, 100000) returns {p, q}",
         functions=["rsa_util.FactorHighAndLowBitsEqual", "rsa_util.FermatFactor", "ntheory_util.InverseSqrt2exp",
                    "ntheory_util.Inverse2exp"])
def high_low_bits(ctx):
  from pyvc import runtime
  runtime.install()
  import gmpy2
  from paranoid_crypto.lib import rsa_util
  rnd = _rnd(ctx, 'highlow')
  if ctx.thorough:
    plan = [(b, 1, 4) for b in range(64, 97)] + [(b, max(1, b // 24), 2) for b in (128, 192, 256, 384, 512)]
  else:
    plan = [(b, 1, 2) for b in range(64, 97, 8)]
  min_mid = 12
  misses = 0
  for bits, stride, pairs in plan:
    for r in range(3, bits - min_mid + 1, stride):
      for s in range(0, bits - min_mid - r + 1, stride):
        if 4 * (r + s) < 2 * bits - 1 + 8:
          continue  # cannot be admissible for either possible L
        for trial in range(pairs):
          p = _rand_prime(rnd, bits)
          q = _partner(rnd, p, bits, r, s)
          if q is None:
            continue
          n = p * q
          big_l = n.bit_length()
          if 4 * (r + s) < big_l + 8:
            continue
          # the construction really has the stated agreement
          assert (p ^ q) & ((1 << r) - 1) == 0 and (s == 0 or (p >> (bits - s)) == (q >> (bits - s)))
          ctx.case(key=(bits, r, s), sample=dict(p=p, q=q, r=r, s=s, L=big_l))
          inputs = dict(n=n, p=p, q=q, prime_bits=bits, r=r, s=s, L=big_l, margin=4 * (r + s) - big_l - 8)
          try:
            got = rsa_util.FactorHighAndLowBitsEqual(gmpy2.mpz(n))
          except Exception as e:  # pylint: disable=broad-except
            ctx.fail("FactorHighAndLowBitsEqual returns normally", dict(inputs, exception=type(e).__name__),
                     observed=f"{type(e).__name__}: {e}")
            got = None
          by = "high_low"
          if got is not None:
            ctx.check(sorted(int(x) for x in got) == sorted((p, q)),
                      "FactorHighAndLowBitsEqual result is the true factorisation", inputs,
                      observed=[int(x) for x in got], expected=sorted((p, q)))
          else:
            got = rsa_util.FermatFactor(gmpy2.mpz(n), 100000)
            by = "fermat"
          ok = got is not None and sorted(int(x) for x in got) == sorted((p, q))
          if not ctx.check(ok, "primes agreeing on r low and s high bits (r >= 3, r+s >= L/4+2) are factored by "
                               "FactorHighAndLowBitsEqual or FermatFactor(n, 100000)", dict(inputs, tried=by),
                           observed=None if got is None else [int(x) for x in got], expected=sorted((p, q))):
            misses += 1
  ctx.notes.append(f"misses={misses}")


_DIFF_EXPONENTS = (100, 128, 160, 256, 2, 3)


@bounded("C04", "small_upper_differences_factored",
         bound="SAMPLED: prime sizes L in {384, 512} (quick, 12 seeded keys per (L, D)) / {384, 512, 768, 1024} "
               "(thorough, 150 per (L, D); 60 for L = 1024) x the six documented differences D = 2^(L-e), "
               "e in {100, 128, 160, 256, 2, 3}: p seeded L-bit prime with the two top bits set, q = next_prime(p + D), "
               "L == bit_length(n) // 2; CheckSmallUpperDifferences(n) must return {p, q}",
         functions=["rsa_util.CheckSmallUpperDifferences", "special_case_factoring.FactorWithGuess",
                    "ntheory_util.ContinuedFraction"])
def small_upper_differences(ctx):
  from pyvc import runtime
  runtime.install()
  import gmpy2
  from paranoid_crypto.lib import rsa_util
  rnd = _rnd(ctx, 'upperdiff')
  sizes = (384, 512, 768, 1024) if ctx.thorough else (384, 512)
  stats = {}
  for big_l in sizes:
    count = (60 if big_l >= 1024 else 150) if ctx.thorough else 12
    for e in _DIFF_EXPONENTS:
      miss = 0
      for trial in range(count):
        while True:
          p = _rand_prime(rnd, big_l, top2=True)
          q = int(gmpy2.next_prime(p + (1 << (big_l - e))))
          n = p * q
          if n.bit_length() // 2 == big_l:
            break
        ctx.case(key=(big_l, e, trial), sample=dict(prime_bits=big_l, difference_exponent=e, p=p, q=q))
        inputs = dict(prime_bits=big_l, difference_exponent=e, difference="2^(L-%d)" % e, trial=trial, n=n, p=p, q=q,
                      gap_after_difference=q - p - (1 << (big_l - e)))
        try:
          got = rsa_util.CheckSmallUpperDifferences(gmpy2.mpz(n))
        except Exception as ex:  # pylint: disable=broad-except
          ctx.fail("CheckSmallUpperDifferences returns normally", dict(inputs, exception=type(ex).__name__),
                   observed=f"{type(ex).__name__}: {ex}")
          continue
        ok = got is not None and sorted(int(x) for x in got) == sorted((p, q))
        if not ok:
          miss += 1
        ctx.check(ok, "q = next_prime(p + 2^(L-e)): CheckSmallUpperDifferences returns both primes", inputs,
                  observed=None if got is None else [int(x) for x in got], expected=sorted((p, q)))
      stats[(big_l, e)] = (miss, count)
  ctx.notes.append("miss rate per (L, e): " + ", ".join(f"L={k[0]} e={k[1]}: {v[0]}/{v[1]}" for k, v in stats.items()))
