"""C01 bounded stand-in: proper-divisor clause of CheckGCD, AttachFactors/GetAttachedFactors round trip (C16 law).

Oracles are the property statement itself: one division per recorded factor, one divisibility test per other modulus.
"""
import itertools

from pyvc.registry import bounded


def _rnd(ctx, tag):
  """Seeded generator that depends only on VERIF_SEED (ctx.rnd mixes in hash(name), which varies per process)."""
  import random
  return random.Random(f"{ctx.seed}/c01/{tag}")


def _is_prime(n):
  """Deterministic Miller-Rabin (bases 2..41, exact below 3.3e24)."""
  if n < 2:
    return False
  small = (2, 3, 5, 7, 11, 13, 17, 19, 23, 29, 31, 37, 41)
  for p in small:
    if n % p == 0:
      return n == p
  d, s = n - 1, 0
  while d % 2 == 0:
    d //= 2
    s += 1
  for a in small:
    x = pow(a, d, n)
    if x in (1, n - 1):
      continue
    for _ in range(s - 1):
      x = x * x % n
      if x == n - 1:
        break
    else:
      return False
  return True


def _seeded_primes(rnd, count, bits):
  out = []
  while len(out) < count:
    c = rnd.getrandbits(bits) | (1 << (bits - 1)) | 1
    while not _is_prime(c):
      c += 2
    if c not in out and c.bit_length() == bits:
      out.append(c)
  return out


@bounded("C01", "check_gcd_proper_divisor_clause",
         bound="every multiset of 1..4 (quick) / 1..5 (thorough) moduli out of the 21 products p_i*p_j (i <= j, i.e. "
               "incl. prime squares) of a pool of 6 seeded 33-bit primes (all moduli >= 2^64), fed through "
               "CheckGCD.Check as RSAKey protobufs: every recorded N_FACTORS value divides n, the key is weak, and at "
               "least one recorded value is a proper divisor unless n divides the modulus of another key of the batch",
         functions=["rsa_aggregate_checks.CheckGCD.Check", "rsa_util.BatchGCD", "util.AttachFactors"],
         exhaustive=True)
def check_gcd_proper_divisor(ctx):
  from pyvc import runtime
  runtime.install()
  from paranoid_crypto import paranoid_pb2
  from paranoid_crypto.lib import rsa_aggregate_checks, util
  primes = _seeded_primes(_rnd(ctx, 'pool'), 6, 33)
  names = "pqrstu"
  pool = []  # (label, modulus)
  for i in range(6):
    for j in range(i, 6):
      pool.append((names[i] + "*" + names[j], primes[i] * primes[j]))
  chk = rsa_aggregate_checks.CheckGCD()
  max_size = 5 if ctx.thorough else 4
  reported = 0
  label_index = {lab: i for i, (lab, _) in enumerate(pool)}
  canonical = tuple(sorted(label_index[lab] for lab in ("p*q", "p*r", "q*s")))  # the F2 shape first (failure cap)
  all_combos = [c for size in range(1, max_size + 1)
                for c in itertools.combinations_with_replacement(range(len(pool)), size)]
  all_combos.remove(canonical)
  all_combos.insert(0, canonical)
  for combo in all_combos:
    size = len(combo)
    labels = [pool[i][0] for i in combo]
    moduli = [pool[i][1] for i in combo]
    keys = []
    for n in moduli:
      k = paranoid_pb2.RSAKey()
      k.rsa_info.n = util.Int2Bytes(n)
      keys.append(k)
    ctx.case(key=combo, sample=dict(batch=labels))
    try:
      chk.Check(keys)
    except Exception as e:  # pylint: disable=broad-except
      ctx.fail("CheckGCD.Check returns normally", dict(batch=labels, size=size, exception=type(e).__name__),
               observed=f"{type(e).__name__}: {e}")
      continue
    for i, (key, n) in enumerate(zip(keys, moduli)):
      facs = util.GetAttachedFactors(key.test_info, "N_FACTORS")
      if facs is None:
        continue
      divides_other = any(j != i and moduli[j] % n == 0 for j in range(size))
      divides_other_distinct = any(moduli[j] != n and moduli[j] % n == 0 for j in range(size))
      inputs = dict(check="CheckGCD", batch=labels, size=size, index=i, modulus=labels[i], n=n,
                    gcd_equals_n=(n in facs), divides_other=divides_other,
                    divides_other_distinct=divides_other_distinct, has_duplicate=moduli.count(n) > 1,
                    is_square=labels[i][0] == labels[i][2])
      ctx.check(len(facs) > 0 and all(f > 0 and n % f == 0 for f in facs), "every recorded value divides the modulus",
                inputs, sorted(facs))
      ctx.check(key.test_info.weak and any(r.result for r in key.test_info.test_results),
                "a key with recorded factors is marked weak", inputs)
      has_proper = any(1 < f < n for f in facs)
      if not ctx.check(has_proper or divides_other,
                       "at least one recorded value is a proper divisor unless the modulus divides another modulus "
                       "of the batch", inputs, observed=sorted(facs),
                       expected="some f with 1 < f < n"):
        reported += 1
  ctx.notes.append(f"proper-divisor clause violated for {reported} (batch, key) pairs")


@bounded("C16", "attach_factors_roundtrip",
         bound="real TestInfo protobufs; pool of 7 values {1, 2, 3, 0xff, 0x100, 2^64+13, 2^127-1}: every ordered pair "
               "of subsets (first call, second call) = 128 x 128 histories, a third repeated call, list-with-repeats / "
               "gmpy2.mpz / generator inputs, two info names interleaved: after AttachFactors(ti, name, F) "
               "GetAttachedFactors(ti, name) == old_set | set(F) and the other name is untouched",
         functions=["util.AttachFactors", "util.GetAttachedFactors", "util.AttachInfo", "util.GetAttachedInfo"],
         exhaustive=True)
def attach_factors_roundtrip(ctx):
  from pyvc import runtime
  runtime.install()
  import gmpy2
  from paranoid_crypto import paranoid_pb2
  from paranoid_crypto.lib import util
  pool = [1, 2, 3, 0xFF, 0x100, 2 ** 64 + 13, 2 ** 127 - 1]
  subsets = [[pool[i] for i in range(len(pool)) if m >> i & 1] for m in range(1 << len(pool))]
  a_name, b_name = "N_FACTORS", "N-1_FACTORS"

  def get(ti, name):
    g = util.GetAttachedFactors(ti, name)
    return g

  def as_set(g):
    return set() if g is None else set(int(x) for x in g)

  for m1, f1 in enumerate(subsets):
    for m2, f2 in enumerate(subsets):
      ti = paranoid_pb2.TestInfo()
      ctx.case(key=(m1, m2))
      inputs = dict(first=f1, second=f2)
      try:
        ctx.check(get(ti, a_name) is None, "no record before the first AttachFactors", inputs)
        variant = (m1 + m2) % 4
        arg1 = [f1, f1 + f1[:1], [gmpy2.mpz(v) for v in f1], (v for v in f1)][variant]
        util.AttachFactors(ti, a_name, arg1)
        g1 = get(ti, a_name)
        ctx.check(g1 is not None and as_set(g1) == set(f1), "after the first call the record equals set(F)",
                  dict(inputs, step=1, variant=variant), sorted(as_set(g1)), sorted(set(f1)))
        ctx.check(get(ti, b_name) is None, "a different info name is untouched", dict(inputs, step=1))
        # interleave a different name
        util.AttachFactors(ti, b_name, f2)
        ctx.check(as_set(get(ti, a_name)) == set(f1), "attaching under another name leaves the record unchanged",
                  dict(inputs, step=2), sorted(as_set(get(ti, a_name))), sorted(set(f1)))
        util.AttachFactors(ti, a_name, set(f2))
        g2 = as_set(get(ti, a_name))
        ctx.check(g2 == set(f1) | set(f2), "after the second call the record equals old_set | set(F)",
                  dict(inputs, step=3), sorted(g2), sorted(set(f1) | set(f2)))
        ctx.check(as_set(get(ti, b_name)) == set(f2), "record under the other name equals what was attached there",
                  dict(inputs, step=3), sorted(as_set(get(ti, b_name))), sorted(set(f2)))
        # repeated call: idempotent, never shrinks
        util.AttachFactors(ti, a_name, f1)
        g3 = as_set(get(ti, a_name))
        ctx.check(g3 == g2, "re-attaching already recorded factors changes nothing", dict(inputs, step=4), sorted(g3),
                  sorted(g2))
        ctx.check(sum(1 for e in ti.attached_info if e.info_name == a_name) == 1 and len(ti.attached_info) == 2,
                  "exactly one attached_info entry per info name", dict(inputs, step=4), len(ti.attached_info), 2)
      except Exception as e:  # pylint: disable=broad-except
        ctx.fail("AttachFactors / GetAttachedFactors return normally", dict(inputs, exception=type(e).__name__),
                 observed=f"{type(e).__name__}: {e}")
