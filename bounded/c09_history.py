"""C09 bounded stand-in: the values extracted from a signature are a function of that signature alone -- calling the
extraction for other signatures first (same r, s with another digest, same digest with other r, s, other curve) must not
change them (module-level caches / memoisation)."""
from pyvc.registry import bounded


def _bits2int(h: bytes, n: int) -> int:
  v = int.from_bytes(h, "big")
  excess = 8 * len(h) - n.bit_length()
  if excess > 0:
    v >>= excess
  return v % n


@bounded("C09", "ecdsa_values_independent_of_call_history",
         bound="every named prime curve x 6 digests (lengths 0, 20, 32, 48, 64, leading zero byte) x 3 (r, s) pairs: all "
               "orders of two consecutive ECDSAValues / HiddenNumberParams calls that share r, s or the digest",
         functions=["ec_util.ECDSAValues", "ec_util.EcCurve.HiddenNumberParams", "ec_util.EcCurve.TransformOrderLen"])
def history(ctx):
  from pyvc import runtime
  runtime.install()
  import hashlib
  import random
  from paranoid_crypto import paranoid_pb2 as pb
  from paranoid_crypto.lib import ec_util, util
  rnd = random.Random(f"{ctx.seed}/c09history")
  for cid, curve in ec_util.CURVE_FACTORY.items():
    if curve is None:
      continue
    n = int(curve.n)
    digests = [b"", hashlib.sha1(b"a").digest(), hashlib.sha256(b"b").digest(), hashlib.sha384(b"c").digest(),
               hashlib.sha512(b"d").digest(), b"\x00" + hashlib.sha512(b"e").digest()[:-1]]
    rs = [(rnd.randrange(1, n), rnd.randrange(1, n)) for _ in range(3)]

    def mk(r, s, h):
      m = pb.ECDSASignatureInfo()
      m.r = util.Int2Bytes(r)
      m.s = util.Int2Bytes(s)
      m.message_hash = h
      return m

    def expect(r, s, h):
      z = _bits2int(h, n)
      si = pow(s, -1, n)
      return (r, s, z), (z * si % n, r * si % n)
    cases = [(r, s, h) for (r, s) in rs for h in digests]
    rnd.shuffle(cases)
    # every case is evaluated right after a "neighbour" that shares r, s (other digest) and after one sharing the digest
    for (r, s, h) in cases:
      for (r2, s2, h2) in ((r, s, digests[(digests.index(h) + 1) % len(digests)]),
                           (rs[(rs.index((r, s)) + 1) % 3][0], rs[(rs.index((r, s)) + 1) % 3][1], h)):
        ec_util.ECDSAValues(mk(r2, s2, h2), curve)               # earlier call
        got = tuple(int(v) for v in ec_util.ECDSAValues(mk(r, s, h), curve))
        exp_vals, exp_ab = expect(r, s, h)
        ctx.case(key=(cid, len(h), h[:1].hex(), r % 7))
        ctx.check(got == exp_vals, "ECDSAValues(sig) == (r, s, bits2int(hash) mod n) whatever was extracted before",
                  dict(curve=curve.name, hash_len=len(h), shares="r,s" if (r2, s2) == (r, s) else "digest"),
                  observed=got, expected=exp_vals)
        ab = tuple(int(v) for v in curve.HiddenNumberParams(*got))
        ctx.check(got != exp_vals or ab == exp_ab, "HiddenNumberParams == (z/s, r/s) mod n",
                  dict(curve=curve.name, hash_len=len(h)), observed=ab, expected=exp_ab)
