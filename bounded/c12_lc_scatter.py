"""C12 / C13 bounded stand-in: the p-value of extended_nist_suite.LinearComplexityScatter against its definition.

Definition: the string is scattered into step_size lanes; a lane of m bits with linear complexity c has probability
2^-x(c) under the null hypothesis, x(c) = m for c == 0, m + 1 - 2c for 0 < c <= m // 2, 2c - m otherwise (Rueppel's
counts - the closed form proved for LfsrLogProbability under C14); the statistic is Q = sum of the x of the lanes and
the p-value is the NON-STRICT upper tail P(Q >= q_observed) of its exact null distribution, computed here by convolving
the per-lane distributions with exact rationals.  (The library evaluates it as a binomial CDF; seeded change C13-5 made
that the strict tail P(Q > q_observed), which makes every p-value too small.)"""
from fractions import Fraction as F

from pyvc.registry import bounded


def _lane_dist(m):
  """{x: P(x)} for a uniformly random m-bit lane."""
  d = {}
  for c in range(0, m + 1):
    if c == 0:
      x, lp = m, -m
    elif c <= m // 2:
      x, lp = m + 1 - 2 * c, 2 * c - m - 1
    else:
      x, lp = 2 * c - m, m - 2 * c
    d[x] = d.get(x, F(0)) + F(1, 2 ** (-lp))
  assert sum(d.values()) == 1
  return d


def _tail(sizes, q):
  dist = {0: F(1)}
  for m in sizes:
    ld = _lane_dist(m)
    nd = {}
    for a, pa in dist.items():
      for b, pb in ld.items():
        nd[a + b] = nd.get(a + b, F(0)) + pa * pb
    dist = nd
  return sum(p for x, p in dist.items() if x >= q)


def _run(ctx):
  from pyvc import runtime
  runtime.install(with_bm=True)
  import random
  from paranoid_crypto.lib.randomness_tests import berlekamp_massey as bm, extended_nist_suite as ens
  rnd = random.Random(ctx.seed * 7919 + 13)
  shapes = [(64, 2), (96, 3), (128, 4), (130, 4), (200, 8), (257, 5)]
  reps = 40 if ctx.thorough else 12
  for n, step in shapes:
    for rep in range(reps):
      bits = rnd.getrandbits(n)
      if rep % 4 == 3:        # a structured string: one lane with a low linear complexity
        bits &= ~sum(1 << j for j in range(0, n, step)) if step > 1 else bits
      sizes = [(n + step - 1 - i) // step for i in range(step)]
      lanes = [sum(((bits >> (i + step * j)) & 1) << j for j in range(sizes[i])) for i in range(step)]
      try:
        # Scatter's lane order is the library's business: the statistic is symmetric in the lanes, only the multiset of
        # (size, complexity) pairs matters.  Complexities come from the pure-Python routine decided under C14.
        q = sum(-bm.LfsrLogProbability(sizes[i], bm.LinearComplexityNative(lanes[i], sizes[i])) for i in range(step))
      except Exception as e:   # pylint: disable=broad-except
        ctx.fail("reference statistic computable", dict(n=n, step=step, bits=hex(bits)), observed=repr(e)[:200])
        continue
      exact = _tail(sizes, q)
      got = ens.LinearComplexityScatter(bits, n, step)
      ctx.case(key=(n, step, rep))
      tol = 1e-9 + 1e-6 * float(exact) + step * 2.0 ** (-min(sizes) + 2)
      ctx.check(abs(float(got) - float(exact)) <= tol,
                "LinearComplexityScatter p-value == P_null(Q >= q_observed) (exact convolution of the lane distributions)",
                dict(n=n, step_size=step, bits=hex(bits), q=q), observed=float(got), expected=float(exact))


@bounded("C12", "linear_complexity_scatter_pvalue",
         bound="6 (n, step) shapes (64..257 bits, 2..8 lanes) x 12 (quick) / 40 (thorough) seeded strings, every 4th with "
               "one all-zero lane: p-value vs exact non-strict upper tail of the null distribution of the statistic",
         functions=["extended_nist_suite.LinearComplexityScatter", "util.BinomialCdf", "util.Scatter"])
def scatter_c12(ctx):
  _run(ctx)


@bounded("C13", "linear_complexity_scatter_pvalue",
         bound="as C12/linear_complexity_scatter_pvalue: a p-value that is the strict tail is systematically too small",
         functions=["extended_nist_suite.LinearComplexityScatter", "util.BinomialCdf"])
def scatter_c13(ctx):
  _run(ctx)
