"""Bounded stand-in checks and ground obligations (never counted as proved)."""
