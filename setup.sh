#!/bin/bash
# Builds the overlay interpreter /verif/.venv (Python 3.12 + z3-solver, cvc5, sympy, jsonschema from the offline
# wheelhouse; /venv's site-packages appended so gmpy2/fpylll/scipy/protobuf are importable for replay + bounded tier).
set -e
cd "$(dirname "$0")"
export PIP_NO_INDEX=1 PIP_DISABLE_PIP_VERSION_CHECK=1
if [ -x .venv/bin/python ] && .venv/bin/python -c "import z3, cvc5, jsonschema, gmpy2, google.protobuf" 2>/dev/null; then
  exit 0
fi
rm -rf .venv
/root/.pyenv/versions/3.12.1/bin/python3.12 -m venv .venv 2>/dev/null || /venv/bin/python -m venv .venv
.venv/bin/python -m pip install -q --no-index --find-links /opt/veriftools/wheels z3-solver cvc5 sympy jsonschema mpmath >/dev/null
SP=$(.venv/bin/python -c "import sysconfig; print(sysconfig.get_paths()['purelib'])")
echo "import site; site.addsitedir('/venv/lib/python3.12/site-packages')" > "$SP/zz_repo_deps.pth"
.venv/bin/python -c "import z3, cvc5, jsonschema, gmpy2, google.protobuf, fpylll, scipy; print('overlay venv ok', z3.get_version_string())"
