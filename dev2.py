"""like dev.py but prints only non-ok or slow (>2s) obligations"""
import sys, time
sys.path.insert(0, "/verif")
from pyvc import contracts as C, engine as E, backend
C.load_all()
pat = sys.argv[1]; prop = sys.argv[2] if len(sys.argv) > 2 else None
for tgt, c in C.REGISTRY.items():
  if pat not in tgt or c.assumed: continue
  eng = E.Engine(prop=prop); t = time.time(); r = eng.verify(c)
  print(tgt, {k: v for k, v in r.items() if k != 'covered'}, f"gen {time.time()-t:.2f}s")
  res = backend.solve_all(eng.obligations, timeout_ms=30000)
  for ob, rr in zip(eng.obligations, res):
    if rr["status"] != "unsat" or rr["time"] > 2:
      print(f"  {rr['status']:7s} {rr['backend']:4s} {rr['time']:.1f}s {ob.label[:60]+" ... "+ob.label[-50:]} path={''.join('T' if b else 'F' for b in ob.path)}")
      if rr["status"] == "sat": print("       model:", {k: rr["model"].get(str(v)) for k, v in ob.inputs.items()})
