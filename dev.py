"""Developer driver: python dev.py <target-substring> [prop]"""
import sys, time
sys.path.insert(0, "/verif")
from pyvc import contracts as C, engine as E, backend
C.load_all()
pat = sys.argv[1]
prop = sys.argv[2] if len(sys.argv) > 2 else None
for tgt, c in C.REGISTRY.items():
  if pat not in tgt or c.assumed:
    continue
  eng = E.Engine(prop=prop)
  t = time.time()
  r = eng.verify(c)
  print(tgt, r, f"gen {time.time()-t:.2f}s")
  res = backend.solve_all(eng.obligations, timeout_ms=20000)
  for ob, rr in zip(eng.obligations, res):
    mark = {"unsat": "ok  ", "sat": "FAIL", "unknown": "UNK "}.get(rr["status"], "ERR ")
    print(f"  {mark} {rr['backend']:4s} {rr['time']:.2f}s {ob.kind:14s} {ob.label[:110]} path={''.join('T' if b else 'F' for b in ob.path)}")
    if rr["status"] == "sat":
      print("       model:", {k: rr["model"].get(str(v)) for k, v in ob.inputs.items()})
    if rr["status"] in ("unknown", "error"):
      print("       ", rr.get("detail"), rr.get("cvc5"))
  if eng.abstracted: print("  abstracted:", eng.abstracted)
