import os
exec(open('/verif/design_probes/runtime_pb2_stub.py').read().split("import time; t=time.time()")[0])
from paranoid_crypto.lib import paranoid, util, ec_util
c=ec_util.CURVE_FACTORY[m.CurveType.CURVE_SECP256R1]
P=c.Multiply(c.g, 0x1234567890abcdef1234567890abcdef1234567)
def key(x,y):
    k=m.ECKey(); k.ec_info.curve_type=m.CurveType.CURVE_SECP256R1; k.ec_info.x=util.Int2Bytes(x); k.ec_info.y=util.Int2Bytes(y); return k
for batch in ([key(P[0],P[1]), key(P[0]+int(c.mod),P[1])], [key(0,0)], [key(int(c.mod),int(c.mod))], [key(P[0],int(c.mod))], [key(P[0],P[1]),key(P[0],int(c.mod)-int(P[1]))]):
    try: print(paranoid.CheckAllEC(batch), [k.test_info.weak for k in batch])
    except Exception as e: print('EXC', type(e).__name__, e)
