from fractions import Fraction as F
from functools import lru_cache
import sys
sys.setrecursionlimit(100000)
def dist_longest_run(M):
    # number of M-bit strings with longest run of ones <= r : A_r(M)
    def count_le(r):
        # strings with no run of ones longer than r : linear recurrence
        a=[0]*(M+2)
        # a[n] = number of n-bit strings with all runs <= r
        for n in range(M+1):
            if n<=r: a[n]=2**n
            else: a[n]=sum(a[n-1-j] for j in range(r+1) if n-1-j>=0)
        return a[M]
    return count_le
for (M,lo,hi,pi) in [(8,1,4,[0.2148,0.3672,0.2305,0.1875]),(128,4,9,[0.1174,0.2430,0.2493,0.1752,0.1027,0.1124]),(10000,10,16,[0.0882,0.2092,0.2483,0.1933,0.1208,0.0675,0.0727])]:
    c=dist_longest_run(M)
    tot=2**M
    le=[c(r) for r in range(lo-1,hi)]  # <=lo-1? need P(<=lo), P(=lo+1).. P(>=hi)
    le={r:c(r) for r in range(lo,hi)}
    probs=[F(le[lo],tot)]+[F(le[r]-le[r-1],tot) for r in range(lo+1,hi)]+[1-F(le[hi-1],tot)]
    print(M, [round(float(p),6) for p in probs])
    print('   table', pi, 'max abs diff', max(abs(float(p)-q) for p,q in zip(probs,pi)))
