import z3, time
I=z3.Int
pow2 = z3.Function('pow2', z3.IntSort(), z3.IntSort())
def prove(name, hyps, goal, timeout=10000):
    s = z3.Solver(); s.set('timeout', timeout)
    for h in hyps: s.add(h)
    s.add(z3.Not(goal))
    t=time.time(); r = s.check(); dt=time.time()-t
    print(f"{name:45s} {'PROVED' if r==z3.unsat else r} {dt:.2f}s", (s.model() if r==z3.sat else ''))
n,L,b0,fb,m8 = I('n'),I('L'),I('b0'),I('fb'),I('m8')
# ground-instantiated pow2 axioms for terms: pow2(m8), pow2(8*(L-1)), pow2(n)
def pw_axioms(terms):
    ax=[]
    for t in terms:
        ax += [z3.Implies(t>=0, pow2(t)>=1)]
        for c in range(0,9):
            ax += [z3.Implies(t==c, pow2(t)==2**c)]
    for t in terms:
        for u in terms:
            ax += [z3.Implies(z3.And(t>=0,u>=0,t<=u), pow2(t)<=pow2(u))]
            for v in terms:
                ax += [z3.Implies(z3.And(t>=0,u>=0, v==t+u), pow2(v)==pow2(t)*pow2(u))]
    return ax
terms=[m8, 8*(L-1), n]
hy = [n>=1, L==(n+7)/8, m8==n%8, fb>=0, b0>=0, b0<256, fb < pow2(8*(L-1))*(b0+1)] + pw_axioms(terms)
# Java: big endian, ba[0] masked when n%8 != 0
prove("java masked", hy+[z3.Implies(m8!=0, b0 < pow2(m8))], fb < pow2(n))
# TruncLcg: little endian, ba[0] masked = least significant; top byte unconstrained
prove("trunclcg (expected fail)", hy, fb < pow2(n))
