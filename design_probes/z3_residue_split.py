import z3, time
I=z3.Int
def prove(name, hyps, goal, timeout=20000):
    s = z3.Solver(); s.set('timeout', timeout)
    for h in hyps: s.add(h)
    s.add(z3.Not(goal))
    t=time.time(); r = s.check(); dt=time.time()-t
    print(f"{name:50s} {'PROVED' if r==z3.unsat else r} {dt:.2f}s", (s.model() if r==z3.sat else ''))
a,k,r,n,kn,rn,sq = [I(v) for v in 'a k r n kn rn sq'.split()]
# lifting identity (polynomial)
prove("lift", [a==8*k+r], a*a == r*r + 8*(8*k*k+2*k*r))
# residue case split done by ground enumeration: provide as disjunction hypothesis
cases = z3.Or([z3.And(r==v, sq==v*v) for v in range(8)])
prove("odd square mod 8 (split)", [a==8*k+r, 0<=r, r<8, a%2==1, sq==r*r, cases, a*a == sq + 8*(8*k*k+2*k*r)], (a*a)%8==1)
# a^2 n == 1 mod 8 => n == 1 mod 8, a may be anything: first a must be odd
m,w2 = I('m'),I('w2')
# use: let A = a*a ; A ≡ sq (mod 8) ; n = 8kn+rn ; A*n = sq*rn + 8*(...) 
A=I('A')
casesn = z3.Or([z3.And(r==v, rn==u) for v in range(8) for u in range(8) if (v*v*u)%8==1])
prove("a^2n=1 mod 8 => n=1 mod 8 (split)", [casesn], rn==1)
