import z3, time
I=z3.Int
def prove(name, hyps, goal, timeout=20000):
    s = z3.Solver(); s.set('timeout', timeout)
    for h in hyps: s.add(h)
    s.add(z3.Not(goal))
    t=time.time(); r = s.check(); dt=time.time()-t
    print(f"{name:50s} {'PROVED' if r==z3.unsat else r} {dt:.2f}s", (s.model() if r==z3.sat else ''))
# (a) list-of-entries model: names: Array Int->Int (string ids), res: Array Int->Bool, sev: Array Int->Int, length L
A=z3.Array
names=A('names',z3.IntSort(),z3.IntSort()); res=A('res',z3.IntSort(),z3.BoolSort()); sev=A('sev',z3.IntSort(),z3.IntSort())
L,i,j,k,nm,nsev=I('L'),I('i'),I('j'),I('k'),I('nm'),I('nsev'); nres=z3.Bool('nres')
uniq=lambda nms,LL: z3.ForAll([i,j], z3.Implies(z3.And(0<=i,i<j,j<LL), nms[i]!=nms[j]))
# GetTestResult returned index k (found) : names[k]==nm, 0<=k<L ; update in place
res2=z3.Store(res,k,z3.Or(res[k],nres)); sev2=z3.Store(sev,k,z3.If(sev[k]>=nsev,sev[k],nsev))
# view: lookup(name) = entry at the unique index
x=I('x')
prove("update keeps other entries", [L>=0,uniq(names,L),0<=k,k<L,names[k]==nm, 0<=x,x<L,x!=k], z3.And(res2[x]==res[x], sev2[x]==sev[x]))
prove("update monotone", [L>=0,0<=k,k<L], z3.And(z3.Implies(res[k],res2[k]), sev2[k]>=sev[k], sev2[k]>=nsev, z3.Implies(nres,res2[k])))
# not found: forall idx names[idx]!=nm ; append
names3=z3.Store(names,L,nm)
prove("append keeps uniqueness", [L>=0,uniq(names,L), z3.ForAll([i], z3.Implies(z3.And(0<=i,i<L), names[i]!=nm))], uniq(names3,L+1))
# GetTestResult loop invariant step: forall idx<i names[idx]!=nm; names[i]!=nm => forall idx<i+1
ii=I('ii')
inv=lambda hi: z3.ForAll([j], z3.Implies(z3.And(0<=j,j<hi), names[j]!=nm))
prove("search inv step", [inv(ii), names[ii]!=nm, ii>=0], inv(ii+1))
# (b) BSGS lookup logic over integer-idealised group: point p = mulG(x). xc(a)==xc(b) <=> a==b or a==-b
xx,n,ts,TS,t,jj,iprime = I('xx'),I('n'),I('ts'),I('TS'),I('t'),I('jj'),I('iprime')
# table invariant: key for scalar s present iff |s|<TS ; table value = |s|
hy=[ts>=1, TS>=ts, t==2*ts-1, xx>=0, xx<n, jj==(xx+ts-1)/t]
absd=z3.If(xx-jj*t>=0, xx-jj*t, jj*t-xx)
prove("hit in table & candidate recovers x", hy, z3.And(jj>=0, jj<2+n/t, absd<TS, z3.Or(jj*t+absd==xx, jj*t-absd==xx)))
# any other j' hit yields candidate dl with mulG(dl)==p  => dl==xx (integer idealisation) so overwrites are harmless: trivial
