import sys; sys.path.insert(0,'/repo')
import random, copy
from fractions import Fraction
from paranoid_crypto.lib import linalg_util
random.seed(2)
bad=[];tot=0;exc=0;none=0
for trial in range(300000):
    ncols=random.randint(2,5); nrows=random.randint(ncols, 8)
    x=[random.randint(-3,3) for _ in range(ncols)]
    a=[[random.choice([0,0,1,-1,2]) for _ in range(ncols)] for _ in range(nrows)]
    for _ in range(random.randint(0,2)):
        i=random.randrange(nrows)
        c=random.random()
        if c<0.4: a[i]=[0]*ncols
        elif c<0.8:
            j=random.randrange(nrows); a[i]=[random.choice([1,2,-1])*v for v in a[j]]
        else:
            j,k=random.randrange(nrows),random.randrange(nrows); a[i]=[u+v for u,v in zip(a[j],a[k])]
    b=[sum(ai*xi for ai,xi in zip(row,x)) for row in a]
    a0,b0=copy.deepcopy(a),copy.deepcopy(b)
    try:
        sol=linalg_util.solve_right(a,b)
    except Exception as e:
        exc+=1
        if exc<4: print('EXC',type(e).__name__,e,a0,b0)
        continue
    tot+=1
    if sol is None: none+=1; continue
    ok=all(sum(Fraction(int(ai))*Fraction(int(s.numerator),int(s.denominator)) for ai,s in zip(row,sol))==bi for row,bi in zip(a0,b0))
    if not ok: bad.append((a0,b0,[str(s) for s in sol]))
print(tot, len(bad), exc, none)
bad.sort(key=lambda t:(len(t[0])*len(t[0][0])))
for t in bad[:4]: print(t)
