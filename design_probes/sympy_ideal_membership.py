import sympy as sp, time
from sympy import symbols, groebner, reduced, expand
# HNP: hyps h_i == 0 ; goal: n | (aa + bb*d - kk)
aa,bb,z,si,n,q1,q2,q3,q4,r,d,kk,ss = symbols('aa bb z si n q1 q2 q3 q4 r d kk ss')
hyps = [aa-(z*si-n*q1), bb-(r*si-n*q2), si*ss-(1+n*q3), kk*ss-(z+r*d+n*q4)]
goal = aa+bb*d-kk
gens = [aa,bb,kk,ss,z,si,r,d,q1,q2,q3,q4,n]
t=time.time()
# ideal membership of goal in <hyps, n>: use reduced w.r.t. groebner basis and track cofactors via lifting
G = groebner(hyps+[n], *gens, order='grevlex')
print('GB size', len(G.exprs), time.time()-t)
q, rem = reduced(goal, list(G.exprs), *gens, order='grevlex')
print('rem', rem, time.time()-t)
# direct: cofactors wrt original generators (not via GB): try reduced against hyps+[n] directly with lex order
for order in ('lex','grevlex'):
    q, rem = reduced(goal, hyps+[n], *gens, order=order)
    print(order, 'rem', rem, 'cof', q)
