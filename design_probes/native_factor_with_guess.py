import sys; sys.path.insert(0,'/repo')
import gmpy2, random, time
from paranoid_crypto.lib import special_case_factoring as scf, rsa_util, ntheory_util
import inspect
src = inspect.getsource(scf.FactorWithGuess).replace("      return None\n  return None", "  return None")
ns = dict(gmpy=gmpy2, ntheory_util=ntheory_util, Optional=None)
exec("from typing import Optional\n"+src, ns)
Fixed = ns['FactorWithGuess']
random.seed(5)
def run(fn, n):
    prime_size = n.bit_length() // 2
    for e in (100,128,160,256,2,3):
        diff = 2**(prime_size-e)
        p0 = gmpy2.isqrt(n + (diff // 2) ** 2) + diff // 2
        f = fn(n, p0)
        if f: return f
    return None
for L in (384, 512, 1024):
  for e in (100, 2):
    hit0=hit1=0; N=60; t0=t1=0
    for _ in range(N):
        p = gmpy2.next_prime(random.getrandbits(L)|(1<<(L-1))|(1<<(L-2)))
        q = gmpy2.next_prime(p + 2**(L-e))
        n = p*q
        t=time.time(); hit0 += bool(run(scf.FactorWithGuess, n)); t0+=time.time()-t
        t=time.time(); hit1 += bool(run(Fixed, n)); t1+=time.time()-t
    print(L, e, 'orig', hit0, 'fixed', hit1, 'of', N, 'time %.2f %.2f'%(t0,t1))
