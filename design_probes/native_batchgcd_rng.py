import sys; sys.path.insert(0,'/repo')
import gmpy2, random
from paranoid_crypto.lib import rsa_util, ntheory_util, special_case_factoring, linalg_util
from paranoid_crypto.lib.randomness_tests import rng
# C03/C18 empty
try: print('BatchGCD([])', rsa_util.BatchGCD([]))
except Exception as e: print('BatchGCD([]) raises', type(e).__name__, e)
# C01: pq, pr, qs
def rp(b): return int(gmpy2.next_prime(random.getrandbits(b)|(1<<(b-1))))
p,q,r,s = [rp(64) for _ in range(4)]
vals=[p*q,p*r,q*s]
print('gcds', [int(g)==v for g,v in zip(rsa_util.BatchGCD([gmpy2.mpz(v) for v in vals]), vals)])
# C20
for name in ['trunclcg16','trunclcg64','java','lcgnist','mwc64','xorwow','lehmer128','shake128','pcg64','mt19937','xorshift128+','xorshift*','philox','sfc64','mwc128']:
    g = rng.GetRng(name); bad=0
    for n in list(range(1,200)):
        for seed in (1,2,12345):
            v = g.RandomBits(n, seed=seed)
            if not (0 <= v < 2**n): bad+=1
    print(name, 'bad', bad)
