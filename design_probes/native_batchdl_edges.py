exec(open(__import__('os').path.join(__import__('os').path.dirname(__file__),'runtime_pb2_stub.py')).read().split("import time; t=time.time()")[0])
from paranoid_crypto.lib import ec_util
c=ec_util.CURVE_FACTORY[m.CurveType.CURVE_SECP256R1]
for args in [([],16),([c.g],1),([c.g],0),([c.Multiply(c.g,-3)],16),([c.Multiply(c.g,40)],16)]:
    try: print(len(args[0]),args[1],c.BatchDL(*args))
    except Exception as e: print(len(args[0]),args[1],'EXC',type(e).__name__,e)
    c._table={};c._table_size=0
try: print(c.BatchDLOfDifferences([c.g, c.Multiply(c.g,5)], max_diff=0))
except Exception as e: print('EXC',type(e).__name__,e)
# off-range coordinates
p=c.mod
P=c.Multiply(c.g,7); Q=(P[0]+p,P[1])
try: print(c.BatchDLOfDifferences([P,Q]))
except Exception as e: print('EXC',type(e).__name__,e)
