import sys, types; sys.path.insert(0,'/repo')
m = types.ModuleType('paranoid_crypto.lib.randomness_tests.cc_util.pybind.berlekamp_massey')
m.LfsrLength = lambda ba,n: 0
sys.modules[m.__name__]=m
import paranoid_crypto.lib.randomness_tests.cc_util.pybind as pb; pb.berlekamp_massey=m
from paranoid_crypto.lib.randomness_tests import nist_suite
import random, math
random.seed(3)
bad=0;tot=0;above1=0;ex=None
for t in range(3000):
    n=random.randint(8,1000); bits=random.getrandbits(n)
    try: pv=dict(nist_suite.RandomWalk(bits,n))
    except Exception as e:
        print('EXC', n, bin(bits), type(e).__name__, e); continue
    xs=[1 if (bits>>i)&1 else -1 for i in range(n)]
    S=[0]
    for x in xs: S.append(S[-1]+x)
    zf=max(abs(v) for v in S[1:])
    rev=[0]
    for x in reversed(xs): rev.append(rev[-1]+x)
    zb=max(abs(v) for v in rev[1:])
    pf=nist_suite.CumulativeSumsPValue(n,zf); pb_=nist_suite.CumulativeSumsPValue(n,zb)
    tot+=1
    if abs(pv['cumulative sums forward']-pf)>1e-12: print('FWD diff',n)
    if abs(pv['cumulative sums reverse']-pb_)>1e-12:
        bad+=1
        if pv['cumulative sums reverse']>1: above1+=1
        if ex is None: ex=(n,bits,pv['cumulative sums reverse'],pb_)
print(tot,bad,above1,ex)
# all-zero / tiny strings
for n,bits in [(1,0),(1,1),(2,0),(4,0b1111),(0,0)]:
    try: print(n,bits,nist_suite.RandomWalk(bits,n)[:2])
    except Exception as e: print(n,bits,'EXC',type(e).__name__,e)
