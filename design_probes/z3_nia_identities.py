import z3, time
def prove(name, hyps, goal, timeout=10000):
    s = z3.Solver(); s.set('timeout', timeout)
    for h in hyps: s.add(h)
    s.add(z3.Not(goal))
    t=time.time(); r = s.check(); dt=time.time()-t
    print(f"{name:45s} {'PROVED' if r==z3.unsat else r} {dt:.2f}s", (s.model() if r==z3.sat else ''))
I = z3.Int
a,b2,n,s,g,k,x,ts,t,j = [I(v) for v in 'a b2 n s g k x ts t j'.split()]
# 1 Fermat
prove("fermat product", [b2==a*a-n, s*s==b2], (a+s)*(a-s)==n)
prove("fermat inv preserve", [b2==a*a-n], (b2 + a + (a+1)) == (a+1)*(a+1)-n)
# 3 gcd divides -> g*(n div g)==n
prove("div exact", [n==g*k, g>1, n>0], g*(n/g)==n)
# mod version
prove("mod exact", [n%g==0, g>1], g*(n/g)==n)
# 4 BatchDL coverage
jj = (x+ts-1)/t
prove("bsgs coverage", [ts>=1, t==2*ts-1, x>=0, x<n], z3.And(jj>=0, jj < 2 + n/t, x - jj*t < ts, jj*t - x < ts))
# HiddenNumberParams with witness
si,z,r,d,kk,q1,q2,q3,q4,aa,bb,ss = [I(v) for v in 'si z r d kk q1 q2 q3 q4 aa bb ss'.split()]
hyps=[aa==z*si-n*q1, bb==r*si-n*q2, si*ss==1+n*q3, kk*ss==z+r*d+n*q4]
prove("hnp witness", hyps, aa+bb*d-kk == n*(kk*q3 - si*q4 - q1 - q2*d))
w=I('w')
prove("hnp exists", hyps, z3.Exists([w], aa+bb*d-kk == n*w), 20000)
# mod formulation
prove("hnp mod", [n>1, aa==(z*si)%n, bb==(r*si)%n, (si*ss)%n==1, (kk*ss - z - r*d)%n==0], (aa+bb*d-kk)%n==0, 20000)
