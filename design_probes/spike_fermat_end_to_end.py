"""Throw-away spike: real source of rsa_util.FermatFactor -> path-wise VCs -> z3.
Supports just what this one function needs; proves the C01 post and shows a mutant failing."""
import ast, sys, z3, time, textwrap, subprocess, json
SRC = sys.argv[1] if len(sys.argv) > 1 else '/repo/paranoid_crypto/lib/rsa_util.py'
tree = ast.parse(open(SRC).read())
fn = next(n for n in ast.walk(tree) if isinstance(n, ast.FunctionDef) and n.name == 'FermatFactor')
body = [s for s in fn.body if not (isinstance(s, ast.Expr) and isinstance(s.value, ast.Constant))]  # drop docstring

is_square = z3.Function('is_square', z3.IntSort(), z3.BoolSort())
isqrt = z3.Function('isqrt', z3.IntSort(), z3.IntSort())
AXIOMS = []
def ax_isqrt(x):
    r = isqrt(x); AXIOMS.append(z3.Implies(x >= 0, z3.And(r >= 0, r*r <= x, x < (r+1)*(r+1))))
    AXIOMS.append(z3.Implies(is_square(x), r*r == x)); return r
_b = z3.Int('_b')
def ax_is_square(x):
    AXIOMS.append(z3.Implies(z3.And(x >= 0, isqrt(x)*isqrt(x) == x), is_square(x))); ax_isqrt(x); return is_square(x)

def ev(e, env):
    if isinstance(e, ast.Constant): return e.value if e.value is None else (z3.BoolVal(e.value) if isinstance(e.value,bool) else z3.IntVal(e.value))
    if isinstance(e, ast.Name): return env[e.id]
    if isinstance(e, ast.Tuple): return tuple(ev(x, env) for x in e.elts)
    if isinstance(e, ast.BinOp):
        l, r = ev(e.left, env), ev(e.right, env)
        if isinstance(e.op, ast.Add): return l + r
        if isinstance(e.op, ast.Sub): return l - r
        if isinstance(e.op, ast.Mult): return l * r
        if isinstance(e.op, ast.Mod): assert z3.is_int_value(r) and r.as_long() > 0; return l % r
        if isinstance(e.op, ast.FloorDiv): assert z3.is_int_value(r) and r.as_long() > 0; return l / r
    if isinstance(e, ast.Compare) and len(e.ops) == 1:
        l, r = ev(e.left, env), ev(e.comparators[0], env)
        return {ast.Eq: lambda: l == r, ast.NotEq: lambda: l != r, ast.Lt: lambda: l < r}[type(e.ops[0])]()
    if isinstance(e, ast.Call):
        f = ast.unparse(e.func); args = [ev(a, env) for a in e.args]
        if f == 'gmpy.isqrt': return ax_isqrt(args[0])
        if f == 'gmpy.is_square': return ax_is_square(args[0])
    raise NotImplementedError(ast.dump(e))

# contract (sidecar)
n, max_steps = z3.Ints('n max_steps')
REQ = [n >= 1, max_steps >= 0]
def POST(res): return True if res is None else res[0]*res[1] == n
def INV(env): return z3.And(env['b2'] == env['a']*env['a'] - n, env['a'] >= 1)

obligations = []   # (name, hyps, goal)
def run(stmts, env, pc, k):
    """k: continuation(env, pc). returns nothing; records obligations."""
    if not stmts: return k(env, pc)
    s, rest = stmts[0], stmts[1:]
    if isinstance(s, ast.Assign):
        v = ev(s.value, env); env = dict(env); env[s.targets[0].id] = v; return run(rest, env, pc, k)
    if isinstance(s, ast.AugAssign):
        env = dict(env); env[s.target.id] = env[s.target.id] + ev(s.value, env); return run(rest, env, pc, k)
    if isinstance(s, ast.Return):
        res = None if s.value is None else ev(s.value, env)
        obligations.append((f'post@line{s.lineno}', pc, POST(res))); return
    if isinstance(s, ast.If):
        c = ev(s.test, env)
        run(s.body + rest, env, pc + [c], k); run(s.orelse + rest, env, pc + [z3.Not(c)], k); return
    if isinstance(s, ast.For):   # for _ in range(max_steps): cut at invariant
        obligations.append((f'inv-entry@line{s.lineno}', pc, INV(env)))
        henv = dict(env); i = z3.Int('_iter')
        for v in ('a', 'b2'): henv[v] = z3.Int(v + '!h')           # havoc loop-modified vars
        hpc = pc + [INV(henv), i >= 0, i < max_steps]
        run(s.body, henv, hpc, lambda e2, pc2: obligations.append((f'inv-preserved@line{s.lineno}', pc2, INV(e2))))
        return run(rest, henv, pc + [INV(henv)], k)                  # loop exit
    raise NotImplementedError(ast.dump(s))

run(body, {'n': n, 'max_steps': max_steps}, list(REQ), lambda e, pc: obligations.append(('post@fallthrough', pc, POST(None))))
ok = True
for name, hyps, goal in obligations:
    s = z3.Solver(); s.set('timeout', 10000); s.add(*AXIOMS); s.add(*hyps)
    if goal is not True: s.add(z3.Not(goal))
    else: s.add(z3.BoolVal(False))
    t = time.time(); r = s.check(); dt = time.time() - t
    print(f'{name:28s} {"discharged" if r == z3.unsat else str(r):12s} {dt:.3f}s')
    if r == z3.sat:
        ok = False; m = s.model(); inp = {'n': m.eval(n, True).as_long(), 'max_steps': m.eval(max_steps, True).as_long()}
        print('   model inputs', inp)
print('ALL DISCHARGED' if ok else 'FAILED OBLIGATION', len(obligations), 'obligations')
