import sys, re, types
sys.path.insert(0,'/repo')
from google.protobuf import descriptor_pb2, descriptor_pool, message_factory, reflection, symbol_database
from google.protobuf.internal import enum_type_wrapper
def parse_proto(path, name):
    src = open(path).read()
    src = re.sub(r'//[^\n]*', '', src)
    fdp = descriptor_pb2.FileDescriptorProto(); fdp.name = name; fdp.syntax='proto3'
    fdp.package = re.search(r'package\s+([\w.]+)\s*;', src).group(1)
    enums=set()
    for m in re.finditer(r'enum\s+(\w+)\s*\{([^}]*)\}', src):
        e = fdp.enum_type.add(); e.name=m.group(1); enums.add(e.name)
        for v in re.finditer(r'(\w+)\s*=\s*(\d+)\s*;', m.group(2)):
            ev=e.value.add(); ev.name=v.group(1); ev.number=int(v.group(2))
    scalar={'bytes':12,'string':9,'bool':8,'uint64':4,'int64':3,'uint32':13,'int32':5}
    for m in re.finditer(r'message\s+(\w+)\s*\{([^}]*)\}', src):
        msg=fdp.message_type.add(); msg.name=m.group(1)
        for f in re.finditer(r'(repeated\s+)?(map<\s*(\w+)\s*,\s*(\w+)\s*>|[\w.]+)\s+(\w+)\s*=\s*(\d+)\s*;', m.group(2)):
            rep, typ, mk, mv, fname, num = f.groups()
            fd=msg.field.add(); fd.name=fname; fd.number=int(num)
            fd.label = 3 if (rep or mk) else 1
            if mk:
                entry=msg.nested_type.add(); entry.name=''.join(p.capitalize() for p in fname.split('_'))+'Entry'; entry.options.map_entry=True
                for i,(nm,t) in enumerate((('key',mk),('value',mv))):
                    ef=entry.field.add(); ef.name=nm; ef.number=i+1; ef.label=1; ef.type=scalar[t]
                fd.type=11; fd.type_name='.'+fdp.package+'.'+msg.name+'.'+entry.name
            elif typ in scalar: fd.type=scalar[typ]
            elif typ in enums: fd.type=14; fd.type_name='.'+fdp.package+'.'+typ
            else: fd.type=11; fd.type_name='.'+fdp.package+'.'+typ
    return fdp
def make_module(modname, path, protoname):
    fdp=parse_proto(path, protoname)
    pool=descriptor_pool.Default()
    fd=pool.Add(fdp) if False else pool.AddSerializedFile(fdp.SerializeToString())
    mod=types.ModuleType(modname); mod.DESCRIPTOR=fd
    for name,ed in fd.enum_types_by_name.items():
        w=enum_type_wrapper.EnumTypeWrapper(ed); setattr(mod,name,w)
        for v in ed.values: setattr(mod,v.name,v.number)
    for name,md in fd.message_types_by_name.items():
        setattr(mod,name,message_factory.MessageFactory(pool).GetPrototype(md))
    sys.modules[modname]=mod
    return mod
m=make_module('paranoid_crypto.paranoid_pb2','/repo/paranoid_crypto/paranoid.proto','paranoid_crypto/paranoid.proto')
import paranoid_crypto; paranoid_crypto.paranoid_pb2=m
d=make_module('paranoid_crypto.lib.data.data_pb2','/repo/paranoid_crypto/lib/data/data.proto','paranoid_crypto/lib/data/data.proto')
import paranoid_crypto.lib.data as pd; pd.data_pb2=d
# stub pybind BM
bm=types.ModuleType('paranoid_crypto.lib.randomness_tests.cc_util.pybind.berlekamp_massey'); bm.LfsrLength=lambda ba,n:0
sys.modules[bm.__name__]=bm
import time; t=time.time()
from paranoid_crypto.lib import paranoid, util
print('import ok', time.time()-t)
k=m.RSAKey(); k.rsa_info.n=util.Int2Bytes(2**2047+12345*2+1); k.rsa_info.e=util.Int2Bytes(65537)
t=time.time(); print(paranoid.CheckAllRSA([k]), time.time()-t)
print(k.test_info)
try: print(paranoid.CheckAllRSA([]))
except Exception as e: print('EXC', type(e).__name__, e)
print(paranoid.CheckAllEC([]), paranoid.CheckAllECDSASigs([]))
print(m.SeverityType.SEVERITY_HIGH, m.CurveType.CURVE_SECP256R1)
