import sympy as sp, time
X1,Y1,Z1,X2,Y2,Z2,a = sp.symbols('X1 Y1 Z1 X2 Y2 Z2 a')
def add_jac(P,Q):
    x1,y1,z1=P; x2,y2,z2=Q
    z1s=z1*z1; z2s=z2*z2
    u1=x1*z2s; u2=x2*z1s; s1=y1*z2*z2s; s2=y2*z1*z1s
    h=u2-u1; hs=h*h; hc=hs*h; r=s2-s1; t=u1*hs
    x3=r*r-hc-2*t; y3=r*(t-x3)-s1*hc; z3=h*z1*z2
    return x3,y3,z3
def dbl_jac(P, am3):
    x,y,z=P; ys=y*y; zs=z*z; s=4*x*ys
    m = 3*(x+zs)*(x-zs) if am3 else 3*x*x+a*zs*zs
    x2=m*m-2*s; y2=m*(s-x2)-8*ys*ys; z2=2*y*z
    return x2,y2,z2
def aff(P):
    x,y,z=P; return x/z**2, y/z**3
def add_aff(p,q):
    x1,y1=p; x2,y2=q; t=(y1-y2)/(x1-x2); x3=t*t-x1-x2; y3=t*(x1-x3)-y1; return x3,y3
def dbl_aff(p, aa):
    x,y=p; t=(3*x*x+aa)/(2*y); x2=t*t-2*x; y2=t*(x-x2)-y; return x2,y2
t0=time.time()
P=(X1,Y1,Z1);Q=(X2,Y2,Z2)
l=aff(add_jac(P,Q)); r=add_aff(aff(P),aff(Q))
print('add', [sp.cancel(sp.together(u-v)) for u,v in zip(l,r)], time.time()-t0)
l=aff(dbl_jac(P,False)); r=dbl_aff(aff(P),a)
print('dbl general', [sp.cancel(sp.together(u-v)) for u,v in zip(l,r)], time.time()-t0)
l=aff(dbl_jac(P,True)); r=dbl_aff(aff(P),-3)
print('dbl a=-3', [sp.cancel(sp.together(u-v)) for u,v in zip(l,r)], time.time()-t0)
