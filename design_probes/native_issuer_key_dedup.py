exec(open('/verif/design_probes/runtime_pb2_stub.py').read().split("import time; t=time.time()")[0])
from paranoid_crypto.lib import paranoid, util, ec_util, ecdsa_sig_checks
c=ec_util.CURVE_FACTORY[m.CurveType.CURVE_SECP256R1]
P=c.Multiply(c.g, 0x1234567890abcdef1234567890abcdef1234567)
def sig(ct):
    s=m.ECDSASignature(); s.issuer_key_info.curve_type=ct; s.issuer_key_info.x=util.Int2Bytes(P[0]); s.issuer_key_info.y=util.Int2Bytes(P[1])
    s.ecdsa_sig_info.r=util.Int2Bytes(12345); s.ecdsa_sig_info.s=util.Int2Bytes(6789); s.ecdsa_sig_info.message_hash=b'\x01'*32
    return s
chk=ecdsa_sig_checks.CheckIssuerKey()
for order in ([m.CURVE_SECP256R1, m.CURVE_SECP256K1],[m.CURVE_SECP256K1, m.CURVE_SECP256R1],[m.CURVE_SECP256K1],[m.CURVE_SECP256R1]):
    sigs=[sig(ct) for ct in order]
    r=chk.Check(sigs)
    print(order, r, [[(t.test_name,t.result,t.severity) for t in s.test_info.test_results] for s in sigs])
