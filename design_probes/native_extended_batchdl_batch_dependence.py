import time, random
exec(open('/verif/design_probes/runtime_pb2_stub.py').read().split("import time; t=time.time()")[0])
from paranoid_crypto.lib import ec_util
c=ec_util.CURVE_FACTORY[m.CurveType.CURVE_SECP256R1]
d = 2**32 + 1_000_000
P = c.Multiply(c.g, d)
random.seed(7)
others=[c.Multiply(c.g, random.getrandbits(250)) for _ in range(3)]
t=time.time(); r1=c.ExtendedBatchDL([P]); print('alone', r1, 'table', c._table_size, '%.1fs'%(time.time()-t), flush=True)
c._table={}; c._table_size=0
t=time.time(); r4=c.ExtendedBatchDL([P]+others); print('batch4', r4[:1], 'table', c._table_size, '%.1fs'%(time.time()-t), flush=True)
t=time.time(); r1b=c.ExtendedBatchDL([P]); print('alone after batch (cached table)', r1b, 'table', c._table_size, '%.1fs'%(time.time()-t), flush=True)
