import time, signal
exec(open('/verif/design_probes/runtime_pb2_stub.py').read().split("import time; t=time.time()")[0])
from paranoid_crypto.lib import keypair_generator, rsa_single_checks, util
chk = rsa_single_checks.CheckKeypairDenylist()
print('table entries', len(chk._table))
seed = bytearray([5]+[0]*31)
for bits in (1024, 2048):
    t=time.time(); p,q = keypair_generator.Generator(seed).generate_key(bits); n=p*q
    print(bits, 'gen %.1fs'%(time.time()-t), 'msb in table', (n >> (n.bit_length()-64)) in chk._table)
    if (n >> (n.bit_length()-64)) in chk._table:
        k=m.RSAKey(); k.rsa_info.n=util.Int2Bytes(n); k.rsa_info.e=util.Int2Bytes(65537)
        print('  weak detected', chk.Check([k]))
        n2 = n >> 1
        print('  n>>1 bitlen', n2.bit_length(), 'msb in table', (n2 >> (n2.bit_length()-64)) in chk._table)
        k2=m.RSAKey(); k2.rsa_info.n=util.Int2Bytes(n2); k2.rsa_info.e=util.Int2Bytes(65537)
        def h(*a): raise TimeoutError()
        signal.signal(signal.SIGALRM, h); signal.alarm(60)
        try: t=time.time(); print('  check(n>>1)', chk.Check([k2]), '%.1fs'%(time.time()-t))
        except TimeoutError: print('  check(n>>1) DID NOT TERMINATE within 60 s')
        signal.alarm(0)
        break
