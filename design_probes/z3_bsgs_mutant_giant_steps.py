import z3
x,n,ts,t,j=z3.Ints('x n ts t j')
s=z3.Solver()
s.add(ts>=1,t==2*ts-1,x>=0,x<n)
s.add(z3.ForAll([j], z3.Implies(z3.And(j>=0, j<1+n/t), z3.Or(x-j*t>=ts, j*t-x>=ts))))
print(s.check()); print(s.model())
