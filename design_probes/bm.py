import ctypes, random, sys
sys.path.insert(0,'/repo')
libs=[ctypes.CDLL('./bm_clmul.so'), ctypes.CDLL('./bm_plain.so')]
def native(s,length):
    sb, sc = s, s; deg_c = 0; m = 0
    for n in range(length):
        disc = sc & (1 << m); m += 1
        if disc:
            sc >>= m; m = 0
            if 2 * deg_c <= n:
                sb, sc = sc, sb; deg_c = n + 1 - deg_c
            sc ^= sb
    return deg_c
bad=0
for t in range(3000):
    n=random.randint(0,300); s=random.getrandbits(n) if n else 0
    ba=s.to_bytes((n+7)//8,'little')
    r=[l.vp_lfsr_length(ba,len(ba),n) for l in libs]+[native(s,n)]
    if len(set(r))!=1: bad+=1; print(n,r)
print('bad',bad)
