import z3, time
I=z3.Int
def prove(name, hyps, goal, timeout=20000):
    s = z3.Solver(); s.set('timeout', timeout)
    for h in hyps: s.add(h)
    s.add(z3.Not(goal))
    t=time.time(); r = s.check(); dt=time.time()-t
    print(f"{name:50s} {'PROVED' if r==z3.unsat else r} {dt:.2f}s", (s.model() if r==z3.sat else ''))
a,n,M,c,e,Mp,q,E,ap,h = [I(v) for v in 'a n M c e Mp q E ap h'.split()]
# Inverse2exp step: a*n-1 == M*c ; Mp*e == M*M ; a' = a*(2-a*n) - Mp*q
prove("hensel inverse step", [a*n-1==M*c, Mp*e==M*M, ap==a*(2-a*n)-Mp*q], ap*n-1 == Mp*(-e*c*c - q*n))
# InverseSqrt step: E = a*a*n-1 = M*c, E even: E==2*h ; m=(3-a*a*n)//2 = 1-h ; a' = a*(1-h) - Mp*q ; Mp*e*4 == M*M (2t-2 >= t')
prove("hensel invsqrt identity", [E==a*a*n-1, E==2*h], 4*((a*(1-h))*(a*(1-h))*n-1) == E*E*(E-3))
# full: E==M*c, M*M == 4*Mp*e  => a'^2 n - 1 divisible by Mp with witness
w = e*c*c*(E-3) - q*n*(2*a*(1-h)) + q*q*Mp*n
prove("hensel invsqrt step", [E==a*a*n-1, E==2*h, E==M*c, M*M==4*Mp*e, ap==a*(1-h)-Mp*q], ap*ap*n-1 == Mp*w, 60000)
# mod 8 lemma
prove("odd square mod 8", [a%2==1], (a*a)%8==1)
prove("a^2 n = 1 mod 8 => n=1 mod 8", [(a*a*n)%8==1], n%8==1)
# ROCA _HasDiscreteLog invariant with powmod UF
pm=z3.Function('powmod', z3.IntSort(), z3.IntSort(), z3.IntSort(), z3.IntSort())
b,i,val,acc,ee = [I(v) for v in 'b i val acc ee'.split()]
ax=z3.ForAll([ee], z3.Implies(ee>=0, pm(b,ee+1,n)==(pm(b,ee,n)*b)%n))
inv=lambda hi,ac: z3.And(ac==pm(b,hi-1,n), z3.ForAll([ee], z3.Implies(z3.And(0<=ee,ee<hi-1), pm(b,ee,n)!=val)))
prove("hasdlog inv step", [ax, i>=1, inv(i,acc), acc!=val], inv(i+1,(acc*b)%n))
prove("hasdlog exit false", [ax, inv(n,acc), n>=2], z3.Not(z3.Exists([ee], z3.And(0<=ee, ee<=n-2, pm(b,ee,n)==val))))
