import ast, collections, sys
targets = {
 'paranoid_crypto/lib/rsa_util.py': None,
 'paranoid_crypto/lib/ntheory_util.py': None,
 'paranoid_crypto/lib/special_case_factoring.py': None,
 'paranoid_crypto/lib/util.py': None,
 'paranoid_crypto/lib/base_check.py': None,
 'paranoid_crypto/lib/paranoid.py': None,
 'paranoid_crypto/lib/rsa_single_checks.py': None,
 'paranoid_crypto/lib/rsa_aggregate_checks.py': None,
 'paranoid_crypto/lib/ec_single_checks.py': None,
 'paranoid_crypto/lib/ec_aggregate_checks.py': None,
 'paranoid_crypto/lib/ecdsa_sig_checks.py': None,
 'paranoid_crypto/lib/roca.py': None,
 'paranoid_crypto/lib/ec_util.py': None,
 'paranoid_crypto/lib/randomness_tests/rng.py': None,
 'paranoid_crypto/lib/randomness_tests/random_test_suite.py': ['TestStructure','TestSource','TestBitString'],
 'paranoid_crypto/lib/randomness_tests/berlekamp_massey.py': ['LfsrCount','LfsrLogProbability'],
}
tot=collections.Counter(); calls=collections.Counter(); nfun=0
for f,only in targets.items():
    tree=ast.parse(open('/repo/'+f).read())
    for node in ast.walk(tree):
        if isinstance(node,(ast.FunctionDef,)):
            nfun+=1
            for n in ast.walk(node):
                tot[type(n).__name__]+=1
                if isinstance(n,ast.Call):
                    try: calls[ast.unparse(n.func)]+=1
                    except Exception: pass
print('functions',nfun)
print(sorted(tot.items(), key=lambda kv:-kv[1]))
print([c for c in calls.most_common(140)])
