import z3, time
I=z3.Int
def prove(name, hyps, goal, timeout=20000):
    s = z3.Solver(); s.set('timeout', timeout)
    for h in hyps: s.add(h)
    s.add(z3.Not(goal))
    t=time.time(); r = s.check(); dt=time.time()-t
    print(f"{name:45s} {'PROVED' if r==z3.unsat else r} {dt:.2f}s", (s.model() if r==z3.sat else ''))
n,p1,q1,A,D,r,a,a0,ms,x,y = [I(v) for v in 'n p1 q1 A D r a a0 ms x y'.split()]
# n = (2p1+1)(2q1+1), A = p1+q1+1, D = q1-p1
hy=[p1>=1,q1>=p1,n==(2*p1+1)*(2*q1+1),A==p1+q1+1,D==q1-p1]
prove("A^2-n==D^2", hy, A*A-n==D*D)
# isqrt: r>=0, r*r<=n<(r+1)^2, r*r!=n  => A>=r+1
prove("A>=ceil sqrt", hy+[r>=0,r*r<=n,n<(r+1)*(r+1),r*r!=n, A*A-n==D*D], A>=r+1)
# helper: monotone squares lemma explicit
prove("A>=ceil sqrt (hint)", hy+[r>=0,r*r<=n,n<(r+1)*(r+1),r*r!=n, A*A-n==D*D, z3.Implies(A<=r, A*A<=r*r)], A>=r+1)
# quantified invariant: forall a' in [a0,a): not sq(a'^2-n); step: not sq(a^2-n) => forall a' in [a0,a+1)
sq=z3.Function('is_square', z3.IntSort(), z3.BoolSort())
ap=I('ap')
inv=lambda hi: z3.ForAll([ap], z3.Implies(z3.And(ap>=a0, ap<hi), z3.Not(sq(ap*ap-n))))
prove("quantified inv step", [inv(a), z3.Not(sq(a*a-n)), a>=a0], inv(a+1))
# completeness: after loop a==a0+ms with inv(a): A in [a0,a0+ms) and sq(A^2-n) -> contradiction
prove("completeness", [inv(a0+ms), A>=a0, A<a0+ms, sq(A*A-n)], z3.BoolVal(False))
# DivmodRounded
b,d,xx,yy=[I(v) for v in 'b d xx yy'.split()]
prove("divmodrounded", [b>0, d==(b+1)/2, xx==(a+d)/b, yy==(a+d)%b], z3.And(a==xx*b+(yy-d), 2*(yy-d)>=-b-1, 2*(yy-d)<b))
