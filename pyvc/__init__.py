"""pyvc: verification-condition generator for (a subset of) Python, written for google/paranoid_crypto.

Pipeline: /repo source --ast--> path-wise symbolic execution (loops cut at invariants, calls replaced by contracts,
library calls by theory terms) --> obligations --> z3 / cvc5.  See /verif/DESIGN.md section 2.
"""
