"""Sidecar contract registry.  Contracts are plain classes decorated with @contract(target); see DESIGN.md 2.3."""
import ast
import importlib
import os
import pkgutil

REGISTRY = {}      # "relpath::Qual.name" -> Contract
MACROS = {}        # spec macro name -> ([params], ast of the defining expression)


def macro(name, params, text):
  """Defines a specification macro usable in every clause: name(params) := text."""
  MACROS[name] = (list(params), ast.parse(" ".join(text.split()), mode="eval").body)

LEMMAS = {}        # name -> Lemma


class Clause:
  """One contract clause: python expression text + the property ids it serves (None = every property)."""

  def __init__(self, spec):
    if isinstance(spec, Clause):
      self.props, self.text, self.name = spec.props, spec.text, spec.name
    elif isinstance(spec, tuple):
      self.props = set(p.strip() for p in spec[0].split(",")) if spec[0] else None
      self.text = spec[1]
      self.name = spec[2] if len(spec) > 2 else None
    else:
      self.props, self.text, self.name = None, spec, None
    self.text = " ".join(self.text.split())
    self.let = None
    src = self.text
    if src.startswith("let "):   # definition usable by the following hints: "let NAME = EXPR"
      name, _, src = src[4:].partition("=")
      self.let = name.strip()
    self.node = ast.parse(src.strip(), mode="eval").body

  def serves(self, prop):
    # "VALUE"-tagged clauses belong to the value pass of congruence-mode contracts (engine.verify): they are about the
    # real integer values, the property-tagged ones about the ring argument; untagged clauses serve both passes
    if prop == "__value_pass__":
      return self.props is None or "VALUE" in self.props
    if self.props is not None and "VALUE" in self.props:
      return False
    return prop is None or self.props is None or prop in self.props

  def __repr__(self):
    return f"Clause({self.props}, {self.text!r})"


class Contract:
  def __init__(self, target, cls):
    self.target = target
    # "relpath::Qual.name#aspect": a further, independent contract on the same function (its own invariants and hooks;
    # never used at call sites, which look up "relpath::Qual.name")
    self.relpath, q = target.split("::")
    self.qual, _, self.aspect = q.partition("#")
    g = lambda k, d: getattr(cls, k, d)
    self.name = cls.__name__
    self.params = dict(g("params", {}))
    self.returns = g("returns", "none")
    self.self_fields = dict(g("self_fields", {}))
    self.self_cls = g("self_cls", None)
    self.self_init = g("self_init", None)   # constructor arguments: self is built by executing __init__ (concretely)
    self.requires = [Clause(c) for c in g("requires", [])]
    self.ensures = [Clause(c) for c in g("ensures", [])]
    # raises: {ExcName: clause-or-None}.  With a clause: raised EXACTLY when the clause holds (on entry state).
    # None: may be raised (only used for assumed contracts of callees).
    self.raises = {k: (Clause(v) if v is not None else None) for k, v in g("raises", {}).items()}
    # raises_only_if: {ExcName: clause}: the exception MAY be raised, and only when the clause holds on the entry state
    # (an obligation of the function's own verification; what a caller learns on the exceptional path)
    self.raises_only_if = {k: Clause(v) for k, v in g("raises_only_if", {}).items()}
    for k in self.raises_only_if:
      self.raises.setdefault(k, None)
    self.loops = {}
    for k, v in g("loops", {}).items():
      self.loops[k] = dict(invariant=[Clause(c) for c in v.get("invariant", [])], variant=v.get("variant"),
                           types=dict(v.get("types", {})), cut=v.get("cut", False),
                           keep=set(v.get("keep", [])), unroll=v.get("unroll", False),
                           body_end=[Clause(c) for c in v.get("body_end", [])],
                           head=list(v.get("head", [])), abstract=v.get("abstract", False), cases=v.get("cases", False),
                           at_exit=[Clause(c) for c in v.get("at_exit", [])],
                           independent=v.get("independent", False), carried_ok=set(v.get("carried_ok", [])),
                           append_only=set(v.get("append_only", [])), stop_at_exit=v.get("stop_at_exit", False))
    self.total = g("total", False)          # implicit exceptions are obligations (C18)
    self.total_props = set(g("total_props", ["C18"]))
    self.assumed = g("assumed", False)      # body not verified (out of reach): used by callers, listed as assumption
    self.assumed_why = g("assumed_why", "")
    self.props = set(g("props", []))
    self.modifies = list(g("modifies", []))
    self.effects = list(g("effects", []))   # ghost updates, list of (ghost_name, expr)
    self.hints = [Clause(c) for c in g("hints", [])]
    self.return_hints = [Clause(c) for c in g("return_hints", [])]   # proof hints processed at every return site   # proved facts instantiated at function entry
    self.ghost = dict(g("ghost", {}))       # ghost variable name -> type (function-level ghost state)
    self.ghost_init = dict(g("ghost_init", {}))
    self.callsite_hints = dict(g("callsite_hints", {}))
    self.inline = g("inline", False)
    # ghost code: on_call {callee target: [stmt...]} run after each call of that callee; entry_ghost [stmt...] at entry.
    # A statement is `name = expr` (ghost assignment) or `assert expr` (call-site obligation) or `assume_hint expr`.
    self.on_call = {k: list(v) for k, v in g("on_call", {}).items()}
    # on_assign {local name: [stmt...]}: ghost statements run right after each top-frame assignment `name = ...`
    self.on_assign = {k: list(v) for k, v in g("on_assign", {}).items()}
    self.entry_ghost = list(g("entry_ghost", []))
    # methods of opaque references (user-supplied objects): (cls, method) -> result type (arbitrary value of it)
    self.ref_methods = dict(g("ref_methods", {}))
    # after a call to one of these callees (by function name) the rest of the body is abstracted: the path ends as a
    # normal return of an unmodelled value (float tails of the statistical tests); listed as an assumption
    self.stop_after = list(g("stop_after", []))
    # declared types of local variables whose initial value does not determine it ([None] * n, [], {})
    self.var_types = dict(g("var_types", {}))
    # congruence ("ring") mode: every `e % <congruence_mod>` in the CODE is replaced by e (the reduction is a ring
    # homomorphism, so integer identities proved for the unreduced program hold as congruences for the real one);
    # comparisons whose operands went through such a dropped reduction are arbitrary booleans
    self.congruence_mod = g("congruence_mod", None)
    # replay of methods: python expression building `self` for the real call; it may use the module's names and
    # self_<field> (values of the model for the declared self_fields)
    self.replay_self = g("replay_self", None)
    self.frame_ok = set(g("frame_ok", []))
    self.frame_props = set(g("frame_props", []))  # properties under which an ASSUMED contract's frame condition is checked     # state outside the arguments that the function may legitimately mutate
    self.pure_fn = g("pure_fn", None)
    # functional contracts: the result as an expression of the parameters (used where no fresh symbol may be
    # introduced: inside comprehensions over symbolic sequences and quantifier bodies)
    self.returns_expr = g("returns_expr", None)       # name of an uninterpreted function the result equals (functional contracts)
    self.path_budget = g("path_budget", 4000)
    self.feasibility = g("feasibility", True)     # False: every symbolic branch is explored without a solver query
    # definitional axioms naming a spec-level uninterpreted function (conservative extension): assumed at entry of the
    # function's own verification and at every call site
    self.defines = [Clause(c) for c in g("defines", [])]
    # axioms of the SPECIFICATION theory (properties of uninterpreted spec functions such as the discrete-log view of a
    # group; no statement about code): assumed at entry, listed in the evidence
    self.spec_axioms = [Clause(c) for c in g("spec_axioms", [])]
    # ghost parameters: extra universally quantified symbolic inputs (not real parameters); clauses that mention them
    # go to ghost_requires / ghost_ensures and are never assumed by callers
    self.ghost_params = dict(g("ghost_params", {}))
    self.ghost_requires = [Clause(c) for c in g("ghost_requires", [])]
    self.ghost_ensures = [Clause(c) for c in g("ghost_ensures", [])]
    ce = g("caller_ensures", None)   # what callers may assume, when it differs from ensures + defines
    self.caller_ensures = [Clause(c) for c in ce] if ce is not None else None
    # caller_ensures clauses are proved at every return like postconditions, unless textually an `ensures` clause or
    # listed here (then they are ASSUMED and reported as such in the evidence)
    self.caller_assumed = set(g("caller_assumed", []))
    self.value_total = set(g("value_total", []))   # implicit exceptions that are obligations in the value pass
    self.value_pass = g("value_pass", False)    # congruence-mode contract with VALUE-tagged clauses (second pass)
    self.bounded = g("bounded", None)
    self.proved_by_aspect = dict(g("proved_by_aspect", {}))   # caller-visible clause text -> aspect contract proving it
    self.point_maps = g("point_maps", False)   # collections.defaultdict(list) in this body is a point -> [index] multimap

  def all_props(self):
    ps = set(self.props)
    if self.total:
      ps |= self.total_props      # a total contract's implicit-exception obligations belong to C18 whatever else it serves
    for c in self.requires + self.ensures + self.ghost_ensures:
      if c.props:
        ps |= c.props
    for lc in self.loops.values():
      for c in lc["invariant"]:
        if c.props:
          ps |= c.props
    return ps


def contract(target):
  def deco(cls):
    c = Contract(target, cls)
    REGISTRY[target] = c
    cls._contract = c
    return cls
  return deco


class Lemma:
  """A closed formula over integer variables, proved on every run and then available as a hint:
  vars: {name: type}; hyps: [expr]; concl: [expr]; witness: {existential name: expr} substituted before proving."""

  def __init__(self, name, cls):
    self.name = name
    self.vars = dict(getattr(cls, "vars", {}))
    self.hyps = [Clause(c) for c in getattr(cls, "hyps", [])]
    self.concl = [Clause(c) for c in getattr(cls, "concl", [])]
    self.proof = [Clause(c) for c in getattr(cls, "proof", [])]   # hint steps (obligation, then assumed) before concl
    self.props = set(getattr(cls, "props", []))
    self.tactic = getattr(cls, "tactic", None)
    self.cases = getattr(cls, "cases", None)
    self.axiom = False


def lemma(name):
  def deco(cls):
    LEMMAS[name] = Lemma(name, cls)
    return cls
  return deco


def spec_axiom(name):
  """An axiom SCHEMA of the specification theory (a property of uninterpreted spec functions, e.g. the discrete-log view
  of a group): instantiated like a lemma with lemma('<name>', args...), never proved, listed in the evidence."""
  def deco(cls):
    LEMMAS[name] = Lemma(name, cls)
    LEMMAS[name].axiom = True
    return cls
  return deco


def load_all():
  """Imports every module of /verif/contracts (idempotent)."""
  import contracts as pkg
  for m in pkgutil.iter_modules(pkg.__path__):
    importlib.import_module(f"contracts.{m.name}")
  return REGISTRY


def find(relpath, qual):
  return REGISTRY.get(f"{relpath}::{qual}")
