"""Symbolic executor + VC generator (stateless re-execution: one run per path, decisions replayed from a vector).

See DESIGN.md 2.  Loops are cut at invariants, calls to functions under contract are replaced by the contract, library
calls by theory terms (pyvc.theories).  One Obligation per (clause, path).
"""
import ast
import os
import itertools
import time
import z3

from . import source, values as V
from .values import (Opt, Ptr, Opaque, Ref, StrV, BytesV, FuncV, ModV, HList, HDict, HRec, HSet, HRecList, ElemRef,
                     HPointMap, PMEntry, is_sym, is_int_like,
                     is_bool_like, to_z3, parse_type)
from . import contracts as C


class PathEnd(Exception):
  pass


class Infeasible(PathEnd):
  pass


class NeedDecision(Exception):
  def __init__(self, feasible):
    self.feasible = feasible


class Raised(Exception):
  """A Python exception propagating in the analysed program."""

  def __init__(self, exc, implicit=False, info=""):
    self.exc, self.implicit, self.info = exc, implicit, info


class ReturnSig(Exception):
  def __init__(self, value):
    self.value = value


class BreakSig(Exception):
  pass


class ContinueSig(Exception):
  pass


class TailAbstracted(Exception):
  """Raised after a call named in contract.stop_after: the rest of the function body is abstracted."""


class Unsupported(Exception):
  """Construct outside the front-end subset: the function is out of reach (undecided, never a violation)."""


class Undecidable(Exception):
  """A checked clause depends on an abstracted (opaque) value."""


class Obligation:
  __slots__ = ("label", "kind", "func", "hyps", "goal", "path", "line", "props", "clause", "inputs", "note", "alt_hyps")

  def __init__(self, label, kind, func, hyps, goal, path, line, props, clause, inputs, note="", alt_hyps=None):
    self.label, self.kind, self.func, self.hyps, self.goal = label, kind, func, hyps, goal
    self.path, self.line, self.props, self.clause, self.inputs, self.note = path, line, props, clause, inputs, note
    self.alt_hyps = alt_hyps      # a SUBSET of hyps tried first (a proof from fewer hypotheses is a proof)

  def smt2(self):
    s = z3.Solver()
    for h in self.hyps:
      s.add(h)
    s.add(z3.Not(self.goal))
    return s.to_smt2()

  def smt2_alt(self):
    if self.alt_hyps is None:
      return None
    ids = {h.get_id() for h in self.hyps}
    s = z3.Solver()
    for h in self.alt_hyps:
      if not isinstance(h, bool) and h.get_id() in ids:      # subset of the real hypotheses only
        s.add(h)
    s.add(z3.Not(self.goal))
    return s.to_smt2()


class Frame:
  def __init__(self, env, closure, module, cls=None, fname=""):
    self.env, self.closure, self.module, self.cls, self.fname = env, closure, module, cls, fname


class State:
  def __init__(self, decisions):
    self.frames = []
    self.heap = {}
    self.next_addr = 1
    self.pc = []
    self.decisions = decisions
    self.dptr = 0
    self.ghost = {}
    self.spec_depth = 0
    self.notes = []
    self.old = None
    self.loop_depth = 0
    self.inputs = {}
    self.pending_alts = []
    self.nofresh = 0

  # -- heap
  def alloc(self, obj):
    a = self.next_addr
    self.next_addr += 1
    self.heap[a] = obj
    return Ptr(a)

  def deref(self, p):
    return self.heap[p.addr]

  def assume(self, *facts):
    for f in facts:
      if isinstance(f, bool):
        if not f:
          raise Infeasible()
        continue
      self.pc.append(f)

  @property
  def frame(self):
    return self.frames[-1]

  @property
  def spec(self):
    return self.spec_depth > 0


class Engine:
  FEAS_TIMEOUT_MS = 400
  UNROLL_MAX = 5000

  def __init__(self, prop=None, repo=None):
    self.prop = prop
    self.repo = repo
    self.obligations = []
    self._seen = set()
    self.stats = dict(paths=0, feas_checks=0)
    self.abstracted = set()
    self.assumed_contracts = set()
    self.called_contracts = set()      # targets of every callee contract applied (cli: dependency closure of a property)
    self.used_theories = set()
    self.cur = None          # contract being verified
    self.cur_fn = None
    self.emit_enabled = True
    from . import theories
    self.th = theories

  # ================================================================================================================
  # decisions

  def choose(self, st, cond):
    """Resolves a branch on `cond` (python bool, z3 Bool, or None for a free choice). Returns a python bool."""
    if isinstance(cond, bool):
      return cond
    if cond is not None:
      cond = z3.simplify(cond)
      if z3.is_true(cond):
        return True
      if z3.is_false(cond):
        return False
    if st.spec:
      raise Unsupported("branching inside a specification expression")
    if st.dptr < len(st.decisions):
      b = st.decisions[st.dptr]
      st.dptr += 1
      if cond is not None:
        st.assume(cond if b else z3.Not(cond))
      return b
    feas = []
    for b in (True, False):
      if cond is None or (self.cur is not None and not getattr(self.cur, "feasibility", True)) or self.feasible(
          st, cond if b else z3.Not(cond)):
        feas.append(b)
    if not feas:
      raise Infeasible()
    # continue in place with the first feasible branch; the other one is queued for a later run
    b = feas[0]
    if len(feas) == 2:
      st.pending_alts.append(list(st.decisions[:st.dptr]) + [feas[1]])
    st.decisions = list(st.decisions[:st.dptr]) + [b]
    st.dptr += 1
    if cond is not None:
      st.assume(cond if b else z3.Not(cond))
    return b

  FEAS_RLIMIT = int(os.environ.get("VERIF_FEAS_RLIMIT", "0"))

  def _budget(self, s):
    """Budget of the path-shaping solver calls (branch feasibility, `known`).  Their answers only prune infeasible paths
    or simplify terms - sound either way - but they decide WHICH obligations exist, so the budget is a deterministic
    resource count (z3 rlimit) rather than wall-clock time: the set of generated obligations then does not depend on the
    load of the machine.  The wall-clock limit stays as a generous safety net."""
    if self.FEAS_RLIMIT:
      s.set("rlimit", self.FEAS_RLIMIT)
      s.set("timeout", 20000)
    else:
      s.set("timeout", self.FEAS_TIMEOUT_MS)

  def feasible(self, st, extra=None):
    self.stats["feas_checks"] += 1
    s = z3.Solver()
    self._budget(s)
    for f in st.pc:
      s.add(f)
    if extra is not None:
      s.add(extra)
    if os.environ.get("VERIF_FEAS_LOG"):
      t0 = time.time()
      r = s.check()
      dt = time.time() - t0
      if dt > 0.1 or r == z3.unknown:
        with open(os.environ["VERIF_FEAS_LOG"], "a") as f:
          f.write(f"{self.cur.qual if self.cur else '?'} {r} {dt:.3f}\n")
      return r != z3.unsat
    return s.check() != z3.unsat

  # ================================================================================================================
  # obligations

  def emit(self, st, kind, label, goal, clause=None, line=0, props=None, note="", only_hyps=None, alt_hyps=None):
    if not self.emit_enabled:
      return
    if isinstance(goal, bool):
      goal = z3.BoolVal(goal)
    hyps = []
    seen_h = set()
    for h in (st.pc if only_hyps is None else only_hyps):
      if isinstance(h, bool):
        if h:
          continue
        h = z3.BoolVal(False)
      hid = h.get_id()
      if hid not in seen_h:
        seen_h.add(hid)
        hyps.append(h)
    key = (label, kind, goal.get_id(), tuple(sorted(seen_h)))
    if key in self._seen:
      return
    self._seen.add(key)
    # goal (or each of its conjuncts) literally among the hypotheses: keep only those (instant, stable query)
    conj = list(goal.children()) if z3.is_and(goal) else [goal]
    if all(c.get_id() in seen_h for c in conj):
      hyps = [h for h in hyps if h.get_id() in {c.get_id() for c in conj}]
    self.obligations.append(
        Obligation(label, kind, self.cur.target if self.cur else "?", hyps, goal, tuple(st.decisions[:st.dptr]), line,
                   props, clause, dict(st.inputs), note, alt_hyps=alt_hyps))

  # ================================================================================================================
  # names / frames

  def lookup(self, st, name, node=None):
    for fr in (st.frame,):
      if name in fr.env:
        return fr.env[name]
      cl = fr.closure
      while cl is not None:
        if name in cl.env:
          return cl.env[name]
        cl = cl.closure
    if st.spec and name in st.ghost:
      return st.ghost[name]
    return self.resolve_global(st, st.frame.module, name)

  def resolve_global(self, st, module, name):
    if module is not None:
      if name in module.funcs:
        return FuncV("repo", name, node=module.funcs[name], module=module)
      if name in module.classes:
        return FuncV("class", name, node=module.classes[name], module=module)
      if name in module.assigns:
        return self.eval_module_const(st, module, name)
      if name in module.imports:
        imp = module.imports[name]
        if isinstance(imp, tuple):
          modname, attr = imp
          return self.module_attr(st, ModV(modname), attr)
        return ModV(imp)
    r = self.th.builtin(name)
    if r is not None:
      return r
    raise Unsupported(f"unknown name {name}")

  def eval_module_const(self, st, module, name):
    node = module.assigns[name]
    fr = Frame({}, None, module, fname=f"<module {module.modname}>")
    st.frames.append(fr)
    try:
      return self.ev(node, st)
    finally:
      st.frames.pop()

  def module_attr(self, st, mod, attr):
    if mod.name == "paranoid_crypto.version" and attr == "__version__":
      return self.th.read_version(self)
    rel = source.module_relpath(mod.name)
    if rel is not None:
      m = source.load(rel, self.repo)
      return self.resolve_global(st, m, attr)
    sub = source.module_relpath(mod.name + "." + attr)
    if sub is not None:
      return ModV(mod.name + "." + attr)
    return self.th.module_attr(self, st, mod, attr)

  # ================================================================================================================
  # truthiness / equality / coercions

  def truthy(self, st, v):
    if isinstance(v, bool):
      return v
    if v is None:
      return False
    if isinstance(v, (int, float)):
      return v != 0
    if isinstance(v, (str, bytes, tuple)):
      return len(v) > 0
    if is_sym(v):
      if z3.is_bool(v):
        return v
      return v != 0
    if isinstance(v, Opt):
      t = self.truthy(st, v.val)
      return self.and_(self.not_(v.isnone), t)
    if isinstance(v, Ptr):
      o = st.deref(v)
      if isinstance(o, HList):
        return (len(o.items) > 0) if not o.symbolic else (o.length > 0)
      if isinstance(o, HDict):
        if not o.symbolic:
          return len(o.items) > 0
        raise Unsupported("truthiness of symbolic dict")
      if isinstance(o, HSet):
        if o.items is not None:
          return len(o.items) > 0
        # non-emptiness of a symbolic int set: a fresh boolean tied to the membership predicate by a witness
        b = z3.Bool(V.fresh_name("set_nonempty"))
        w = z3.Int(V.fresh_name("set_witness"))
        x = z3.Int(V.fresh_name("sx"))
        st.assume(z3.Implies(b, o.mem(w)), z3.Implies(z3.Not(b), z3.ForAll([x], z3.Not(o.mem(x)))))
        return b
      if isinstance(o, HRecList):
        return to_z3(o.length) > 0
      return True
    if isinstance(v, (Ref, ElemRef)):
      return True
    if isinstance(v, BytesV):
      return to_z3(v.length) > 0
    if isinstance(v, (FuncV, ModV)):
      return True
    if isinstance(v, Opaque):
      raise Undecidable(f"truthiness of abstracted value ({v.why})")
    if isinstance(v, StrV):
      return self.th.str_nonempty(self, st, v)
    raise Unsupported(f"truthiness of {type(v).__name__}")

  @staticmethod
  def and_(*xs):
    out = []
    for x in xs:
      if isinstance(x, bool):
        if not x:
          return False
        continue
      out.append(x)
    if not out:
      return True
    return out[0] if len(out) == 1 else z3.And(*out)

  @staticmethod
  def or_(*xs):
    out = []
    for x in xs:
      if isinstance(x, bool):
        if x:
          return True
        continue
      out.append(x)
    if not out:
      return False
    return out[0] if len(out) == 1 else z3.Or(*out)

  @staticmethod
  def not_(x):
    if isinstance(x, bool):
      return not x
    return z3.Not(x)

  @staticmethod
  def implies(a, b):
    if isinstance(a, bool):
      return b if a else True
    if isinstance(b, bool):
      return True if b else z3.Not(a)
    return z3.Implies(a, b)

  @staticmethod
  def ite(c, a, b):
    if isinstance(c, bool):
      return a if c else b
    return z3.If(c, to_z3(a), to_z3(b))

  def eq(self, st, a, b):
    """Python == as a bool term."""
    if isinstance(a, Opaque) or isinstance(b, Opaque):
      raise Undecidable("equality on abstracted value")
    if a is None and b is None:
      return True
    if isinstance(a, Opt) or isinstance(b, Opt):
      if a is None:
        return b.isnone
      if b is None:
        return a.isnone
      if not isinstance(a, Opt):
        return self.and_(self.not_(b.isnone), self.eq(st, a, b.val))
      if not isinstance(b, Opt):
        return self.and_(self.not_(a.isnone), self.eq(st, a.val, b))
      return self.or_(self.and_(a.isnone, b.isnone),
                      self.and_(self.not_(a.isnone), self.not_(b.isnone), self.eq(st, a.val, b.val)))
    if a is None or b is None:
      return False
    if isinstance(a, tuple) and isinstance(b, tuple):
      if len(a) != len(b):
        return False
      return self.and_(*[self.eq(st, x, y) for x, y in zip(a, b)])
    if isinstance(a, tuple) or isinstance(b, tuple):
      other = b if isinstance(a, tuple) else a
      tup = a if isinstance(a, tuple) else b
      if isinstance(other, Ptr) and isinstance(st.deref(other), HList):
        return False  # tuple == list is always False in Python
      return False
    if isinstance(a, (bool, int)) and isinstance(b, (bool, int)):
      return a == b
    if (is_int_like(a) or is_bool_like(a)) and (is_int_like(b) or is_bool_like(b)):
      return self._int(a) == self._int(b)
    if V.is_real_like(a) or V.is_real_like(b):
      return self._real(a) == self._real(b)
    if isinstance(a, str) and isinstance(b, str):
      return a == b
    if isinstance(a, (str, StrV)) and isinstance(b, (str, StrV)):
      return self.th.str_term(self, st, a) == self.th.str_term(self, st, b)
    if isinstance(a, bytes) and isinstance(b, bytes):
      return a == b
    if isinstance(a, (bytes, BytesV)) and isinstance(b, (bytes, BytesV)):
      a, b = self.th.bytes_val(a), self.th.bytes_val(b)
      return self.and_(to_z3(a.length) == to_z3(b.length), to_z3(a.val) == to_z3(b.val))
    if isinstance(a, Ref) and isinstance(b, Ref):
      return a.term == b.term
    if isinstance(a, ElemRef) and isinstance(b, ElemRef):
      return self.and_(a.ptr.addr == b.ptr.addr, to_z3(a.idx) == to_z3(b.idx))
    if isinstance(a, Ptr) and isinstance(b, Ptr):
      oa, ob = st.deref(a), st.deref(b)
      if isinstance(oa, HList) and isinstance(ob, HList):
        if not oa.symbolic and not ob.symbolic:
          if len(oa.items) != len(ob.items):
            return False
          return self.and_(*[self.eq(st, x, y) for x, y in zip(oa.items, ob.items)])
      if a.addr == b.addr:
        return True
      raise Unsupported("equality of heap objects")
    if type(a) != type(b):
      return False
    raise Unsupported(f"equality of {type(a).__name__} and {type(b).__name__}")

  def _int(self, v):
    if isinstance(v, bool):
      return int(v)
    if isinstance(v, int):
      return v
    if is_sym(v) and z3.is_bool(v):
      return z3.If(v, 1, 0)
    if is_sym(v) and z3.is_int(v):
      return v
    raise TypeError(f"not an int: {v!r}")

  def _real(self, v):
    if isinstance(v, (bool, int)):
      return z3.RealVal(int(v))
    if isinstance(v, float):
      return z3.RealVal(repr(v)) if v == v and abs(v) != float("inf") else self._opaque_real()
    if is_sym(v) and z3.is_real(v):
      return v
    if is_sym(v) and z3.is_int(v):
      return z3.ToReal(v)
    raise TypeError(f"not a real: {v!r}")

  def need_int(self, st, v, node=None):
    """Unwraps a value used where an int is required (implicit TypeError on None)."""
    if isinstance(v, Opt):
      self.implicit(st, "TypeError", self.not_(v.isnone), node, "None used as a number")
      return self.need_int(st, v.val, node)
    if v is None:
      self.implicit(st, "TypeError", False, node, "None used as a number")
    if isinstance(v, Opaque):
      raise Undecidable(f"arithmetic on abstracted value ({v.why})")
    if is_int_like(v) or is_bool_like(v):
      return self._int(v)
    if V.is_real_like(v):
      return v
    raise Unsupported(f"int expected, got {type(v).__name__}")

  def loc(self, node):
    """Stable site name: the ordinal of the AST node among the nodes of its kind inside the function under
    verification (unaffected by edits elsewhere in the file); 'x' for nodes of inlined callees."""
    return getattr(self, "node_ord", {}).get(id(node), "x")

  def implicit(self, st, exc, ok, node, what):
    """Implicit exception point: in total mode `ok` is an obligation; in every mode the path continues under `ok`."""
    if st.spec:
      coll = st.__dict__.get("comp_collect")
      if coll is not None and not (isinstance(ok, bool) and ok):
        coll.append(ok)      # element expression of a comprehension over a symbolic sequence (see theories.comprehension)
      return
    if isinstance(ok, bool) and ok:
      return
    line = getattr(node, "lineno", 0)
    if self.cur is not None and self.cur.total and (self.prop is None or self.prop in self.cur.total_props):
      self.emit(st, "no-" + exc, f"{self.cur.qual}/no-{exc}@{self.loc(node)}", ok, clause=what, line=line,
                props=self.cur.total_props)
    elif (self.cur is not None and getattr(self, "value_pass", False) and
          exc in getattr(self.cur, "value_total", ())):
      # value pass of a congruence-mode contract: the listed implicit exceptions are obligations there
      self.emit(st, "no-" + exc, f"{self.cur.qual}/no-{exc}[value]@{self.loc(node)}", ok, clause=what, line=line,
                props={"VALUE"})
    if isinstance(ok, bool):
      raise Infeasible()
    st.assume(ok)

  # ================================================================================================================
  # expression evaluation

  def ev(self, node, st):
    m = getattr(self, "ev_" + type(node).__name__, None)
    if m is None:
      raise Unsupported(f"expression {type(node).__name__}")
    return m(node, st)

  def ev_Constant(self, node, st):
    return node.value

  def ev_Name(self, node, st):
    if st.spec:
      r = self.th.spec_name(self, st, node.id)
      if r is not None:
        return r
    return self.lookup(st, node.id, node)

  def ev_Tuple(self, node, st):
    out = []
    for e in node.elts:
      if isinstance(e, ast.Starred):
        out.extend(self.iter_concrete(st, self.ev(e.value, st)))
      else:
        out.append(self.ev(e, st))
    return tuple(out)

  def ev_List(self, node, st):
    items = list(self.ev_Tuple(node, st))
    return st.alloc(HList(items=items))

  def ev_Set(self, node, st):
    items = [self.ev(e, st) for e in node.elts]
    return st.alloc(HSet(items=self.th.make_set_items(self, st, items)))

  def ev_Dict(self, node, st):
    d = {}
    for k, v in zip(node.keys, node.values):
      kk = self.ev(k, st)
      d[self.th.hashable(self, st, kk)] = self.ev(v, st)
    return st.alloc(HDict(items=d))

  def ev_UnaryOp(self, node, st):
    v = self.ev(node.operand, st)
    if isinstance(node.op, ast.Not):
      return self.not_(self.truthy(st, v))
    if isinstance(v, Opaque):
      return Opaque("-" + v.why)
    x = self.need_int(st, v, node)
    if isinstance(node.op, ast.USub):
      return -x
    if isinstance(node.op, ast.UAdd):
      return x
    if isinstance(node.op, ast.Invert):
      return -x - 1
    raise Unsupported("unary op")

  def ev_BoolOp(self, node, st):
    if st.spec:
      # logical connective with concrete short-circuit (so that guarded sub-terms are not evaluated out of domain)
      vals = []
      for v in node.values:
        t = self.truthy(st, self.ev(v, st))
        if isinstance(t, bool):
          if t and isinstance(node.op, ast.Or):
            return True
          if not t and isinstance(node.op, ast.And):
            return False
          continue
        vals.append(t)
      return self.and_(*vals) if isinstance(node.op, ast.And) else self.or_(*vals)
    is_and = isinstance(node.op, ast.And)
    v = None
    for i, e in enumerate(node.values):
      v = self.ev(e, st)
      if i == len(node.values) - 1:
        return v
      t = self.choose(st, self.truthy(st, v))
      if is_and and not t:
        return v
      if not is_and and t:
        return v
    return v

  def ev_IfExp(self, node, st):
    c = self.truthy(st, self.ev(node.test, st))
    if st.spec and not isinstance(c, bool):
      a, b = self.ev(node.body, st), self.ev(node.orelse, st)
      if a is None and b is None:
        return None
      if a is None or b is None:
        # `None if c else e` / `e if c else None`: an Optional whose payload is e
        other = b if a is None else a
        none_when = c if a is None else self.not_(c)
        if isinstance(other, Opt):
          return Opt(self.or_(none_when, other.isnone), other.val)
        return Opt(none_when, other)
      if isinstance(a, Opt) and not isinstance(b, Opt):
        a = self.need_int(st, a)
      if isinstance(b, Opt) and not isinstance(a, Opt):
        b = self.need_int(st, b)
      if isinstance(a, (str, StrV)) and isinstance(b, (str, StrV)):
        return StrV(z3.If(c, self.th.str_term(self, st, a), self.th.str_term(self, st, b)))
      return self.ite(c, a, b)
    return self.ev(node.body if self.choose(st, c) else node.orelse, st)

  def ev_Compare(self, node, st):
    left = self.ev(node.left, st)
    res = []
    for op, rn in zip(node.ops, node.comparators):
      right = self.ev(rn, st)
      res.append(self.compare(st, op, left, right, node))
      left = right
    return self.and_(*res)

  def compare(self, st, op, a, b, node):
    if (not st.spec and st.__dict__.get("cong_mod") is not None and isinstance(op, (ast.Eq, ast.NotEq, ast.Lt, ast.LtE,
                                                                                   ast.Gt, ast.GtE))
        and (self._tainted(st, a) or self._tainted(st, b))):
      # congruence mode: the real code compares reduced residues; nothing is known about the unreduced values
      return z3.Bool(V.fresh_name("cmp_residues"))
    if isinstance(op, ast.Eq):
      return self.eq(st, a, b)
    if isinstance(op, ast.NotEq):
      return self.not_(self.eq(st, a, b))
    if isinstance(op, (ast.Is, ast.IsNot)):
      r = self.is_(st, a, b)
      return r if isinstance(op, ast.Is) else self.not_(r)
    if isinstance(op, (ast.In, ast.NotIn)):
      r = self.contains(st, b, a, node)
      return r if isinstance(op, ast.In) else self.not_(r)
    if (isinstance(a, Opaque) or isinstance(b, Opaque)) and not st.spec:
      # comparison involving an unmodelled (float) value: arbitrary boolean, listed as abstracted
      self.abstracted.add(f"comparison on abstracted value at L{getattr(node, 'lineno', 0)} havocked to an arbitrary bool")
      return z3.Bool(V.fresh_name("cmp_abstracted"))
    if V.is_real_like(a) or V.is_real_like(b) or isinstance(a, float) or isinstance(b, float):
      if isinstance(a, Opaque) or isinstance(b, Opaque):
        raise Undecidable("comparison on abstracted value")
      x, y = self._real(self.need_int(st, a, node)), self._real(self.need_int(st, b, node))
    elif isinstance(a, (str, bytes)) and isinstance(b, (str, bytes)):
      x, y = a, b
    elif isinstance(a, tuple) and isinstance(b, tuple) and all(isinstance(t, (int, str)) for t in a + b):
      x, y = a, b
    else:
      x, y = self.need_int(st, a, node), self.need_int(st, b, node)
    if isinstance(op, ast.Lt):
      return x < y
    if isinstance(op, ast.LtE):
      return x <= y
    if isinstance(op, ast.Gt):
      return x > y
    if isinstance(op, ast.GtE):
      return x >= y
    raise Unsupported("compare op")

  def is_(self, st, a, b):
    if a is None and b is None:
      return True
    if b is None:
      a, b = b, a
    if a is None:
      if isinstance(b, Opt):
        return b.isnone
      if isinstance(b, Opaque):
        raise Undecidable("`is None` on abstracted value")
      return False
    if isinstance(a, Ptr) and isinstance(b, Ptr):
      return a.addr == b.addr
    if isinstance(a, bool) and isinstance(b, bool):
      return a == b
    raise Unsupported("`is` on non-None operands")

  def contains(self, st, cont, item, node):
    if isinstance(cont, Opt):
      self.implicit(st, "TypeError", self.not_(cont.isnone), node, "argument of type 'NoneType' is not iterable")
      cont = cont.val
    if isinstance(cont, tuple):
      return self.or_(*[self.eq(st, item, c) for c in cont])
    if isinstance(cont, str) and isinstance(item, str):
      return item in cont
    if isinstance(cont, Ptr):
      o = st.deref(cont)
      if isinstance(o, HList) and not o.symbolic:
        return self.or_(*[self.eq(st, item, c) for c in o.items])
      if isinstance(o, HList):
        return self.th.slist_contains(self, st, o, item)
      if isinstance(o, HDict):
        return self.th.dict_contains(self, st, o, item)
      if isinstance(o, HSet):
        return self.th.set_contains(self, st, o, item)
    if isinstance(cont, Ref):
      return self.th.ref_contains(self, st, cont, item)
    if isinstance(cont, Opaque):
      raise Undecidable("membership in abstracted value")
    raise Unsupported(f"`in` on {type(cont).__name__}")

  def ev_BinOp(self, node, st):
    a = self.ev(node.left, st)
    b = self.ev(node.right, st)
    return self.binop(st, node.op, a, b, node)

  def binop(self, st, op, a, b, node):
    if isinstance(a, Opaque) or isinstance(b, Opaque):
      return Opaque("arith on " + (a.why if isinstance(a, Opaque) else b.why))
    # sequences / strings
    if isinstance(op, ast.Add) and isinstance(a, tuple) and isinstance(b, tuple):
      return a + b
    if isinstance(op, ast.Mod) and isinstance(a, (str, StrV)):
      return self.th.str_format(self, st, a, b, node)
    if isinstance(a, (str, bytes)) and isinstance(b, (str, bytes)) and isinstance(op, ast.Add):
      return a + b
    if isinstance(a, (str, StrV)) and isinstance(b, (str, StrV)) and isinstance(op, ast.Add):
      return self.th.str_concat(self, st, a, b)
    if isinstance(a, (bytes, BytesV)) and isinstance(b, (bytes, BytesV)) and isinstance(op, ast.Add):
      return self.th.bytes_concat(self, st, a, b)
    if isinstance(a, Ptr) or isinstance(b, Ptr):
      return self.th.seq_binop(self, st, op, a, b, node)
    if isinstance(op, ast.Mult) and (isinstance(a, (str, bytes, tuple)) or isinstance(b, (str, bytes, tuple))):
      seq, n = (a, b) if isinstance(a, (str, bytes, tuple)) else (b, a)
      if isinstance(n, int):
        return seq * n
      return self.th.seq_binop(self, st, op, a, b, node)
    # floats
    if isinstance(a, float) or isinstance(b, float) or V.is_real_like(a) or V.is_real_like(b) or isinstance(
        op, ast.Div):
      return self.th.float_binop(self, st, op, a, b, node)
    x, y = self.need_int(st, a, node), self.need_int(st, b, node)
    conc = isinstance(x, int) and isinstance(y, int)
    if isinstance(op, ast.Add):
      return x + y
    if isinstance(op, ast.Sub):
      return x - y
    if isinstance(op, ast.Mult):
      return x * y
    if isinstance(op, ast.FloorDiv):
      return self.floordiv(st, x, y, node)
    if isinstance(op, ast.Mod):
      return self.mod(st, x, y, node)
    if isinstance(op, ast.Pow):
      return self.th.power(self, st, x, y, node)
    if isinstance(op, ast.LShift):
      if conc:
        self.implicit(st, "ValueError", y >= 0, node, "negative shift count")
        return x << y
      return self.th.lshift(self, st, x, y, node)
    if isinstance(op, ast.RShift):
      if conc:
        self.implicit(st, "ValueError", y >= 0, node, "negative shift count")
        return x >> y
      return self.th.rshift(self, st, x, y, node)
    if isinstance(op, (ast.BitAnd, ast.BitOr, ast.BitXor)):
      if conc:
        return x & y if isinstance(op, ast.BitAnd) else (x | y if isinstance(op, ast.BitOr) else x ^ y)
      return self.th.bitop(self, st, op, x, y, node)
    raise Unsupported(f"binop {type(op).__name__}")

  def divmod_terms(self, st, x, y, node):
    """Python floor division/modulo of ints as (q, r)."""
    if isinstance(x, int) and isinstance(y, int):
      self.implicit(st, "ZeroDivisionError", y != 0, node, "division by zero")
      return x // y, x % y
    self.implicit(st, "ZeroDivisionError", (y != 0) if isinstance(y, int) else (to_z3(y) != 0), node,
                  "division by zero")
    if isinstance(y, int) and y > 0:
      xx = to_z3(x)
      return xx / y, xx % y
    # general divisor: Python floor semantics, encoded without fresh symbols and without consulting the solver
    # (deterministic): for y > 0 SMT-LIB div/mod ARE floor division; for y < 0 floor(x/y) = (-x) div (-y) and
    # x % y = -((-x) mod (-y)).
    yy = to_z3(y)
    xx = to_z3(x)
    if self.th.syntactically_positive(yy):
      return xx / yy, xx % yy
    return (z3.If(yy > 0, xx / yy, (-xx) / (-yy)), z3.If(yy > 0, xx % yy, -((-xx) % (-yy))))

  def known(self, st, fact):
    """True if the path condition implies `fact` (cheap check)."""
    s = z3.Solver()
    self._budget(s)
    for f in st.pc:
      s.add(f)
    s.add(z3.Not(fact))
    return s.check() == z3.unsat

  def floordiv(self, st, x, y, node):
    return self.divmod_terms(st, x, y, node)[0]

  def mod(self, st, x, y, node):
    cm = st.__dict__.get("cong_mod")
    if cm is not None and not st.spec and is_sym(y) and y.eq(cm):
      # congruence mode: drop the reduction, remember that the value is only defined up to multiples of the modulus
      xx = to_z3(x)
      st.__dict__.setdefault("reduced_ids", set()).add(xx.get_id())
      st.__dict__.setdefault("reduced_keep", []).append(xx)
      return xx
    return self.divmod_terms(st, x, y, node)[1]

  def _tainted(self, st, v):
    ids = st.__dict__.get("reduced_ids")
    if not ids or not is_sym(v):
      return False
    stack, seen = [v], set()
    while stack:
      t = stack.pop()
      i = t.get_id()
      if i in seen:
        continue
      seen.add(i)
      if i in ids:
        return True
      stack.extend(t.children())
    return False

  # ---- attribute / subscript / call

  def ev_Attribute(self, node, st):
    base = self.ev(node.value, st)
    return self.getattr(st, base, node.attr, node)

  def getattr(self, st, base, attr, node=None):
    if isinstance(base, ModV):
      return self.module_attr(st, base, attr)
    if isinstance(base, Ptr):
      o = st.deref(base)
      if isinstance(o, HRec):
        if attr in o.fields:
          return o.fields[attr]
        m = self.find_method(o.cls, attr)
        if m is not None:
          return FuncV("method", m[1], node=m[2], selfv=base, module=m[0])
        r = self.class_attr(st, o.cls, attr)
        if r is not NotImplemented:
          return r
        r = self.th.rec_attr(self, st, base, o, attr)
        if r is not None:
          return r
        if attr == "__class__":
          return Opaque("type(self)")      # the run-time class (a subclass of the static one): unknown
        raise Unsupported(f"attribute {o.cls}.{attr}")
      return FuncV("builtin_method", attr, selfv=base)
    if isinstance(base, Opt):
      self.implicit(st, "AttributeError", self.not_(base.isnone), node, f"None.{attr}")
      return self.getattr(st, base.val, attr, node)
    if isinstance(base, ElemRef):
      o = st.deref(base.ptr)
      if attr not in o.fields:
        raise Unsupported(f"field {attr} of {o.cls}")
      return V.select_rep(o.fields[attr], o.reps[attr], to_z3(base.idx))
    if isinstance(base, Ref):
      return self.th.ref_attr(self, st, base, attr, node)
    if isinstance(base, FuncV) and base.kind == "class":
      key = (base.name, attr)
      if key in base.module.class_assigns:
        fr = Frame({}, None, base.module)
        st.frames.append(fr)
        try:
          return self.ev(base.module.class_assigns[key], st)
        finally:
          st.frames.pop()
      q = f"{base.name}.{attr}"
      if q in base.module.funcs:
        return FuncV("repo", q, node=base.module.funcs[q], module=base.module)
      raise Unsupported(f"class attribute {base.name}.{attr}")
    if isinstance(base, Opaque):
      if base.why == "type(self)" and attr == "__name__":
        return StrV(z3.Const(V.fresh_name("class_name"), V.StrSort))     # arbitrary string
      return FuncV("builtin_method", attr, selfv=base)
    if isinstance(base, self.th.EnumV):
      if attr in base.members:
        return base.members[attr]
      raise Unsupported(f"enum member {base.name}.{attr}")
    if base is None:
      self.implicit(st, "AttributeError", False, node, f"None.{attr}")
    if isinstance(base, int) and attr in ("name", "value"):
      return Opaque(f"enum member .{attr}")     # enum.Enum members are modelled by their values
    return FuncV("builtin_method", attr, selfv=base)

  def class_attr(self, st, cls, attr):
    """Class-level constant (e.g. ROCAKeyDetector.PRIMES) of a repo class, evaluated from the working tree."""
    if cls is None or "::" not in cls:
      return NotImplemented
    rel, cname = cls.split("::")
    mod = source.load(rel, self.repo)
    key = (cname, attr)
    if key in mod.class_assigns:
      fr = Frame({}, None, mod)
      st.frames.append(fr)
      try:
        return self.ev(mod.class_assigns[key], st)
      finally:
        st.frames.pop()
    return NotImplemented

  def find_method(self, cls, name, _depth=0):
    """Finds method `name` of repo class `cls` ('relpath::Class'), following base classes within the repo."""
    if cls is None or "::" not in cls or _depth > 6:
      return None
    rel, cname = cls.split("::")
    mod = source.load(rel, self.repo)
    q = f"{cname}.{name}"
    if q in mod.funcs:
      return (mod, q, mod.funcs[q])
    for b in mod.bases(cname):
      parts = b.split("[")[0].split(".")
      if len(parts) == 1:
        if parts[0] in mod.classes:
          r = self.find_method(f"{rel}::{parts[0]}", name, _depth + 1)
          if r:
            return r
        elif parts[0] in mod.imports and isinstance(mod.imports[parts[0]], tuple):
          mname, attr = mod.imports[parts[0]]
          rel2 = source.module_relpath(mname)
          if rel2:
            r = self.find_method(f"{rel2}::{attr}", name, _depth + 1)
            if r:
              return r
      else:
        imp = mod.imports.get(parts[0])
        dotted = None
        if isinstance(imp, tuple):
          dotted = imp[0] + "." + imp[1]
        elif isinstance(imp, str):
          dotted = imp
        if dotted:
          rel2 = source.module_relpath(".".join([dotted] + parts[1:-1]))
          if rel2:
            r = self.find_method(f"{rel2}::{parts[-1]}", name, _depth + 1)
            if r:
              return r
    return None

  def ev_Subscript(self, node, st):
    base = self.ev(node.value, st)
    if isinstance(node.slice, ast.Slice):
      lo = self.ev(node.slice.lower, st) if node.slice.lower else None
      hi = self.ev(node.slice.upper, st) if node.slice.upper else None
      step = self.ev(node.slice.step, st) if node.slice.step else None
      return self.th.slice_(self, st, base, lo, hi, step, node)
    idx = self.ev(node.slice, st)
    return self.index(st, base, idx, node)

  def index(self, st, base, idx, node):
    if isinstance(base, Opt):
      self.implicit(st, "TypeError", self.not_(base.isnone), node, "None is not subscriptable")
      base = base.val
    if isinstance(base, Opaque):
      return Opaque(base.why + "[]")
    if isinstance(base, (tuple, str, bytes)):
      if isinstance(idx, bool) or not isinstance(idx, int):
        i = self.need_int(st, idx, node)
        if isinstance(i, int):
          idx = i
        else:
          return self.th.tuple_sym_index(self, st, base, i, node)
      self.implicit(st, "IndexError", -len(base) <= idx < len(base), node, "tuple index out of range")
      return base[idx]
    if isinstance(base, Ptr):
      o = st.deref(base)
      if isinstance(o, HList):
        return self.th.list_get(self, st, o, idx, node)
      if isinstance(o, HDict):
        return self.th.dict_get(self, st, o, idx, node)
      if isinstance(o, HRec):
        return self.th.rec_index(self, st, base, o, idx, node)
      if isinstance(o, HRecList):
        i = self.th._norm_index(self, st, o.length, idx, node)
        return ElemRef(base, i)
      if isinstance(o, HPointMap):
        if not (isinstance(idx, tuple) and len(idx) == 2):
          raise Unsupported("point map indexed by a non-pair")
        return PMEntry(base, idx)
    if isinstance(base, BytesV):
      return self.th.bytes_index(self, st, base, idx, node)
    if isinstance(base, Ref):
      return self.th.ref_index(self, st, base, idx, node)
    if base is None:
      self.implicit(st, "TypeError", False, node, "None is not subscriptable")
    raise Unsupported(f"subscript of {type(base).__name__}")

  def ev_Call(self, node, st):
    # spec-only functions with binding structure
    if st.spec and isinstance(node.func, ast.Name):
      r = self.th.spec_call(self, st, node)
      if r is not NotImplemented:
        return r
    f = self.ev(node.func, st)
    args = []
    for a in node.args:
      if isinstance(a, ast.Starred):
        args.extend(self.iter_concrete(st, self.ev(a.value, st)))
      else:
        args.append(self.ev(a, st))
    kwargs = {k.arg: self.ev(k.value, st) for k in node.keywords}
    return self.call(st, f, args, kwargs, node)

  def call(self, st, f, args, kwargs, node):
    if isinstance(f, FuncV):
      if f.kind == "nested":
        return self.inline(st, f, args, kwargs, node)
      if f.kind in ("repo", "method"):
        return self.call_repo(st, f, args, kwargs, node)
      if f.kind == "class":
        return self.th.construct(self, st, f, args, kwargs, node)
      if f.kind == "builtin":
        return self.th.call_builtin(self, st, f.name, args, kwargs, node)
      if f.kind == "builtin_method":
        return self.th.call_method(self, st, f.selfv, f.name, args, kwargs, node)
      if f.kind == "lib":
        return self.th.call_lib(self, st, f.name, args, kwargs, node)
    if isinstance(f, Opaque):
      self.abstracted.add(f"call of abstracted callee {f.why} at L{getattr(node, 'lineno', 0)}")
      return Opaque(f"{f.why}()")
    raise Unsupported(f"call of {f!r}")

  def iter_concrete(self, st, v):
    if isinstance(v, (tuple, str, bytes, range)):
      return list(v)
    if isinstance(v, Ptr):
      o = st.deref(v)
      if isinstance(o, HList) and not o.symbolic:
        return list(o.items)
      if isinstance(o, HDict) and not o.symbolic:
        return [self.th.unhash(k) for k in o.items]
      if isinstance(o, HSet) and o.items is not None:
        return [self.th.unhash(k) for k in o.items]
    raise Unsupported("iteration over symbolic sequence in this position")

  # ---- repo calls

  def bind_args(self, fn_node, args, kwargs, st, frame_for_defaults, skip_self=False):
    a = fn_node.args
    names = [x.arg for x in a.posonlyargs + a.args]
    if skip_self:
      names = names[1:]
    if len(args) > len(names) and not a.vararg:
      raise Unsupported("too many positional arguments")
    env = dict(zip(names, args))
    defaults = a.defaults
    dnames = names[len(names) - len(defaults):] if defaults else []
    for k, v in kwargs.items():
      if k not in names and k not in [x.arg for x in a.kwonlyargs]:
        raise Unsupported(f"unexpected keyword {k}")
      env[k] = v
    for n, d in zip(dnames, defaults):
      if n not in env:
        st.frames.append(frame_for_defaults)
        try:
          env[n] = self.ev(d, st)
        finally:
          st.frames.pop()
    for x, d in zip(a.kwonlyargs, a.kw_defaults):
      if x.arg not in env and d is not None:
        st.frames.append(frame_for_defaults)
        try:
          env[x.arg] = self.ev(d, st)
        finally:
          st.frames.pop()
    for n in names:
      if n not in env:
        raise Unsupported(f"missing argument {n}")
    return env

  def qual_target(self, f):
    return f"{f.module.relpath}::{f.name}"

  MEMO_DECORATORS = {"lru_cache", "cache", "cached_property", "memoize", "memoized"}

  @classmethod
  def memoised_mutable(cls, fn):
    """Name of a memoising decorator on fn when fn's result is (or may be) a mutable object: every caller then gets
    the SAME object, and an in-place update by one caller changes what all later callers see - state outside the
    arguments, which the functional reading of contracts (and of inlined bodies) excludes."""
    if not isinstance(fn, (ast.FunctionDef, ast.AsyncFunctionDef)):
      return None
    for d in fn.decorator_list:
      core = d.func if isinstance(d, ast.Call) else d
      name = core.attr if isinstance(core, ast.Attribute) else (core.id if isinstance(core, ast.Name) else "")
      if name in cls.MEMO_DECORATORS:
        ann = ast.unparse(fn.returns) if fn.returns is not None else ""
        head = ann.split("[")[0].split(".")[-1].strip("'\" ")
        if head in ("int", "str", "bytes", "bool", "float", "tuple", "frozenset", "None", "mpz") and "list" not in ann \
            and "set[" not in ann.replace("frozenset[", "") and "dict" not in ann:
          return None
        return name
    return None

  def call_repo(self, st, f, args, kwargs, node):
    target = self.qual_target(f)
    memo = self.memoised_mutable(f.node)
    if memo and self.cur is not None:
      self.emit(State([]), "frame", f"{self.cur.qual}/frame:no state outside the arguments (memoised {target})", False,
                clause=f"{target} is memoised ({memo}) and returns a mutable object: the object is shared by all callers, "
                       f"so the result of {self.cur.qual} may depend on earlier calls")
    c = C.REGISTRY.get(target)
    is_method = f.kind == "method"
    if c is None or c.inline:
      conc = all(isinstance(a, (int, str, bytes, bool, float, tuple)) or a is None for a in list(args) + list(kwargs.values()))
      if c is None and not conc and not self.th.may_inline(f):
        self.abstracted.add(f"call of {target} without contract (treated as opaque pure call)")
        return Opaque(f"{target}()")
      return self.inline(st, f, ([f.selfv] if is_method else []) + list(args), kwargs, node)
    return self.apply_contract(st, c, f, args, kwargs, node)

  def apply_contract(self, st, c, f, args, kwargs, node):
    line = getattr(node, "lineno", 0)
    is_method = f.kind == "method" or (f.node.args.args and f.node.args.args[0].arg == "self" and "." in f.name)
    selfv = f.selfv
    if is_method and selfv is None and args:
      selfv, args = args[0], args[1:]
    env = self.bind_args(f.node, args, kwargs, st, Frame({}, None, f.module), skip_self=is_method)
    for n, t in c.params.items():
      if n in env:
        env[n] = self.coerce_heap(st, t, env[n])
    if is_method:
      env["self"] = selfv
    if c.assumed:
      self.assumed_contracts.add(c.target)
    self.called_contracts.add(c.target)
    if st.nofresh:
      if c.returns_expr is None:
        raise Unsupported(f"call of {c.qual} inside a comprehension/quantifier needs a functional contract (returns_expr)")
      fr = Frame(env, None, f.module, fname=c.qual)
      st.frames.append(fr)
      st.spec_depth += 1
      try:
        return self.ev(ast.parse(c.returns_expr, mode="eval").body, st)
      finally:
        st.spec_depth -= 1
        st.frames.pop()
    fr = Frame(env, None, f.module, fname=c.qual)
    st.frames.append(fr)
    st.spec_depth += 1
    try:
      for cl in c.requires:
        if cl.props and "VALUE" in cl.props and not getattr(self, "value_pass", False):
          continue      # field hypotheses of the callee's value pass: only a caller's value pass has to supply them
        g = self.truthy(st, self.ev(cl.node, st))
        self.emit(st, "call-pre", f"{self.cur.qual}/call-pre:{c.qual}@{self.loc(node)}:{cl.text}", g, clause=cl.text,
                  line=line, props=None)
        st.assume(g)
      raise_conds = []
      for exc, cl in c.raises.items():
        if cl is None and exc in c.raises_only_if:
          raise_conds.append((exc, ("only_if", self.truthy(st, self.ev(c.raises_only_if[exc].node, st)))))
        elif cl is None:
          raise_conds.append((exc, None))
        else:
          raise_conds.append((exc, self.truthy(st, self.ev(cl.node, st))))
    finally:
      st.spec_depth -= 1
      st.frames.pop()
    for exc, cond in raise_conds:
      if isinstance(cond, tuple) and cond[0] == "only_if":
        only = cond[1]
        if isinstance(only, bool) and not only:
          continue
        if not isinstance(only, bool) and z3.is_false(z3.simplify(only)):
          continue
        if self.choose(st, None):       # may raise - and then the condition held on entry
          st.assume(only)
          raise Raised(exc, info=f"from {c.qual}")
        continue
      if self.choose(st, cond):
        raise Raised(exc, info=f"from {c.qual}")
    # snapshot for old()
    old_env = dict(env)
    old_snap = self.snapshot(st, env)
    for name in c.modifies:
      self.havoc_value(st, self.ev(ast.parse(name, mode="eval").body, self._with_frame(st, fr)), name)
      st.frames.pop()
    result = self.fresh_result(st, c, env, f)
    env2 = dict(env)
    env2["result"] = result
    fr2 = Frame(env2, None, f.module, fname=c.qual)
    st.frames.append(fr2)
    st.spec_depth += 1
    prev_old = st.old
    st.old = (old_env, old_snap)
    try:
      clauses = c.caller_ensures if c.caller_ensures is not None else c.ensures + c.defines
      if (st.__dict__.get("cong_mod") is not None and getattr(c, "congruence_mod", None) and c.caller_ensures is not None
          and c.congruence_mod == getattr(self.cur, "congruence_mod", None)):
        # ring pass calling a ring-mode callee over the same modulus: the callee's ring postconditions are integer
        # identities of ITS ring execution, which is what the caller's ring execution calls (both drop `% mod`)
        seen = {cl.text for cl in clauses}
        clauses = list(clauses) + [cl for cl in c.ensures + c.defines
                                   if cl.text not in seen and not (cl.props and "VALUE" in cl.props)]
      for cl in clauses:
        if cl.text in c.caller_assumed:
          where = getattr(c, "proved_by_aspect", {}).get(cl.text)
          if where:
            self.abstracted.add(f"clause of {c.qual} used at a call site; proved under the function's second contract "
                                f"{where} (the link between the two statements is by inspection): {cl.text}")
          else:
            self.abstracted.add(f"assumed clause of {c.qual} (not proved from its body): {cl.text}")
        st.assume(self.truthy(st, self.ev(cl.node, st)))
      for gname, expr in c.effects:
        st.ghost[gname] = self.ev(ast.parse(expr, mode="eval").body, st)
    finally:
      st.old = prev_old
      st.spec_depth -= 1
      st.frames.pop()
    hooks = self.cur.on_call.get(c.target) if (self.cur is not None and len(st.frames) == 1) else None
    if hooks:
      pnames = [a.arg for a in f.node.args.args if a.arg != "self"]
      argv = tuple(env.get(n) for n in pnames)
      self.run_ghost(st, hooks, {"args": argv, "ret": result}, f"{self.cur.qual}/at-call:{c.qual}@{self.loc(node)}", line)
    if self.cur is not None and len(st.frames) == 1 and c.qual.split(".")[-1] in getattr(self.cur, "stop_after", ()):
      self.abstracted.add(f"body of {self.cur.qual} after the call of {c.qual} at L{line} (floating-point tail): assumed "
                          "to return normally")
      raise TailAbstracted()
    return result

  def run_ghost(self, st, stmts, extra, label, line):
    """Executes ghost statements in the current function frame: `x = e`, `assert e` (obligation), `hint e`."""
    env = st.frame.env
    saved = {k: env.get(k, None) for k in extra}
    had = {k: (k in env) for k in extra}
    env.update(extra)
    st.spec_depth += 1
    gscopes = []       # begin_scope / end_scope: theory instances and lemma applications are dropped at the end of the
    try:               # scope, the asserted facts are kept (dropping derived hypotheses is always sound)
      for text in stmts:
        text = " ".join(text.split())
        if text == "begin_scope":
          gscopes.append((len(st.pc), []))
          continue
        if text == "stop":
          # the rest of the function is outside what this (partial, second) contract talks about
          self.abstracted.add(f"body of {self.cur.qual} behind {label.split('/')[-1]}: not analysed under this "
                              "contract, assumed to return normally")
          raise TailAbstracted()
        if text == "end_scope":
          n0, keep = gscopes.pop()
          del st.pc[n0:]
          for g0 in keep:
            st.assume(g0)
          continue
        if text.startswith("assert ") or text.startswith("check "):
          only_check = text.startswith("check ")      # obligation that is NOT added to the path condition afterwards
          body = text[7:] if not only_check else text[6:]
          props = None
          if body.startswith("["):   # assert [C01] expr
            tag, _, body = body[1:].partition("]")
            props = set(t.strip() for t in tag.split(","))
            if self.prop == "__value_pass__":
              if "VALUE" not in props:
                continue
            elif "VALUE" in props or (self.prop is not None and self.prop not in props):
              continue
          elif self.prop == "__value_pass__":
            pass
          btxt = body.strip()
          if (btxt.startswith("by(") or (btxt.startswith("implies(") and ", by(" in btxt)) and not only_check:
            # isolated-premise hint at a hook site: same semantics as in hint lists
            st.spec_depth -= 1
            n_before = len(st.pc)
            try:
              self.process_hints(st, [C.Clause(btxt)], {}, label, line)
            finally:
              st.spec_depth += 1
            if gscopes and len(st.pc) > n_before:
              gscopes[-1][1].append(st.pc[-1])
            continue
          g = self.truthy(st, self.ev(ast.parse(body.strip(), mode="eval").body, st))
          n_pc = len(st.pc)
          self.emit(st, "call-site", f"{label}:{body.strip()}", g, clause=body.strip(), line=line, props=props)
          if only_check:
            del st.pc[n_pc:]
          else:
            st.assume(g)
            if gscopes and not isinstance(g, bool):
              gscopes[-1][1].append(g)
        elif text.startswith("let ") or "=" in text.split("(")[0]:
          t2 = text[4:] if text.startswith("let ") else text
          name, _, expr = t2.partition("=")
          env[name.strip()] = self.ev(ast.parse(expr.strip(), mode="eval").body, st)
        else:
          self.truthy(st, self.ev(ast.parse(text, mode="eval").body, st))   # theory-instantiating call (euclid...)
    finally:
      st.spec_depth -= 1
      for k in extra:
        if had[k]:
          env[k] = saved[k]
        else:
          env.pop(k, None)

  def fresh_result(self, st, c, env, f):
    t = parse_type(c.returns)
    name = f"{c.qual.split('.')[-1]}.ret"
    elem = None
    if isinstance(t, tuple) and t[0] == "elem":
      elem, opt = t[1], False
    elif isinstance(t, tuple) and t[0] == "opt" and isinstance(t[1], tuple) and t[1][0] == "elem":
      elem, opt = t[1][1], True
    if elem is None:
      return self.fresh_heap(st, c.returns, name)
    fr = Frame(dict(env), None, f.module, fname=c.qual)
    st.frames.append(fr)
    try:
      ptr = self.ev(ast.parse(elem, mode="eval").body, st)
    finally:
      st.frames.pop()
    idx = z3.Int(V.fresh_name(name + ".idx"))
    e = ElemRef(ptr, idx)
    return Opt(z3.Bool(V.fresh_name(name + ".isnone")), e) if opt else e

  def _with_frame(self, st, fr):
    st.frames.append(fr)
    return st

  def snapshot(self, st, env):
    """Copies the heap objects reachable from env (for old())."""
    snap = {}

    def visit(v):
      if isinstance(v, Ptr) and v.addr in st.heap and v.addr not in snap:
        o = st.heap[v.addr]
        snap[v.addr] = o.clone()
        if isinstance(o, HRec):
          for x in o.fields.values():
            visit(x)
        elif isinstance(o, HList) and not o.symbolic:
          for x in o.items:
            visit(x)
      elif isinstance(v, (tuple, list)):
        for x in v:
          visit(x)
      elif isinstance(v, Opt):
        visit(v.val)
      elif isinstance(v, ElemRef):
        visit(v.ptr)
    for v in env.values():
      visit(v)
    return snap

  def inline(self, st, f, args, kwargs, node):
    closure = f.env if f.kind == "nested" else None
    fr0 = Frame({}, closure, f.module)
    env = self.bind_args(f.node, args, kwargs, st, fr0)
    fr = Frame(env, closure, f.module, fname=f.name)
    if len(st.frames) > 40:
      raise Unsupported("inlining depth")
    st.frames.append(fr)
    try:
      self.exec_block(source.strip_docstring(f.node.body), st)
      return None
    except ReturnSig as r:
      return r.value
    finally:
      st.frames.pop()

  # ================================================================================================================
  # heap-aware fresh / havoc / coercion

  def fresh_heap(self, st, t, name):
    t = parse_type(t)
    if isinstance(t, tuple) and t[0] == "list":
      n = z3.Int(V.fresh_name(name + ".len"))
      st.assume(n >= 0)
      return st.alloc(HList(items=None, length=n, elem_t=t[1], rep=V.fresh_rep(t[1], name)))
    if isinstance(t, tuple) and t[0] == "dict":
      return st.alloc(self.th.fresh_dict(self, st, t, name))
    if isinstance(t, tuple) and t[0] == "intset":
      f = z3.Function(V.fresh_name(name + ".mem"), z3.IntSort(), z3.BoolSort())
      return st.alloc(HSet(items=None, mem=lambda item, f=f: f(to_z3(self.need_int(st, item)))))
    if isinstance(t, tuple) and t[0] == "opt" and isinstance(t[1], tuple) and t[1][0] in ("list", "dict", "intset"):
      return Opt(z3.Bool(V.fresh_name(name + ".isnone")), self.fresh_heap(st, t[1], name))
    if isinstance(t, tuple) and t[0] == "tuple" and any(self._needs_heap(x) for x in t[1]):
      return tuple(self.fresh_heap(st, ti, f"{name}.{i}") for i, ti in enumerate(t[1]))
    if isinstance(t, tuple) and t[0] == "obj":
      c = C.REGISTRY.get(t[1] + ".__fields__")
      fields = {}
      if c is not None:
        for fname, ft in c.self_fields.items():
          fields[fname] = self.fresh_heap(st, ft, f"{name}.{fname}")
      return st.alloc(HRec(t[1], fields))
    if isinstance(t, tuple) and t[0] == "rec":
      return self.th.fresh_rec(self, st, t, name)
    if isinstance(t, tuple) and t[0] == "opt" and isinstance(t[1], tuple) and t[1][0] == "rec":
      return Opt(z3.Bool(V.fresh_name(name + ".isnone")), self.th.fresh_rec(self, st, t[1], name))
    v = V.fresh(t, name)
    st.assume(*V.type_constraints(t, v))
    self._bytes_wf(st, v)
    return v

  def _bytes_wf(self, st, v):
    if isinstance(v, BytesV) and is_sym(v.val):
      st.assume(v.val < self.th.t_pow2(self, st, 8 * v.length))
    elif isinstance(v, tuple):
      for x in v:
        self._bytes_wf(st, x)
    elif isinstance(v, Opt):
      self._bytes_wf(st, v.val)

  def _needs_heap(self, t):
    t = parse_type(t)
    if isinstance(t, tuple):
      if t[0] in ("list", "dict", "rec"):
        return True
      if t[0] == "opt":
        return self._needs_heap(t[1])
      if t[0] == "tuple":
        return any(self._needs_heap(x) for x in t[1])
    return False

  def coerce_heap(self, st, t, v):
    t = parse_type(t)
    if isinstance(t, tuple) and t[0] in ("list", "dict", "rec", "ref", "elem", "obj", "intset"):
      return v
    if isinstance(t, tuple) and t[0] == "opt" and isinstance(t[1], tuple) and t[1][0] in ("elem", "rec", "list", "intset"):
      if v is None:
        return Opt(True, None)
      return v if isinstance(v, Opt) else Opt(False, v)
    if t in ("opaque",):
      return v
    try:
      return V.coerce(t, v)
    except TypeError:
      return v

  def value_type(self, st, v):
    if isinstance(v, Ptr):
      o = st.deref(v)
      if isinstance(o, HList):
        if o.symbolic:
          return ("list", o.elem_t)
        t = None
        for it in o.items:
          ti = self.value_type(st, it)
          t = ti if t is None else V.join_types(t, ti)
        return ("list", t or "int")
      raise TypeError("value_type of heap object")
    return V.type_of(v)

  def havoc_value(self, st, v, name, decl_t=None, keep_len=False):
    """Havocs a value in place (heap objects) or returns a fresh one of the same type."""
    if isinstance(v, Ptr):
      o = st.deref(v)
      if isinstance(o, HList):
        et = parse_type(decl_t)[1] if decl_t else (o.elem_t if o.symbolic else self.value_type(st, v)[1])
        if keep_len:
          length = o.length if o.symbolic else len(o.items)
        else:
          length = z3.Int(V.fresh_name(name + ".len"))
          st.assume(length >= 0)
        o.items, o.length, o.elem_t, o.rep = None, length, et, V.fresh_rep(et, name)
        return v
      if isinstance(o, HRec):
        for k in list(o.fields):
          o.fields[k] = self.havoc_value(st, o.fields[k], f"{name}.{k}")
        return v
      if isinstance(o, HDict):
        self.th.havoc_dict(self, st, o, name, decl_t)
        return v
      if isinstance(o, HSet):
        self.th.havoc_set(self, st, o, name)
        return v
      if isinstance(o, HPointMap):
        o.term = z3.Const(V.fresh_name(name + ".pointmap"), V.RefSort)
        return v
      if isinstance(o, HRecList):
        for k, ft in o.fields.items():
          o.reps[k] = V.fresh_rep(ft, f"{name}.{k}")
        if not keep_len:
          o.length = z3.Int(V.fresh_name(name + ".len"))
          st.assume(o.length >= 0)
        return v
      raise Unsupported("havoc of heap object")
    if isinstance(v, Opaque):
      return v
    if isinstance(v, (FuncV, ModV)):
      return v
    t = parse_type(decl_t) if decl_t else V.type_of(v)
    return self.fresh_heap(st, t, name)

  # ================================================================================================================
  # statements

  def exec_block(self, stmts, st):
    for s in stmts:
      self.exec_stmt(s, st)

  def exec_stmt(self, s, st):
    m = getattr(self, "st_" + type(s).__name__, None)
    if m is None:
      raise Unsupported(f"statement {type(s).__name__}")
    return m(s, st)

  def st_Expr(self, s, st):
    if isinstance(s.value, ast.Constant):
      return
    self.ev(s.value, st)

  def st_Pass(self, s, st):
    return

  def st_Assert(self, s, st):
    c = self.truthy(st, self.ev(s.test, st))
    if not self.choose(st, c):
      raise Raised("AssertionError")

  def st_Delete(self, s, st):
    for t in s.targets:
      if isinstance(t, ast.Name):
        st.frame.env.pop(t.id, None)
      else:
        raise Unsupported("del of non-name")

  def st_Import(self, s, st):
    for a in s.names:
      st.frame.env[a.asname or a.name.split(".")[0]] = ModV(a.name if a.asname else a.name.split(".")[0])

  def st_ImportFrom(self, s, st):
    for a in s.names:
      st.frame.env[a.asname or a.name] = self.module_attr(st, ModV(s.module), a.name)

  def st_FunctionDef(self, s, st):
    st.frame.env[s.name] = FuncV("nested", s.name, node=s, env=st.frame, module=st.frame.module)

  def st_Return(self, s, st):
    raise ReturnSig(self.ev(s.value, st) if s.value is not None else None)

  def st_Break(self, s, st):
    raise BreakSig()

  def st_Continue(self, s, st):
    raise ContinueSig()

  def st_Raise(self, s, st):
    if s.exc is None:
      raise Raised("<reraise>")
    e = s.exc
    name = None
    if isinstance(e, ast.Call):
      for a in e.args:
        try:
          self.ev(a, st)
        except (Unsupported, Undecidable):
          pass
      e = e.func
    if isinstance(e, ast.Name):
      name = e.id
    elif isinstance(e, ast.Attribute):
      name = e.attr
    else:
      raise Unsupported("raise of computed exception")
    raise Raised(name)

  def st_Try(self, s, st):
    if s.finalbody:
      raise Unsupported("try/finally")
    try:
      self.exec_block(s.body, st)
    except Raised as r:
      for h in s.handlers:
        names = []
        if h.type is None:
          names = None
        elif isinstance(h.type, ast.Tuple):
          names = [ast.unparse(x).split(".")[-1] for x in h.type.elts]
        else:
          names = [ast.unparse(h.type).split(".")[-1]]
        if names is None or r.exc in names or "Exception" in names or self.th.exc_subclass(r.exc, names):
          if h.name:
            st.frame.env[h.name] = Opaque("exception object")
          self.exec_block(h.body, st)
          return
      raise
    else:
      self.exec_block(s.orelse, st)

  def st_If(self, s, st):
    c = self.truthy(st, self.ev(s.test, st))
    if self.choose(st, c):
      self.exec_block(s.body, st)
    else:
      self.exec_block(s.orelse, st)

  def st_Assign(self, s, st):
    v = self.ev(s.value, st)
    for t in s.targets:
      self.assign(st, t, v)
      if (isinstance(t, ast.Name) and self.cur is not None and len(st.frames) == 1 and not st.spec
          and t.id in getattr(self.cur, "on_assign", {})):
        self.run_ghost(st, self.cur.on_assign[t.id], {}, f"{self.cur.qual}/at-assign:{t.id}@{self.loc(s)}", s.lineno)
      nkey = getattr(self, "name_assign_ord", {}).get(id(s))
      if (nkey is not None and isinstance(t, ast.Name) and self.cur is not None and len(st.frames) == 1 and not st.spec
          and nkey in getattr(self.cur, "on_assign", {})):
        self.run_ghost(st, self.cur.on_assign[nkey], {}, f"{self.cur.qual}/at-assign:{nkey}", s.lineno)
      key = getattr(self, "sub_assign_ord", {}).get(id(s))
      if (key is not None and isinstance(t, ast.Subscript) and self.cur is not None and len(st.frames) == 1
          and not st.spec and key in getattr(self.cur, "on_assign", {})):
        self.run_ghost(st, self.cur.on_assign[key], {}, f"{self.cur.qual}/at-assign:{key}", s.lineno)

  def st_AnnAssign(self, s, st):
    if s.value is not None:
      self.assign(st, s.target, self.ev(s.value, st))

  def st_AugAssign(self, s, st):
    if isinstance(s.target, ast.Name):
      cur = self.lookup(st, s.target.id)
    elif isinstance(s.target, ast.Attribute):
      base = self.ev(s.target.value, st)
      cur = self.getattr(st, base, s.target.attr, s)
    elif isinstance(s.target, ast.Subscript):
      base = self.ev(s.target.value, st)
      idx = self.ev(s.target.slice, st)
      cur = self.index(st, base, idx, s)
    else:
      raise Unsupported("augassign target")
    rhs = self.ev(s.value, st)
    if isinstance(cur, Ptr) and isinstance(s.op, ast.Add):
      self.th.list_extend(self, st, cur, rhs, s)
      return
    if isinstance(s.op, ast.BitOr) and (is_bool_like(cur) and is_bool_like(rhs)):
      new = self.or_(cur, rhs)
    else:
      new = self.binop(st, s.op, cur, rhs, s)
    if isinstance(s.target, ast.Name):
      self.assign(st, s.target, new)
    elif isinstance(s.target, ast.Attribute):
      self.setattr(st, base, s.target.attr, new, s)
    else:
      self.setitem(st, base, idx, new, s)

  def assign(self, st, target, v):
    if isinstance(target, ast.Name):
      if (self.cur is not None and len(st.frames) == 1 and target.id in getattr(self.cur, "var_types", {})
          and isinstance(v, Ptr) and isinstance(st.deref(v), HList)):
        self.th.retype_list(self, st, st.deref(v), self.cur.var_types[target.id])
      st.frame.env[target.id] = v
    elif isinstance(target, (ast.Tuple, ast.List)):
      items = self.unpack(st, v, len(target.elts), target)
      for t, x in zip(target.elts, items):
        self.assign(st, t, x)
    elif isinstance(target, ast.Attribute):
      base = self.ev(target.value, st)
      self.setattr(st, base, target.attr, v, target)
    elif isinstance(target, ast.Subscript):
      base = self.ev(target.value, st)
      if isinstance(target.slice, ast.Slice):
        return self.th.slice_assign(self, st, base, target.slice, v, target)
      idx = self.ev(target.slice, st)
      self.setitem(st, base, idx, v, target)
    else:
      raise Unsupported("assignment target")

  def unpack(self, st, v, n, node):
    if isinstance(v, Opt):
      self.implicit(st, "TypeError", self.not_(v.isnone), node, "cannot unpack None")
      v = v.val
    if isinstance(v, tuple):
      if len(v) != n:
        self.implicit(st, "ValueError", False, node, "unpack arity")
      return list(v)
    if isinstance(v, Ptr):
      o = st.deref(v)
      if isinstance(o, HList) and not o.symbolic:
        if len(o.items) != n:
          self.implicit(st, "ValueError", False, node, "unpack arity")
        return list(o.items)
      if isinstance(o, HList):
        self.implicit(st, "ValueError", to_z3(o.length) == n, node, "unpack arity")
        return [self.th.list_get(self, st, o, i, node) for i in range(n)]
    if isinstance(v, Opaque):
      return [Opaque(v.why + f"[{i}]") for i in range(n)]
    if v is None:
      self.implicit(st, "TypeError", False, node, "cannot unpack None")
    raise Unsupported(f"unpack of {type(v).__name__}")

  def setattr(self, st, base, attr, v, node):
    if isinstance(base, Ptr):
      o = st.deref(base)
      if isinstance(o, HRec):
        o.fields[attr] = v
        return
    if isinstance(base, Ref):
      return self.th.ref_setattr(self, st, base, attr, v, node)
    if isinstance(base, ElemRef):
      o = st.deref(base.ptr)
      if attr not in o.fields:
        raise Unsupported(f"field {attr} of {o.cls}")
      o.reps[attr] = V.store_rep(o.fields[attr], o.reps[attr], to_z3(base.idx), self.th.lift(self, st, o.fields[attr], v))
      return
    if isinstance(base, Opt):
      self.implicit(st, "AttributeError", self.not_(base.isnone), node, f"None.{attr} = ...")
      return self.setattr(st, base.val, attr, v, node)
    raise Unsupported(f"attribute assignment on {type(base).__name__}")

  def setitem(self, st, base, idx, v, node):
    if isinstance(base, Ptr):
      o = st.deref(base)
      if isinstance(o, HList):
        return self.th.list_set(self, st, o, idx, v, node)
      if isinstance(o, HDict):
        return self.th.dict_set(self, st, o, idx, v, node)
    raise Unsupported(f"item assignment on {type(base).__name__}")

  # ---- loops

  def loop_ordinal(self, node):
    if self.cur_loops is None:
      return None
    for i, l in enumerate(self.cur_loops):
      if l is node:
        return i
    return None

  def assigned_names(self, stmts):
    names = set()

    def tgt(t):
      if isinstance(t, ast.Name):
        names.add(t.id)
      elif isinstance(t, (ast.Tuple, ast.List)):
        for e in t.elts:
          tgt(e)
      elif isinstance(t, ast.Starred):
        tgt(t.value)

    class Vis(ast.NodeVisitor):
      def visit_Assign(s, n):
        for t in n.targets:
          tgt(t)
        s.generic_visit(n)

      def visit_AugAssign(s, n):
        tgt(n.target)
        s.generic_visit(n)

      def visit_AnnAssign(s, n):
        tgt(n.target)
        s.generic_visit(n)

      def visit_For(s, n):
        tgt(n.target)
        s.generic_visit(n)

      def visit_NamedExpr(s, n):
        tgt(n.target)
        s.generic_visit(n)

      def visit_FunctionDef(s, n):
        names.add(n.name)

      def visit_ListComp(s, n):
        pass

      def visit_SetComp(s, n):
        pass

      def visit_DictComp(s, n):
        pass

      def visit_GeneratorExp(s, n):
        pass

    v = Vis()
    for s in stmts:
      v.visit(s)
    return names

  def mutated_roots(self, stmts, st):
    """Names whose heap object may be mutated in stmts: subscript/attribute stores, mutating method calls, and names
    passed to calls (repo callee contracts with `modifies`, nested functions closing over them)."""
    roots = set()
    MUT = {"append", "pop", "add", "update", "extend", "insert", "remove", "clear", "sort", "reverse", "setdefault",
           "discard", "popitem"}

    def root(n):
      while isinstance(n, (ast.Subscript, ast.Attribute)):
        n = n.value
      return n.id if isinstance(n, ast.Name) else None

    for s in stmts:
      for n in ast.walk(s):
        if isinstance(n, (ast.Assign, ast.AugAssign, ast.AnnAssign)):
          ts = n.targets if isinstance(n, ast.Assign) else [n.target]
          for t in ts:
            for e in (t.elts if isinstance(t, (ast.Tuple, ast.List)) else [t]):
              if isinstance(e, (ast.Subscript, ast.Attribute)):
                r = root(e)
                if r:
                  roots.add(r)
        elif isinstance(n, ast.Call):
          if isinstance(n.func, ast.Attribute) and n.func.attr in MUT:
            r = root(n.func.value)
            if r:
              roots.add(r)
          if isinstance(n.func, ast.Attribute) and n.func.attr in ("heappush", "heappop", "heapify"):
            for a in n.args[:1]:
              r = root(a)
              if r:
                roots.add(r)
          # nested function calls: whatever they mutate through closure
          if isinstance(n.func, ast.Name):
            try:
              f = self.lookup(st, n.func.id)
            except Unsupported:
              f = None
            if isinstance(f, FuncV) and f.kind == "nested":
              roots |= self.mutated_roots(f.node.body, st)
          # repo callee with modifies clause
          tgt = self.static_callee(n, st)
          if tgt is not None:
            c = C.REGISTRY.get(tgt[0])
            if c is not None and c.modifies:
              fn = tgt[1]
              pnames = [a.arg for a in fn.args.args]
              if pnames and pnames[0] == "self":
                pnames = pnames[1:]
              for mname in c.modifies:
                base = mname.split(".")[0].split("[")[0]
                if base in pnames:
                  i = pnames.index(base)
                  if i < len(n.args):
                    r = root(n.args[i])
                    if r:
                      roots.add(r)
    return roots

  def static_callee(self, call, st):
    """Best-effort static resolution of a call to a repo function: (target, FunctionDef) or None."""
    try:
      saved = st.spec_depth
      f = None
      if isinstance(call.func, ast.Attribute) and isinstance(call.func.value, ast.Name):
        base = self.lookup(st, call.func.value.id)
        if isinstance(base, ModV):
          f = self.module_attr(st, base, call.func.attr)
      elif isinstance(call.func, ast.Name):
        f = self.lookup(st, call.func.id)
      if isinstance(f, FuncV) and f.kind == "repo":
        return (self.qual_target(f), f.node)
    except (Unsupported, Undecidable, KeyError):
      pass
    return None

  def eval_invariants(self, st, lc, overlay):
    """Evaluates the loop invariants (clauses serving the current property) in spec mode with `overlay` bindings."""
    fr = Frame(dict(overlay), st.frame, st.frame.module, fname=st.frame.fname)
    # invariants see the function's variables through the closure link
    st.frames.append(fr)
    st.spec_depth += 1
    try:
      out = []
      for cl in lc["invariant"]:
        if cl.serves(self.prop):
          out.append((cl, self.truthy(st, self.ev(cl.node, st))))
      return out
    finally:
      st.spec_depth -= 1
      st.frames.pop()

  def eval_spec_expr(self, st, text, overlay):
    fr = Frame(dict(overlay), st.frame, st.frame.module, fname=st.frame.fname)
    st.frames.append(fr)
    st.spec_depth += 1
    try:
      return self.ev(ast.parse(text, mode="eval").body, st)
    finally:
      st.spec_depth -= 1
      st.frames.pop()

  def st_While(self, s, st):
    ordinal = self.loop_ordinal(s)
    lc = self.cur.loops.get(ordinal) if (self.cur and ordinal is not None and len(st.frames) == 1) else None
    declared = lc is not None
    if lc is None:
      lc = dict(invariant=[], variant=None, types={}, cut=False, keep=set(), unroll=False, body_end=[], at_exit=[], head=[])
    if lc.get("unroll"):
      return self.unroll_while(s, st)
    # no loop contract: try concrete execution first (if the condition stays concrete we simply interpret)
    if not declared and not (isinstance(s.test, ast.Constant) and s.test.value is True):
      done = self.try_concrete_while(s, st)
      if done:
        return
    label = f"{self.cur.qual}/loop{ordinal}"
    line = s.lineno
    self.check_invs(st, lc, {}, "inv-entry", label, line)
    self.havoc_loop(st, s.body, lc)
    self.assume_invs(st, lc, {})
    if lc.get("head"):
      self.run_ghost(st, lc["head"], {}, label + "/head", line)
    pre = self.pre_overlay(st, s.body)
    var0 = self.eval_spec_expr(st, lc["variant"], {}) if lc.get("variant") else None
    c = self.truthy(st, self.ev(s.test, st))
    enter = self.choose(st, c)
    if enter:
      try:
        try:
          self.exec_block(s.body, st)
        except ContinueSig:
          pass
        self.process_hints(st, lc["body_end"], pre, label + "/body-end", line)
        self.check_invs(st, lc, pre, "inv-preserved", label, line)
        if var0 is not None:
          var1 = self.eval_spec_expr(st, lc["variant"], {})
          self.emit(st, "variant", f"{label}/variant-decreases", z3.And(to_z3(var0) >= 0, to_z3(var1) < to_z3(var0)),
                    clause=lc["variant"], line=line)
        raise PathEnd()
      except BreakSig:
        return
    else:
      self.process_hints(st, lc["at_exit"], pre, label + "/at-exit", line)
      self.exec_block(s.orelse, st)
      self.stop_at_exit(lc, label, line)

  def pre_overlay(self, st, body):
    """Values of the loop-modified variables at the head of the analysed iteration, as pre_<name>."""
    ov = {}
    for n in self.assigned_names(body) | {k for k in st.frame.env if k.startswith("g_")}:
      if n in st.frame.env:
        ov["pre_" + n] = st.frame.env[n]
    return ov

  def process_hints(self, st, clauses, overlay, label, line):
    """Proof hints (like Dafny `assert`): each is an obligation, then an assumption for what follows.
    `begin_scope` ... `end_scope` (Dafny's `assert G by { ... }`): the facts established inside the scope are dropped at
    its end except the LAST hint of the scope (dropping derived hypotheses is always sound; it keeps later queries
    small)."""
    scopes = []
    last_goal = None
    for cl in clauses:
      if not cl.serves(self.prop):
        continue
      if cl.text == "begin_scope":
        scopes.append(len(st.pc))
        last_goal = None
        continue
      if cl.text == "end_scope":
        n0 = scopes.pop()
        del st.pc[n0:]
        if last_goal is not None:
          st.assume(last_goal)
          if label.endswith("/body-end") and not scopes and not isinstance(last_goal, bool):
            st.__dict__.setdefault("hint_facts", []).append(last_goal)
        continue
      fr = Frame(dict(overlay), st.frame, st.frame.module, fname=st.frame.fname)
      st.frames.append(fr)
      st.spec_depth += 1
      by = None
      try:
        if cl.let:
          overlay[cl.let] = self.ev(cl.node, st)
          continue
        bynode, guard = None, True
        if isinstance(cl.node, ast.Call) and isinstance(cl.node.func, ast.Name) and cl.node.func.id == "by":
          bynode = cl.node
        elif (isinstance(cl.node, ast.Call) and isinstance(cl.node.func, ast.Name) and cl.node.func.id == "implies"
              and isinstance(cl.node.args[1], ast.Call) and isinstance(cl.node.args[1].func, ast.Name)
              and cl.node.args[1].func.id == "by"):
          guard = self.truthy(st, self.ev(cl.node.args[0], st))
          bynode = cl.node.args[1]
        if bynode is not None and isinstance(guard, bool) and not guard:
          continue
        if bynode is not None:
          # by(goal, p1, ..., pk): each premise is proved from the full context, the goal from the premises ALONE
          # (small, stable non-linear queries); then the goal is assumed.  implies(G, by(...)): the same under G.
          n0 = len(st.pc)
          vals = [self.truthy(st, self.ev(a, st)) for a in bynode.args]
          theory = st.pc[n0:]      # theory axiom instances created while evaluating these terms stay available
          if not isinstance(guard, bool):
            by = (self.implies(guard, vals[0]), [self.implies(guard, v) for v in vals[1:]], list(theory) + [guard])
            by = (by[0], by[1], by[2], vals[0], vals[1:])
          else:
            by = (vals[0], vals[1:], list(theory), vals[0], vals[1:])
        else:
          g = self.truthy(st, self.ev(cl.node, st))
      except Unsupported as e:
        if label.endswith("/return") and str(e).startswith("unknown name"):
          # a return hint that mentions a local which does not exist on THIS return path (e.g. a new early return):
          # the hint is skipped there - the postconditions of that path are still checked, from fewer facts
          self.abstracted.add(f"return hint skipped on a path where a local it mentions is undefined: {cl.text[:80]}")
          by = None
          continue
        raise
      finally:
        st.spec_depth -= 1
        st.frames.pop()
      if by is not None:
        g, prem, theory, g_raw, prem_raw = by
        for i, pm in enumerate(prem):
          self.emit(st, "hint", f"{label}/hint-premise{i}:{cl.text}", pm, clause=cl.text, line=line, props=cl.props)
        self.emit(st, "hint", f"{label}/hint:{cl.text}", g_raw, clause=cl.text, line=line, props=cl.props,
                  only_hyps=list(prem_raw) + theory)
        st.assume(g)
        last_goal = g
        if label.endswith("/body-end") and not scopes and not isinstance(g, bool):
          st.__dict__.setdefault("hint_facts", []).append(g)
        continue
      self.emit(st, "hint", f"{label}/hint:{cl.text}", g, clause=cl.text, line=line, props=cl.props)
      st.assume(g)
      last_goal = g
      if label.endswith("/body-end") and not scopes and not isinstance(g, bool):
        st.__dict__.setdefault("hint_facts", []).append(g)

  def _is_concrete_while(self, s, st):
    return False

  def try_concrete_while(self, s, st):
    """Interprets a while loop whose condition is concrete at every iteration. Returns False if symbolic at entry."""
    try:
      st.spec_depth += 0
      c = self.truthy(st, self.ev(s.test, st))
    except (Unsupported, Undecidable):
      raise
    if not isinstance(c, bool):
      return False
    n = 0
    while True:
      if not c:
        self.exec_block(s.orelse, st)
        return True
      try:
        self.exec_block(s.body, st)
      except BreakSig:
        return True
      except ContinueSig:
        pass
      n += 1
      if n > 100000:
        raise Unsupported("concrete while loop too long")
      c = self.truthy(st, self.ev(s.test, st))
      if not isinstance(c, bool):
        raise Unsupported("while condition became symbolic during concrete unrolling (needs an invariant)")

  def unroll_while(self, s, st):
    n = 0
    while True:
      c = self.truthy(st, self.ev(s.test, st))
      if not self.choose(st, c):
        self.exec_block(s.orelse, st)
        return
      try:
        self.exec_block(s.body, st)
      except BreakSig:
        return
      except ContinueSig:
        pass
      n += 1
      if n > self.UNROLL_MAX:
        raise Unsupported("unroll bound exceeded")

  def check_invs(self, st, lc, overlay, kind, label, line):
    n0 = len(st.pc)
    pairs = self.eval_invariants(st, lc, overlay)
    alt = None
    if kind == "inv-preserved":
      # small query first: the invariants assumed at the head of this iteration and everything the analysed iteration
      # added (branch conditions, callee postconditions, hints, theory instances) - a subset of the hypotheses that
      # leaves out the context before the loop
      nh = st.__dict__.get("inv_head")
      alt = list(st.pc[nh:]) if nh is not None and nh <= len(st.pc) else None
    for cl, g in pairs:
      self.emit(st, kind, f"{label}/{kind}:{cl.text}", g, clause=cl.text, line=line, props=cl.props, alt_hyps=alt)

  def assume_invs(self, st, lc, overlay):
    n0 = len(st.pc)
    for cl, g in self.eval_invariants(st, lc, overlay):
      st.assume(g)
    st.__dict__["inv_head"] = n0

  def havoc_loop(self, st, body, lc, extra_names=()):
    names = self.assigned_names(body) | set(extra_names) | {k for k in st.frame.env if k.startswith("g_")}
    roots = self.mutated_roots(body, st)
    env = st.frame.env
    done_ptrs = set()
    for n in sorted(names | roots):
      if n in lc.get("keep", ()):
        continue
      decl = lc["types"].get(n)
      if decl == "opaque":
        env[n] = Opaque(f"{n} (declared opaque at the loop cut)")
        continue
      if n in env:
        v = env[n]
        if isinstance(v, Ptr):
          if n in names and n not in roots:
            # rebinding of the name to another object: fresh object of the same shape
            if decl is None:
              decl = self.heap_type(st, v)
            env[n] = self.fresh_heap(st, decl, n)
          else:
            if v.addr not in done_ptrs:
              done_ptrs.add(v.addr)
              self.havoc_value(st, v, n, decl, keep_len=not self.may_resize(body, n))
              if n in names:
                pass
        else:
          if isinstance(v, (FuncV, ModV)):
            continue
          env[n] = self.havoc_value(st, v, n, decl)
      elif decl is not None:
        env[n] = self.fresh_heap(st, decl, n)
      else:
        # look through closure frames (nested function mutating outer heap objects)
        try:
          v = self.lookup(st, n)
        except Unsupported:
          continue
        if isinstance(v, Ptr) and n in roots and v.addr not in done_ptrs:
          done_ptrs.add(v.addr)
          self.havoc_value(st, v, n, decl, keep_len=not self.may_resize(body, n))
    if st.__dict__.get("cong_mod") is not None:
      # congruence mode: whatever the loop body computes may be a reduced residue in the real code, so every value
      # havocked at the cut is treated like a dropped `% mod` (comparisons on it are arbitrary)
      for n in sorted(names | roots):
        if n in env and n not in lc.get("keep", ()):
          self.taint_value(st, env[n])

  def taint_value(self, st, v, depth=0):
    ids = st.__dict__.setdefault("reduced_ids", set())
    keep = st.__dict__.setdefault("reduced_keep", [])
    if is_sym(v):
      ids.add(v.get_id()); keep.append(v)
    elif isinstance(v, Opt):
      self.taint_value(st, v.val, depth + 1)
    elif isinstance(v, tuple):
      for x in v:
        self.taint_value(st, x, depth + 1)
    elif isinstance(v, Ptr) and depth < 3:
      o = st.deref(v)
      if isinstance(o, HList):
        if o.items is not None:
          for x in o.items:
            self.taint_value(st, x, depth + 1)
        else:
          def leaves(rep):
            if is_sym(rep):
              ids.add(rep.get_id()); keep.append(rep)
            elif isinstance(rep, (tuple, list)):
              for r in rep:
                leaves(r)
          leaves(o.rep)

  def heap_type(self, st, p):
    o = st.deref(p)
    if isinstance(o, HList):
      return self.value_type(st, p)
    raise Unsupported("loop rebinding of non-list heap object needs a declared type")

  def may_resize(self, body, name):
    for s in body:
      for n in ast.walk(s):
        if isinstance(n, ast.Call) and isinstance(n.func, ast.Attribute) and n.func.attr in (
            "append", "pop", "extend", "insert", "remove", "clear"):
          r = n.func.value
          while isinstance(r, (ast.Subscript, ast.Attribute)):
            r = r.value
          if not isinstance(r, ast.Name) or r.id == name:
            return True
        if isinstance(n, ast.Call) and isinstance(n.func, ast.Attribute) and n.func.attr in ("heappush", "heappop"):
          r = n.args[0] if n.args else None
          if not isinstance(r, ast.Name) or r.id == name:
            return True
        if isinstance(n, ast.AugAssign) and isinstance(n.target, ast.Name) and n.target.id == name:
          return True
        if isinstance(n, ast.Call) and isinstance(n.func, ast.Name) and n.func.id not in self.th.BUILTINS:
          return True      # a local helper function may resize the list through its closure
    return False

  def st_For(self, s, st):
    ordinal = self.loop_ordinal(s)
    lc = self.cur.loops.get(ordinal) if (self.cur and ordinal is not None and len(st.frames) == 1) else None
    if lc and lc.get("abstract"):
      return self.abstract_loop(st, s, lc, ordinal)
    it = self.ev(s.iter, st)
    seq = self.th.as_iterable(self, st, it, s)
    # seq: ("concrete", [values]) | ("range", lo, hi, step) | ("slist", HList) | ("enumerate", inner, start) | ...
    if lc and lc["unroll"] and seq[0] == "range" and isinstance(seq[3], int):
      lo = self.th.concretize(self, st, seq[1])
      hi = self.th.concretize(self, st, seq[2])
      seq = ("concrete", list(range(lo, hi, seq[3])))
    force_cut = bool(lc and (lc["cut"] or lc["invariant"]))
    if force_cut and isinstance(it, range):
      seq = ("range", it.start, it.stop, it.step)
    if seq[0] == "concrete" and not force_cut:
      if len(seq[1]) > self.UNROLL_MAX and not (lc and lc["unroll"]):
        raise Unsupported(f"concrete loop of {len(seq[1])} iterations without cut")
      broke = False
      for x in seq[1]:
        self.assign(st, s.target, x)
        try:
          self.exec_block(s.body, st)
        except BreakSig:
          broke = True
          break
        except ContinueSig:
          continue
      if not broke:
        self.exec_block(s.orelse, st)
      return
    if lc is None:
      lc = dict(invariant=[], variant=None, types={}, cut=True, keep=set(), unroll=False, body_end=[], at_exit=[], head=[])
    label = f"{self.cur.qual}/loop{ordinal}"
    line = s.lineno
    n_items = self.th.iter_len(self, st, seq)          # int term: number of iterations
    k = z3.Int(V.fresh_name("_k"))                     # iteration index at the cut
    # entry
    self.check_invs(st, lc, self.th.iter_overlay(self, st, seq, 0, s.target), "inv-entry", label, line)
    tnames = self.assigned_names([ast.Assign(targets=[s.target], value=ast.Constant(0))])
    self.havoc_loop(st, s.body, lc)
    inside = self.choose(st, None)
    if inside:
      if lc.get("cases") and seq[0] == "concrete":
        # cut over a concrete sequence by case split: one path per element (elements need not be if-then-else-able)
        pick = None
        for idx in range(len(seq[1])):
          if idx == len(seq[1]) - 1 or self.choose(st, None):
            pick = idx
            break
        k = pick
        self.assume_invs(st, lc, self.th.iter_overlay(self, st, seq, k, s.target))
        self.assign(st, s.target, seq[1][pick])
      else:
        st.assume(k >= 0, k < to_z3(n_items))
        self.assume_invs(st, lc, self.th.iter_overlay(self, st, seq, k, s.target))
        self.assign(st, s.target, self.th.iter_item(self, st, seq, k, s))
      st.frame.env[f"_i{ordinal}"] = k      # ghost: iteration index of loop <ordinal>, visible to on_call hooks
      if lc.get("head"):
        self.run_ghost(st, lc["head"], {"_i": k}, label + "/head", line)
      pre = self.pre_overlay(st, s.body)
      try:
        try:
          self.exec_block(s.body, st)
        except ContinueSig:
          pass
        pre.update(self.th.iter_overlay(self, st, seq, k + 1, s.target))
        self.process_hints(st, lc["body_end"], pre, label + "/body-end", line)
        self.check_invs(st, lc, pre, "inv-preserved", label, line)
        raise PathEnd()
      except BreakSig:
        return
    else:
      nn = to_z3(n_items)
      st.assume(k == z3.If(nn >= 0, nn, 0))
      self.assume_invs(st, lc, self.th.iter_overlay(self, st, seq, k, s.target))
      # loop variable after the loop: last item if the loop ran (unknown to the invariant); keep havocked
      for n in tnames:
        if n in st.frame.env or True:
          ran = k > 0
          if self.known(st, z3.Not(ran)):
            continue
          try:
            last = self.th.iter_item(self, st, seq, k - 1, s)
            if self.known(st, ran):
              self.assign(st, s.target, last)
            else:
              for nm in tnames:
                st.frame.env.pop(nm, None)
          except (Unsupported, Undecidable, TypeError):
            for nm in tnames:
              st.frame.env.pop(nm, None)
          break
      self.exec_block(s.orelse, st)
      self.stop_at_exit(lc, f"{self.cur.qual}/loop{ordinal}", getattr(s, "lineno", 0))

  def stop_at_exit(self, lc, label, line):
    """Loop option stop_at_exit: the rest of the function behind the (normally left) loop is a floating-point tail that
    the contract says nothing about; it is not analysed and is assumed to return normally (listed in the evidence)."""
    if lc.get("stop_at_exit"):
      self.abstracted.add(f"body of {self.cur.qual} behind {label.split('/')[-1]} (floating-point tail): assumed to "
                          "return normally")
      raise TailAbstracted()

  def abstract_loop(self, st, s, lc, ordinal):
    """Loop declared `abstract`: the body is not analysed; every name it assigns and every heap object it may mutate is
    havocked (to the declared type, else to an abstracted value).  Sound only for side-effect-free search regions whose
    results are used through contracts that hold for arbitrary values; the region must not call functions with a
    `modifies` contract (checked syntactically) and is assumed not to raise (listed in the evidence)."""
    for n in ast.walk(ast.Module(body=s.body, type_ignores=[])):
      if isinstance(n, ast.Call):
        tgt = self.static_callee(n, st)
        if tgt is not None:
          c = C.REGISTRY.get(tgt[0])
          if c is not None and c.modifies:
            raise Unsupported(f"abstract loop {ordinal} calls {tgt[0]} which has a modifies clause")
      if isinstance(n, (ast.Return, ast.Raise)):
        raise Unsupported(f"abstract loop {ordinal} contains return/raise")
    self.abstracted.add(f"loop {ordinal} of {self.cur.qual} at L{s.lineno} abstracted: assigned names havocked, assumed "
                        "effect-free outside them and not to raise")
    assigned = self.assigned_names([s])
    roots = self.mutated_roots(s.body, st)
    for n in sorted(lc.get("append_only", ())):
      # a list that the region only touches through `n.append(...)` statements: after the region it is some extension
      # of what it was (prefix kept, length not smaller)
      uses = [nd for nd in ast.walk(ast.Module(body=s.body, type_ignores=[])) if isinstance(nd, ast.Name) and nd.id == n]
      apps = [nd for nd in ast.walk(ast.Module(body=s.body, type_ignores=[]))
              if isinstance(nd, ast.Expr) and isinstance(nd.value, ast.Call) and isinstance(nd.value.func, ast.Attribute)
              and nd.value.func.attr == "append" and isinstance(nd.value.func.value, ast.Name) and nd.value.func.value.id == n]
      in_args = [u for a in apps for u in ast.walk(ast.Module(body=[ast.Expr(value=x) for x in a.value.args], type_ignores=[]))
                 if isinstance(u, ast.Name) and u.id == n]
      cur = st.frame.env.get(n)
      if len(uses) != len(apps) + len(in_args) or in_args or n in assigned or not (
          isinstance(cur, Ptr) and isinstance(st.deref(cur), HList)):
        raise Unsupported(f"abstract loop {ordinal}: {n} is not used append-only")
      o = st.deref(cur)
      if not o.symbolic:
        self.th.to_symbolic_list(self, st, o)
      old_len, old_rep, et = o.length, o.rep, o.elem_t
      self.havoc_value(st, cur, n, lc["types"].get(n))
      o = st.deref(cur)
      if parse_type(et) != "int" or parse_type(o.elem_t) != "int":
        raise Unsupported(f"abstract loop {ordinal}: append-only list {n} must be a list of ints")
      q = z3.Int(V.fresh_name("apq"))
      st.assume(to_z3(o.length) >= to_z3(old_len),
                z3.ForAll([q], z3.Implies(z3.And(q >= 0, q < to_z3(old_len)), z3.Select(o.rep, q) == z3.Select(old_rep, q))))
    for n in sorted(assigned | roots):
      if n in lc.get("keep", ()) or n in lc.get("append_only", ()):
        continue
      decl = lc["types"].get(n)
      cur = st.frame.env.get(n)
      if n in roots and n not in assigned and isinstance(cur, Ptr) and isinstance(st.deref(cur), HList):
        # a list that is only written through subscripts keeps its length; its contents become arbitrary
        self.havoc_value(st, cur, n, decl, keep_len=not self.may_resize(s.body, n))
      elif decl is not None and decl != "opaque":
        st.frame.env[n] = self.fresh_heap(st, decl, n)
      else:
        st.frame.env[n] = Opaque(f"{n} (result of abstracted loop {ordinal})")

  # ---- comprehensions

  def ev_ListComp(self, node, st):
    return self.th.comprehension(self, st, node, "list")

  def ev_SetComp(self, node, st):
    return self.th.comprehension(self, st, node, "set")

  def ev_DictComp(self, node, st):
    return self.th.comprehension(self, st, node, "dict")

  def ev_GeneratorExp(self, node, st):
    return self.th.comprehension(self, st, node, "gen")

  def ev_JoinedStr(self, node, st):
    return self.th.fstring(self, st, node)

  def ev_Lambda(self, node, st):
    fn = ast.FunctionDef(name="<lambda>", args=node.args, body=[ast.Return(value=node.body)], decorator_list=[],
                         lineno=node.lineno, col_offset=0)
    ast.fix_missing_locations(fn)
    return FuncV("nested", "<lambda>", node=fn, env=st.frame, module=st.frame.module)

  def ev_Starred(self, node, st):
    raise Unsupported("starred expression")

  # ================================================================================================================
  # frame check (syntactic): contracts are functional -- the function must not keep state outside its arguments

  MUTATORS = {"append", "pop", "add", "update", "extend", "insert", "remove", "clear", "setdefault", "discard",
              "popitem", "sort", "reverse", "appendleft"}

  @staticmethod
  def _mutable_init(node):
    if isinstance(node, (ast.Dict, ast.List, ast.Set, ast.ListComp, ast.DictComp, ast.SetComp)):
      return True
    if isinstance(node, ast.Call):
      f = ast.unparse(node.func)
      return f.split(".")[-1] in ("dict", "list", "set", "defaultdict", "OrderedDict", "Counter", "deque", "bytearray")
    return False

  def frame_violations(self, c, fn, module):
    """Names of module-level / class-level mutable objects that the function mutates in place (or rebinds through
    `global`).  Such state makes the result depend on earlier calls, which no functional contract can describe."""
    out = []
    mod_mut = {n for n, v in module.assigns.items() if self._mutable_init(v)}
    cls = c.qual.split(".")[0] if "." in c.qual else None
    cls_mut = {a for (k, a), v in module.class_assigns.items() if k == cls and self._mutable_init(v)} if cls else set()
    if cls and cls in module.classes:
      for nd in module.classes[cls].body:       # annotated class attributes:  _cache: dict = {}
        if isinstance(nd, ast.AnnAssign) and isinstance(nd.target, ast.Name) and nd.value is not None and \
            self._mutable_init(nd.value):
          cls_mut.add(nd.target.id)
    init_assigned = set()
    if cls and f"{cls}.__init__" in module.funcs:
      for nd in ast.walk(module.funcs[f"{cls}.__init__"]):
        if isinstance(nd, (ast.Assign, ast.AnnAssign, ast.AugAssign)):
          for t in (nd.targets if isinstance(nd, ast.Assign) else [nd.target]):
            if isinstance(t, ast.Attribute) and isinstance(t.value, ast.Name) and t.value.id == "self":
              init_assigned.add(t.attr)
    local = self.assigned_names(fn.body) | {a.arg for a in fn.args.args + fn.args.kwonlyargs}

    def root(n):
      while isinstance(n, ast.Subscript):
        n = n.value
      return n
    # classes whose instances legitimately carry state between calls (documented caches / generator state)
    stateful_ok = {"EcCurve": {"_table", "_table_size", "_cache"}, "Generator": {"key", "seed"}, "TestStructure": None}
    is_init = c.qual.endswith(".__init__")
    for nd in ast.walk(fn):
      if isinstance(nd, ast.Global):
        out += [f"global {n}" for n in nd.names]
      # writes to attributes of `self` outside __init__: per-object state that survives the call (check objects are
      # process-wide singletons, so this is call-history dependence)
      if cls and not is_init and isinstance(nd, (ast.Assign, ast.AugAssign, ast.AnnAssign)):
        for t in (nd.targets if isinstance(nd, ast.Assign) else [nd.target]):
          for e in (t.elts if isinstance(t, (ast.Tuple, ast.List)) else [t]):
            if isinstance(e, ast.Attribute) and isinstance(e.value, ast.Name) and e.value.id == "self":
              allowed = stateful_ok.get(cls, set())
              if allowed is not None and e.attr not in allowed:
                out.append(f"attribute self.{e.attr} written outside __init__")
      if cls and not is_init and isinstance(nd, ast.Call) and isinstance(nd.func, ast.Attribute) and \
          nd.func.attr in self.MUTATORS:
        r0 = root(nd.func.value)
        if isinstance(r0, ast.Attribute) and isinstance(r0.value, ast.Name) and r0.value.id == "self":
          allowed = stateful_ok.get(cls, set())
          if allowed is not None and r0.attr not in allowed:
            out.append(f"attribute self.{r0.attr} mutated outside __init__")
      tgt = None
      if isinstance(nd, (ast.Assign, ast.AugAssign, ast.AnnAssign)):
        for t in (nd.targets if isinstance(nd, ast.Assign) else [nd.target]):
          if isinstance(t, ast.Subscript):
            tgt = root(t)
      elif isinstance(nd, ast.Call) and isinstance(nd.func, ast.Attribute) and nd.func.attr in self.MUTATORS:
        tgt = root(nd.func.value)
      if tgt is None:
        continue
      if isinstance(tgt, ast.Name) and tgt.id in mod_mut and tgt.id not in local:
        out.append(f"module-level {tgt.id}")
      if (isinstance(tgt, ast.Attribute) and isinstance(tgt.value, ast.Name) and tgt.value.id == "self"
          and tgt.attr in cls_mut and tgt.attr not in init_assigned):
        out.append(f"class-level {cls}.{tgt.attr}")
      elif (cls and not is_init and isinstance(tgt, ast.Attribute) and isinstance(tgt.value, ast.Name)
            and tgt.value.id == "self"):
        allowed = stateful_ok.get(cls, set())
        if allowed is not None and tgt.attr not in allowed:
          out.append(f"attribute self.{tgt.attr} mutated outside __init__")
    return sorted(set(out))

  def emit_frame(self, c, fn, module):
    self.cur = c
    whats = self.frame_violations(c, fn, module)
    if self.memoised_mutable(fn):
      whats = whats + [f"memoised {c.target}"]
    for what in whats:
      if what in getattr(c, "frame_ok", ()):
        continue
      st = State([])
      self.emit(st, "frame", f"{c.qual}/frame:no state outside the arguments ({what})", False,
                clause=f"{c.qual} mutates {what}: its result may depend on earlier calls")

  # ================================================================================================================
  # driver: verify one function against its contract

  def verify(self, c, fn_node=None, module=None):
    """Generates the obligations of contract c (clauses serving self.prop). Returns dict(status, reason)."""
    t0 = time.time()
    self.cur = c
    try:
      module = module or source.load(c.relpath, self.repo)
    except source.SourceError as e:
      return dict(status="missing", reason=str(e))
    fn = fn_node or module.funcs.get(c.qual)
    if fn is None:
      return dict(status="missing", reason=f"{c.target} not found in working tree")
    self.cur_fn = fn
    self.emit_frame(c, fn, module)
    self.cur_loops = source.loops_of(fn)
    self.node_ord = {}
    counts = {}
    for nd in ast.walk(fn):
      k = type(nd).__name__
      counts[k] = counts.get(k, 0) + 1
      self.node_ord[id(nd)] = f"{k}{counts[k]}"
    for k in c.loops:
      if k >= len(self.cur_loops):
        return dict(status="missing", reason=f"{c.target}: loop ordinal {k} does not exist")
    # loops declared `independent` (per-artifact loops, C17): no variable may carry information from one iteration to
    # a later one except the declared write-only accumulators
    if not getattr(self, "value_pass", False):
      # (emitted under every property: "flagged exactly when ..." for one artifact presupposes that nothing is carried
      # over from the artifacts judged before it)
      for k, lc in c.loops.items():
        if lc.get("independent"):
          ok = set(lc.get("carried_ok", ()))
          for name, ln in sorted(source.loop_carried(self.cur_loops[k]).items()):
            if name not in ok:
              self.emit(State([]), "frame", f"{c.qual}/loop{k}/independent:no state carried between iterations "
                        f"(variable {name} is read before it is set in an iteration and written in the loop)", False,
                        clause=f"iterations of loop {k} of {c.qual} are independent", line=ln, props=None)
          self.emit(State([]), "frame", f"{c.qual}/loop{k}/independent:checked", True,
                    clause=f"iterations of loop {k} of {c.qual} are independent", props=None)
    # hook sites must exist: a hook whose site vanished would silently drop its obligations
    assigned_here = {t.id for nd in ast.walk(fn) if isinstance(nd, ast.Assign) for t in nd.targets if isinstance(t, ast.Name)}
    # element assignments `name[...] = ...` are addressed as "name#k": the k-th such statement in source order (k from 0)
    self.sub_assign_ord = {}
    self.name_assign_ord = {}      # plain assignments `name = ...` are also addressable as "name@k" (k-th in source order)
    counts = {}
    ncounts = {}
    for nd in sorted((n for n in ast.walk(fn) if isinstance(n, ast.Assign)), key=lambda n: (n.lineno, n.col_offset)):
      for t in nd.targets:
        if isinstance(t, ast.Name):
          k = ncounts.get(t.id, 0)
          ncounts[t.id] = k + 1
          self.name_assign_ord[id(nd)] = f"{t.id}@{k}"
          assigned_here.add(f"{t.id}@{k}")
        if isinstance(t, ast.Subscript) and isinstance(t.value, ast.Name):
          k = counts.get(t.value.id, 0)
          counts[t.value.id] = k + 1
          self.sub_assign_ord[id(nd)] = f"{t.value.id}#{k}"
          assigned_here.add(f"{t.value.id}#{k}")
    for name in getattr(c, "on_assign", {}):
      if name not in assigned_here:
        return dict(status="unsupported", reason=f"{c.target}: on_assign site `{name} = ...` not found in the function")
    # (on_call sites: obligations that are no longer generated are reported through the baseline comparison)
    body = source.strip_docstring(fn.body)
    n_before = len(self.obligations)
    covered = set()
    self.value_pass = False
    r = self._explore(c, fn, module, body, covered)
    if r["status"] != "ok":
      return r
    n_paths = r["paths"]
    if getattr(c, "congruence_mod", None) and (c.returns_expr is not None or (c.caller_ensures or []) or
                                              getattr(c, "value_pass", False)):
      # congruence-mode contracts: what CALLERS assume (caller_ensures, returns_expr) is about the real integer values,
      # so it is proved in a second pass over the unmodified body (no `%` dropped, no ghost coordinates)
      # only untagged (structural) invariants / hints take part in this pass: clauses tagged with property ids are the
      # ring-mode argument
      self.value_pass = True
      saved_prop, self.prop = self.prop, "__value_pass__"
      try:
        r = self._explore(c, fn, module, body, set())
      finally:
        self.value_pass = False
        self.prop = saved_prop
      if r["status"] != "ok":
        return r
      n_paths += r["paths"]
    self.stats["paths"] += n_paths
    return dict(status="ok", paths=n_paths, obligations=len(self.obligations) - n_before, covered=sorted(covered),
                gen_time=time.time() - t0)

  def _explore(self, c, fn, module, body, covered):
    pending = [[]]
    n_paths = 0
    while pending:
      dec = pending.pop()
      n_paths += 1
      if n_paths > c.path_budget:
        return dict(status="unsupported", reason=f"path budget {c.path_budget} exceeded")
      V._ctr = itertools.count()
      st = State(dec)
      try:
        try:
          self.run_path(c, fn, module, body, st, covered)
        finally:
          pending.extend(st.pending_alts)
      except NeedDecision as nd:
        for b in nd.feasible:
          pending.append(dec + [b])
      except PathEnd:
        pass
      except Unsupported as e:
        return dict(status="unsupported", reason=f"{c.target}: {e}")
      except Undecidable as e:
        return dict(status="undecidable", reason=f"{c.target}: {e}")
    return dict(status="ok", paths=n_paths)

  def setup_entry(self, c, fn, module, st):
    """Binds parameters to fresh symbolic values and assumes `requires`."""
    a = fn.args
    names = [x.arg for x in a.posonlyargs + a.args + a.kwonlyargs]
    env = {}
    cls = None
    for n in names:
      if n == "self" and "." in c.qual and c.self_init is not None:
        cls = f"{c.relpath}::{c.qual.split('.')[0]}"
        cache = getattr(self, "_self_cache", None)
        if cache is not None and cache[0] == c.target and not st.heap:
          st.heap = {a: o.clone() for a, o in cache[1].items()}
          st.next_addr = cache[2]
          env["self"] = cache[3]
          continue
        fr0 = Frame({}, None, module, cls=cls, fname=c.qual + "/<construct self>")
        st.frames.append(fr0)
        npc, nd = len(st.pc), st.dptr
        try:
          fv = FuncV("class", c.qual.split(".")[0], node=module.classes[c.qual.split(".")[0]], module=module)
          env["self"] = self.th.construct(self, st, fv, list(c.self_init), {}, None)
        finally:
          st.frames.pop()
        if len(st.pc) == npc and st.dptr == nd:   # construction was concrete and deterministic: reuse on later paths
          self._self_cache = (c.target, {a: o.clone() for a, o in st.heap.items()}, st.next_addr, env["self"])
        continue
      if n == "self" and "." in c.qual:
        cls = f"{c.relpath}::{c.qual.split('.')[0]}"
        fields = {}
        for fname, ft in c.self_fields.items():
          fields[fname] = self.fresh_heap(st, ft, f"self.{fname}")
          self.record_input(st, f"self.{fname}", fields[fname])
        env["self"] = st.alloc(HRec(c.self_cls or cls, fields))
        continue
      if n not in c.params:
        raise Unsupported(f"parameter {n} has no declared type in the contract")
      env[n] = self.fresh_heap(st, c.params[n], n)
      self.record_input(st, n, env[n])
    vp = getattr(self, "value_pass", False)
    for gname, gt in ({} if vp else c.ghost_params).items():
      env[gname] = self.fresh_heap(st, gt, gname)
      self.record_input(st, "ghost:" + gname, env[gname])
    fr = Frame(env, None, module, cls=cls, fname=c.qual)
    st.frames.append(fr)
    for g, t in c.ghost.items():
      st.ghost[g] = self.fresh_heap(st, t, "ghost." + g)
    st.spec_depth += 1
    try:
      for g, expr in c.ghost_init.items():
        st.ghost[g] = self.ev(ast.parse(expr, mode="eval").body, st)
      for cl in c.requires + ([] if vp else c.ghost_requires):
        if cl.props and "VALUE" in cl.props and not vp:
          continue
        st.assume(self.truthy(st, self.ev(cl.node, st)))
      for cl in ([] if vp else c.hints) + c.defines:
        st.assume(self.truthy(st, self.ev(cl.node, st)))
      for cl in getattr(c, "spec_axioms", []):
        self.abstracted.add(f"axiom of the specification theory used by {c.qual}: {cl.text}")
        st.assume(self.truthy(st, self.ev(cl.node, st)))
    finally:
      st.spec_depth -= 1
    if c.entry_ghost:
      self.run_ghost(st, c.entry_ghost, {}, f"{c.qual}/entry", 0)
    if getattr(c, "congruence_mod", None) and not vp:
      st.spec_depth += 1
      try:
        st.__dict__["cong_mod"] = to_z3(self.ev(ast.parse(c.congruence_mod, mode="eval").body, st))
      finally:
        st.spec_depth -= 1
      self.abstracted.add(f"congruence mode in {c.qual}: every `e % {c.congruence_mod}` of the code is replaced by e; "
                          "equalities in its postconditions are congruences modulo that value")
    return env

  def record_input(self, st, name, v):
    if is_sym(v):
      st.inputs[name] = v
    elif isinstance(v, Opt):
      st.inputs[name + "?isnone"] = v.isnone if is_sym(v.isnone) else z3.BoolVal(v.isnone)
      self.record_input(st, name + "?val", v.val)
    elif isinstance(v, tuple):
      for i, x in enumerate(v):
        self.record_input(st, f"{name}[{i}]", x)
    elif isinstance(v, BytesV):
      self.record_input(st, name + "#len", v.length)
      self.record_input(st, name + "#val", v.val)
    elif isinstance(v, Ptr):
      o = st.deref(v)
      if isinstance(o, HList) and o.symbolic:
        st.inputs[name + "#len"] = o.length
        self._record_rep(st, name, o.elem_t, o.rep)

  def _record_rep(self, st, name, t, rep):
    t = parse_type(t)
    if t in ("int", "bool"):
      st.inputs[name + "#arr"] = rep
    elif isinstance(t, tuple) and t[0] == "tuple":
      for i, (ti, ri) in enumerate(zip(t[1], rep[1])):
        self._record_rep(st, f"{name}[.][{i}]", ti, ri)
    elif isinstance(t, tuple) and t[0] == "opt":
      st.inputs[name + "?isnone#arr"] = rep[1]
      self._record_rep(st, name + "?val", t[1], rep[2])

  def run_path(self, c, fn, module, body, st, covered):
    env0 = self.setup_entry(c, fn, module, st)
    entry_env = dict(env0)
    entry_snap = self.snapshot(st, env0)
    st.old = (entry_env, entry_snap)
    # exact-raise conditions are evaluated on the entry state
    raise_conds = {}
    st.spec_depth += 1
    try:
      for exc, cl in c.raises.items():
        if cl is not None and cl.serves(self.prop):
          raise_conds[exc] = self.truthy(st, self.ev(cl.node, st))
    finally:
      st.spec_depth -= 1
    result = None
    try:
      try:
        self.exec_block(body, st)
      except ReturnSig as r:
        result = r.value
      except TailAbstracted:
        result = Opaque("abstracted tail")
      except (BreakSig, ContinueSig):
        raise Unsupported("break/continue outside loop")
    except Raised as r:
      covered.add("raise:" + r.exc)
      line = 0
      if getattr(self, "value_pass", False):
        return
      if r.exc in raise_conds:
        self.emit(st, "raise-allowed", f"{c.qual}/raises-{r.exc}-only-when:{c.raises[r.exc].text}", raise_conds[r.exc],
                  clause=c.raises[r.exc].text, props=c.raises[r.exc].props)
      elif r.exc in c.raises:
        if r.exc in c.raises_only_if and c.raises_only_if[r.exc].serves(self.prop):
          cl = c.raises_only_if[r.exc]
          st.spec_depth += 1
          saved_frames = None
          try:
            fr = Frame(dict(entry_env), None, module, fname=c.qual)
            st.frames.append(fr)
            try:
              g0 = self.truthy(st, self.ev(cl.node, st))
            finally:
              st.frames.pop()
          finally:
            st.spec_depth -= 1
          self.emit(st, "raise-allowed", f"{c.qual}/raises-{r.exc}-only-if:{cl.text}", g0, clause=cl.text, props=cl.props)
      else:
        self.emit(st, "no-raise", f"{c.qual}/no-unexpected-{r.exc}", False, clause=f"never raises {r.exc}",
                  props=c.total_props if c.total else None, note=r.info)
      return
    covered.add("return")
    vp = getattr(self, "value_pass", False)
    ring = bool(getattr(c, "congruence_mod", None)) and not vp
    if c.return_hints:      # (the value pass sees the VALUE-tagged and untagged hints only, see Clause.serves)
      ov = {"result": result}
      self.process_hints(st, c.return_hints, ov, f"{c.qual}/return", 0)
    # normal return: exact raise conditions must be false
    for exc, cond in ({} if vp else raise_conds).items():
      self.emit(st, "raise-required", f"{c.qual}/returns-only-when-not:{c.raises[exc].text}", self.not_(cond),
                clause=c.raises[exc].text, props=c.raises[exc].props)
    # postconditions
    try:
      result_c = self.coerce_heap(st, c.returns, result) if c.returns not in ("none", "opaque") else result
    except TypeError:
      result_c = result
    env = dict(st.frame.env)
    fr = Frame(dict(entry_env), None, module, fname=c.qual)
    fr.env["result"] = result_c
    st.frames.append(fr)
    st.spec_depth += 1
    st.old = (entry_env, entry_snap)
    try:
      for cl in ([c0 for c0 in c.ensures if c0.props and "VALUE" in c0.props] if vp else c.ensures + c.ghost_ensures):
        if not cl.serves(self.prop):
          continue
        g = self.truthy(st, self.ev(cl.node, st))
        tag = f"[{cl.name}]" if cl.name else ""
        self.emit(st, "post", f"{c.qual}/post{tag}:{cl.text}", g, clause=cl.text, props=cl.props)
      if c.returns_expr is not None and not ring and c.returns_expr not in c.caller_assumed:
        # the functional summary used inside comprehensions / quantifiers is proved against the body as well
        fv = self.ev(ast.parse(c.returns_expr, mode="eval").body, st)
        self.emit(st, "post", f"{c.qual}/post[functional]:result == {c.returns_expr}",
                  self.truthy(st, self.eq(st, result_c, fv)), clause=f"result == {c.returns_expr}", props=None)
      if c.caller_ensures is not None and not ring:
        own = set() if vp else {cl.text for cl in c.ensures}
        for cl in c.caller_ensures:
          if cl.text in own or cl.text in c.caller_assumed or not cl.serves(self.prop):
            continue
          g = self.truthy(st, self.ev(cl.node, st))
          self.emit(st, "post", f"{c.qual}/post[caller-visible]:{cl.text}", g, clause=cl.text, props=cl.props)
    finally:
      st.spec_depth -= 1
      st.frames.pop()
