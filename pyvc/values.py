"""Value domain of the symbolic executor.

Concrete Python values (int, bool, None, str, bytes, tuple) are kept as they are, so that concrete code is simply
interpreted (constant folding); symbolic values are z3 terms or the wrappers below.
"""
import itertools
import z3

_ctr = itertools.count()


def fresh_name(base):
  return f"{base}!{next(_ctr)}"


class Opt:
  """Symbolic Optional: `isnone` (z3 Bool or python bool) and the payload `val` (meaningful iff not isnone)."""
  __slots__ = ("isnone", "val")

  def __init__(self, isnone, val):
    self.isnone, self.val = isnone, val

  def __repr__(self):
    return f"Opt({self.isnone}, {self.val})"


class Ptr:
  """Pointer to a mutable heap object (list, dict, record)."""
  __slots__ = ("addr",)

  def __init__(self, addr):
    self.addr = addr

  def __repr__(self):
    return f"Ptr({self.addr})"

  def __eq__(self, o):
    return isinstance(o, Ptr) and o.addr == self.addr

  def __hash__(self):
    return hash(("Ptr", self.addr))


class Opaque:
  """A value the engine does not model (float expression, unknown library result). Using it in a checked clause makes
  the obligation undecided, never a violation."""
  __slots__ = ("why",)

  def __init__(self, why):
    self.why = why

  def __repr__(self):
    return f"Opaque({self.why})"


class SqrtV(Opaque):
  """math.sqrt(<int term>): an abstracted float that remembers its argument, so that int(math.sqrt(x)) can be given
  the (rounding-proof) facts r >= 0, x >= 1 => 1 <= r <= x."""
  __slots__ = ("arg",)

  def __init__(self, arg):
    Opaque.__init__(self, "math.sqrt(int)")
    self.arg = arg


class Ref:
  """Opaque symbolic reference (protobuf message, storage object): a term of the uninterpreted sort RefSort.
  Attribute reads become applications of uninterpreted functions; `cls` is only a label."""
  __slots__ = ("term", "cls")

  def __init__(self, term, cls):
    self.term, self.cls = term, cls

  def __repr__(self):
    return f"Ref<{self.cls}>({self.term})"


class StrV:
  """Symbolic string: a term of the uninterpreted sort StrSort (equality only, plus injective constructors)."""
  __slots__ = ("term",)

  def __init__(self, term):
    self.term = term

  def __repr__(self):
    return f"StrV({self.term})"


class BytesV:
  """Symbolic bytes value: length (int term) and big-endian integer value (0 <= val < 256**length).
  `le`, when not None, is the little-endian reading of the same bytes (known for x.to_bytes(n, 'little') and what is
  sliced / concatenated from such values): byte i has weight 256**i in `le` and 256**(length-1-i) in `val`."""
  __slots__ = ("length", "val", "le")

  def __init__(self, length, val, le=None):
    self.length, self.val, self.le = length, val, le

  def __repr__(self):
    return f"BytesV(len={self.length}, val={self.val})"


class FuncV:
  """A callable known to the engine: nested def (closure), repo function, bound method, builtin or module."""
  __slots__ = ("kind", "name", "node", "env", "selfv", "module")

  def __init__(self, kind, name, node=None, env=None, selfv=None, module=None):
    self.kind, self.name, self.node, self.env, self.selfv, self.module = kind, name, node, env, selfv, module

  def __repr__(self):
    return f"FuncV({self.kind}:{self.name})"


class ModV:
  """A module reference (repo module or library module)."""
  __slots__ = ("name",)

  def __init__(self, name):
    self.name = name

  def __repr__(self):
    return f"ModV({self.name})"


RefSort = z3.DeclareSort("Ref")
StrSort = z3.DeclareSort("Str")

# ----------------------------------------------------------------------------------------------------------------
# heap objects


class HList:
  """Mutable list. Either concrete length (`items` is a python list of values) or symbolic (`items is None`,
  `length` an int term, `rep` an array-shaped representation of element type `elem_t`)."""

  def __init__(self, items=None, length=None, elem_t=None, rep=None):
    self.items, self.length, self.elem_t, self.rep = items, length, elem_t, rep

  def clone(self):
    return HList(None if self.items is None else list(self.items), self.length, self.elem_t, self.rep)

  @property
  def symbolic(self):
    return self.items is None


class HDict:
  """Mutable dict with concrete python keys or symbolic int keys.
  concrete: `items` dict key->value.  symbolic: dom Array(Int->Bool), rep arrays for values of type val_t."""

  def __init__(self, items=None, dom=None, val_t=None, rep=None, nin=False, nval=None):
    self.items, self.dom, self.val_t, self.rep = items, dom, val_t, rep
    # symbolic dicts: the slot of the key None (a legal dict key next to int keys): present? / its value
    self.nin, self.nval = nin, nval

  def clone(self):
    return HDict(None if self.items is None else dict(self.items), self.dom, self.val_t, self.rep, self.nin, self.nval)

  @property
  def symbolic(self):
    return self.items is None


class HRec:
  """Mutable record (self object, TestResultsEntry, ...)."""

  def __init__(self, cls, fields):
    self.cls, self.fields = cls, fields

  def clone(self):
    return HRec(self.cls, dict(self.fields))


class HSet:
  """Mutable set, concrete elements only, or symbolic membership predicate over ints."""

  def __init__(self, items=None, mem=None):
    self.items, self.mem = items, mem

  def clone(self):
    return HSet(None if self.items is None else dict(self.items), self.mem)


class HRecList:
  """Repeated message field as struct-of-arrays: fields {name: type}, reps {name: array rep}, symbolic length.
  Elements are addressed by ElemRef(ptr, index); append copies a record's fields (protobuf semantics)."""

  def __init__(self, cls, fields, reps, length):
    self.cls, self.fields, self.reps, self.length = cls, fields, reps, length

  def clone(self):
    return HRecList(self.cls, self.fields, dict(self.reps), self.length)


class HexStrSet:
  """The set {format(i, 'x') : mem(i)} of lowercase-hex strings of a set of ints, as a value (str(...) of it, and
  ast.literal_eval of that string, are the library theory `set-of-hex-strings round trip`)."""
  __slots__ = ("mem",)

  def __init__(self, mem):
    self.mem = mem      # callable: int term -> z3 Bool


class HPointMap:
  """collections.defaultdict(list) keyed by points (pairs of ints), values lists of ints - as a mutable ghost relation:
  `term` names the current relation pm_has(term, px, py, index) (an append creates a new term related to the old one)."""

  def __init__(self, term):
    self.term = term

  def clone(self):
    return HPointMap(self.term)


class PMEntry:
  """m[(px, py)] of an HPointMap: remembers map and key so that `.append(i)` updates the relation."""
  __slots__ = ("ptr", "key")

  def __init__(self, ptr, key):
    self.ptr, self.key = ptr, key


class ElemRef:
  """Reference to element `idx` of the HRecList at `ptr` (a protobuf sub-message inside a repeated field)."""
  __slots__ = ("ptr", "idx")

  def __init__(self, ptr, idx):
    self.ptr, self.idx = ptr, idx

  def __repr__(self):
    return f"ElemRef({self.ptr}, {self.idx})"


# ----------------------------------------------------------------------------------------------------------------
# types: 'int' 'bool' 'real' 'none' 'str' 'bytes' 'opaque', ('opt',T) ('tuple',(T..)) ('list',T) ('ref',cls)
#        ('rec', cls, {field:T}) ('dict', K, V)


def parse_type(s):
  """Parses a type string of the contract language, e.g. 'Optional[tuple[int,int]]', 'list[int]', 'ref:RSAKey'."""
  if not isinstance(s, str):
    return s
  s = s.strip()
  low = s.lower()
  if low in ("int", "bool", "real", "none", "str", "bytes", "opaque"):
    return low
  if low == "float":
    return "real"
  if s.startswith("ref:"):
    return ("ref", s[4:])
  if s.startswith("rec:"):
    return ("rec", s[4:], None)
  if s.startswith("elem:"):
    return ("elem", s[5:])
  if s.startswith("obj:"):
    return ("obj", s[4:])
  if low == "intset":
    return ("intset",)
  if low == "point":
    return ("tuple", (("opt", "int"), ("opt", "int")))
  if low == "jpoint":
    return ("tuple", ("int", "int", "int"))
  head, _, rest = s.partition("[")
  assert rest.endswith("]"), s
  inner = rest[:-1]
  parts, depth, cur = [], 0, ""
  for ch in inner:
    if ch == "[":
      depth += 1
    if ch == "]":
      depth -= 1
    if ch == "," and depth == 0:
      parts.append(cur)
      cur = ""
    else:
      cur += ch
  parts.append(cur)
  head = head.strip().lower()
  if head == "optional":
    return ("opt", parse_type(parts[0]))
  if head == "tuple":
    return ("tuple", tuple(parse_type(p) for p in parts))
  if head == "list":
    return ("list", parse_type(parts[0]))
  if head == "dict":
    return ("dict", parse_type(parts[0]), parse_type(parts[1]))
  raise ValueError(f"unknown type {s}")


def is_sym(v):
  return isinstance(v, z3.ExprRef)


def is_int_like(v):
  return (isinstance(v, int) and not isinstance(v, bool)) or (is_sym(v) and z3.is_int(v))


def is_bool_like(v):
  return isinstance(v, bool) or (is_sym(v) and z3.is_bool(v))


def is_real_like(v):
  return isinstance(v, float) or (is_sym(v) and z3.is_real(v))


def to_z3(v):
  """Lifts a scalar value to a z3 term."""
  if isinstance(v, bool):
    return z3.BoolVal(v)
  if isinstance(v, int):
    return z3.IntVal(v)
  if isinstance(v, float):
    return z3.RealVal(repr(v))
  if is_sym(v):
    return v
  raise TypeError(f"not a scalar: {v!r}")


def sort_of(t):
  if t == "int":
    return z3.IntSort()
  if t == "bool":
    return z3.BoolSort()
  if t == "real":
    return z3.RealSort()
  if t == "str":
    return StrSort
  if isinstance(t, tuple) and t[0] == "ref":
    return RefSort
  raise TypeError(f"no scalar sort for {t}")


def fresh(t, name):
  """A fresh unconstrained symbolic value of type t (lists/dicts/recs are NOT allocated here; see State.fresh)."""
  t = parse_type(t)
  if t == "int":
    return z3.Int(fresh_name(name))
  if t == "bool":
    return z3.Bool(fresh_name(name))
  if t == "real":
    return z3.Real(fresh_name(name))
  if t == "none":
    return None
  if t == "str":
    return StrV(z3.Const(fresh_name(name), StrSort))
  if t == "bytes":
    return BytesV(z3.Int(fresh_name(name + ".len")), z3.Int(fresh_name(name + ".val")))
  if t == "opaque":
    return Opaque(name)
  if t[0] == "opt":
    return Opt(z3.Bool(fresh_name(name + ".isnone")), fresh(t[1], name + ".val"))
  if t[0] == "tuple":
    return tuple(fresh(ti, f"{name}.{i}") for i, ti in enumerate(t[1]))
  if t[0] == "ref":
    return Ref(z3.Const(fresh_name(name), RefSort), t[1])
  raise TypeError(f"fresh: unsupported type {t} (needs heap)")


def type_constraints(t, v):
  """Well-formedness facts of a fresh value of type t (bytes: length/value range)."""
  t = parse_type(t)
  out = []
  if t == "bytes":
    out.append(v.length >= 0)
    out.append(v.val >= 0)
  elif isinstance(t, tuple) and t[0] == "opt":
    out += [z3.Implies(z3.Not(v.isnone), c) if not isinstance(v.isnone, bool) else c
            for c in type_constraints(t[1], v.val)]
  elif isinstance(t, tuple) and t[0] == "tuple":
    for ti, vi in zip(t[1], v):
      out += type_constraints(ti, vi)
  return out


# array-shaped representations (for symbolic lists/dicts): same tree as a value, with Array(Int->leaf) at leaves


def fresh_rep(t, name, idx_sort=None):
  idx_sort = z3.IntSort() if idx_sort is None else idx_sort
  t = parse_type(t)
  if t in ("int", "bool", "real", "str") or (isinstance(t, tuple) and t[0] == "ref"):
    return z3.Array(fresh_name(name), idx_sort, sort_of(t))
  if t == "none":
    return None
  if t == "bytes":
    return ("bytes", z3.Array(fresh_name(name + ".len"), idx_sort, z3.IntSort()),
            z3.Array(fresh_name(name + ".val"), idx_sort, z3.IntSort()))
  if t[0] == "opt":
    return ("opt", z3.Array(fresh_name(name + ".isnone"), idx_sort, z3.BoolSort()),
            fresh_rep(t[1], name + ".val", idx_sort))
  if t[0] == "tuple":
    return ("tuple", tuple(fresh_rep(ti, f"{name}.{i}", idx_sort) for i, ti in enumerate(t[1])))
  raise TypeError(f"fresh_rep: unsupported element type {t}")


def select_rep(t, rep, i):
  t = parse_type(t)
  if t == "none":
    return None
  if t in ("int", "bool", "real"):
    return z3.Select(rep, i)
  if t == "str":
    return StrV(z3.Select(rep, i))
  if t == "bytes":
    return BytesV(z3.Select(rep[1], i), z3.Select(rep[2], i))
  if t[0] == "ref":
    return Ref(z3.Select(rep, i), t[1])
  if t[0] == "opt":
    return Opt(z3.Select(rep[1], i), select_rep(t[1], rep[2], i))
  if t[0] == "tuple":
    return tuple(select_rep(ti, ri, i) for ti, ri in zip(t[1], rep[1]))
  raise TypeError(t)


def store_rep(t, rep, i, v):
  """Returns the rep after writing value v (already coerced to type t) at index i."""
  t = parse_type(t)
  if t == "none":
    return None
  if t in ("int", "bool", "real"):
    return z3.Store(rep, i, to_z3(v))
  if t == "str":
    return z3.Store(rep, i, v.term)
  if t == "bytes":
    return ("bytes", z3.Store(rep[1], i, to_z3(v.length)), z3.Store(rep[2], i, to_z3(v.val)))
  if t[0] == "ref":
    return z3.Store(rep, i, v.term)
  if t[0] == "opt":
    v = coerce(t, v)
    return ("opt", z3.Store(rep[1], i, to_z3(v.isnone)), store_rep(t[1], rep[2], i, v.val))
  if t[0] == "tuple":
    return ("tuple", tuple(store_rep(ti, ri, i, vi) for ti, ri, vi in zip(t[1], rep[1], v)))
  raise TypeError(t)


def default_of(t):
  """Some value of type t (payload of a None optional)."""
  t = parse_type(t)
  if t == "int":
    return 0
  if t == "bool":
    return False
  if t == "real":
    return z3.RealVal(0)
  if t == "none":
    return None
  if t == "str":
    return StrV(z3.Const("str_default", StrSort))
  if t == "bytes":
    return BytesV(0, 0)
  if t[0] == "opt":
    return Opt(True, default_of(t[1]))
  if t[0] == "tuple":
    return tuple(default_of(ti) for ti in t[1])
  if t[0] == "ref":
    return Ref(z3.Const("ref_default_" + t[1], RefSort), t[1])
  raise TypeError(t)


def coerce(t, v):
  """Coerces value v into the representation of type t (None/plain -> Opt, tuples component-wise)."""
  t = parse_type(t)
  if isinstance(t, tuple) and t[0] == "opt":
    if v is None:
      return Opt(True, default_of(t[1]))
    if isinstance(v, Opt):
      return Opt(v.isnone, coerce(t[1], v.val))
    return Opt(False, coerce(t[1], v))
  if isinstance(t, tuple) and t[0] == "tuple":
    if isinstance(v, tuple) and len(v) == len(t[1]):
      return tuple(coerce(ti, vi) for ti, vi in zip(t[1], v))
    raise TypeError(f"cannot coerce {v!r} to {t}")
  if t == "int" and isinstance(v, Opt):
    raise TypeError("optional where int expected")
  return v


def type_of(v):
  """Type descriptor of a value (join-friendly)."""
  if v is None:
    return "none"
  if is_bool_like(v):
    return "bool"
  if is_int_like(v):
    return "int"
  if is_real_like(v):
    return "real"
  if isinstance(v, (str, StrV)):
    return "str"
  if isinstance(v, (bytes, BytesV)):
    return "bytes"
  if isinstance(v, Opt):
    return ("opt", type_of(v.val))
  if isinstance(v, tuple):
    return ("tuple", tuple(type_of(x) for x in v))
  if isinstance(v, Ref):
    return ("ref", v.cls)
  if isinstance(v, Opaque):
    return "opaque"
  if isinstance(v, ElemRef):
    return ("elem", v.ptr)
  raise TypeError(f"type_of: {v!r}")


def join_types(a, b):
  if a == b:
    return a
  if a == "none":
    return b if (isinstance(b, tuple) and b[0] == "opt") else ("opt", b)
  if b == "none":
    return join_types(b, a)
  if isinstance(a, tuple) and a[0] == "opt":
    inner_b = b[1] if (isinstance(b, tuple) and b[0] == "opt") else b
    return ("opt", join_types(a[1], inner_b))
  if isinstance(b, tuple) and b[0] == "opt":
    return join_types(b, a)
  if isinstance(a, tuple) and isinstance(b, tuple) and a[0] == b[0] == "tuple" and len(a[1]) == len(b[1]):
    return ("tuple", tuple(join_types(x, y) for x, y in zip(a[1], b[1])))
  if a == "bool" and b == "int" or a == "int" and b == "bool":
    return "int"
  raise TypeError(f"cannot join {a} and {b}")
