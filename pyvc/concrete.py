"""Concrete interpretation of the contract language (same clause text as the prover; used by replay and the bounded
tier).  Clauses are rewritten (forall/exists -> all/any over ranges, implies -> or) and evaluated with Python `eval`
against real values."""
import ast
import math

MAX_RANGE = 200000


class QuantifierTooLarge(Exception):
  pass


def _rng(lo, hi):
  if hi - lo > MAX_RANGE:
    raise QuantifierTooLarge(f"range {lo}..{hi}")
  return range(lo, hi)


def _is_square(x):
  return x >= 0 and math.isqrt(x) ** 2 == x


def _ceil_sqrt(x):
  r = math.isqrt(x)
  return r if r * r == x else r + 1


def _divides(a, b):
  return b == 0 if a == 0 else b % a == 0


def _bit_length(x):
  return int(x).bit_length()


def _pow2(e):
  if e < 0 or e > 100000:
    raise QuantifierTooLarge(f"2**{e} not evaluated concretely")
  return 2 ** e


def _is_prime(p):
  import sympy
  return bool(sympy.isprime(int(p)))


NS = {
    "_rng": _rng, "is_square": _is_square, "isqrt": math.isqrt, "ceil_sqrt": _ceil_sqrt,
    "pow2": _pow2, "bit_length": _bit_length, "gcd": math.gcd, "divides": _divides,
    "powmod": lambda a, e, m: pow(a, e, m), "is_prime": _is_prime, "fits": lambda r, n: 0 <= r < _pow2(n),
    "imod": lambda a, b: a % b, "idiv": lambda a, b: a // b, "ite": lambda c, a, b: a if c else b,
    "is_none": lambda x: x is None, "bval": lambda b: int.from_bytes(b, "big"), "blen": len, "euclid": lambda *a: True, "divmod_def": lambda *a: True, "bor": lambda a, b: a | b, "by": lambda g, *a: g, "div_lt": lambda *a: True, "pow2_add": lambda *a: True,
}


class _Rewrite(ast.NodeTransformer):
  def visit_Call(self, node):
    self.generic_visit(node)
    if isinstance(node.func, ast.Name):
      f = node.func.id
      if f in ("forall", "exists") and len(node.args) == 4:
        v, lo, hi, body = node.args
        gen = ast.GeneratorExp(
            elt=body,
            generators=[ast.comprehension(target=ast.Name(id=v.id, ctx=ast.Store()),
                                          iter=ast.Call(func=ast.Name(id="_rng", ctx=ast.Load()), args=[lo, hi],
                                                        keywords=[]), ifs=[], is_async=0)])
        return ast.Call(func=ast.Name(id="all" if f == "forall" else "any", ctx=ast.Load()), args=[gen], keywords=[])
      if f == "implies":
        return ast.BoolOp(op=ast.Or(), values=[ast.UnaryOp(op=ast.Not(), operand=node.args[0]), node.args[1]])
      if f == "iff":
        return ast.Compare(left=ast.Call(func=ast.Name(id="bool", ctx=ast.Load()), args=[node.args[0]], keywords=[]),
                           ops=[ast.Eq()],
                           comparators=[ast.Call(func=ast.Name(id="bool", ctx=ast.Load()), args=[node.args[1]],
                                                 keywords=[])])
      if f == "old":
        # old(x) -> __old["<source of x>"]
        return ast.Subscript(value=ast.Name(id="__old", ctx=ast.Load()),
                             slice=ast.Constant(value=ast.unparse(node.args[0])), ctx=ast.Load())
    return node


_compiled = {}


def compile_clause(text):
  if text not in _compiled:
    tree = ast.parse(text, mode="eval")
    tree = _Rewrite().visit(tree)
    ast.fix_missing_locations(tree)
    _compiled[text] = compile(tree, f"<clause {text[:40]}>", "eval")
  return _compiled[text]


def old_exprs(text):
  """Source texts of the old(...) arguments of a clause."""
  out = []
  for n in ast.walk(ast.parse(text, mode="eval")):
    if isinstance(n, ast.Call) and isinstance(n.func, ast.Name) and n.func.id == "old":
      out.append(ast.unparse(n.args[0]))
  return out


def eval_clause(text, env, old=None, extra=None):
  ns = dict(NS)
  if extra:
    ns.update(extra)
  ns.update(env)
  ns["__old"] = old or {}
  return bool(eval(compile_clause(text), ns))


def eval_expr(text, env, extra=None):
  ns = dict(NS)
  if extra:
    ns.update(extra)
  ns.update(env)
  return eval(compile_clause(text), ns)
