"""Lemmas: closed formulas proved on every run (obligations of their own)."""
import ast
import time
import z3

from . import engine as E, values as V, contracts as C


def generate(lem):
  t0 = time.time()
  eng = E.Engine(prop=None)
  fake = type("L", (), {})()
  fake.target = "lemma:" + lem.name
  fake.qual = "lemma:" + lem.name
  fake.total = False
  fake.total_props = set()
  fake.on_call = {}
  fake.on_assign = {}
  eng.cur = fake
  eng.cur_loops = None
  obs = []
  cases = lem.cases or [None]

  def setup(st):
    env = {n: V.fresh(t, n) for n, t in lem.vars.items()}
    for n, v in env.items():
      st.inputs[n] = v
    st.frames.append(E.Frame(env, None, None, fname=fake.qual))
    st.spec_depth += 1
    for h in lem.hyps:
      st.assume(eng.truthy(st, eng.ev(h.node, st)))
  try:
    for ci, case in enumerate(cases):
      st = E.State([])
      setup(st)
      if case is not None:
        st.assume(eng.truthy(st, eng.ev(ast.parse(case, mode="eval").body, st)))
      tag = f"/case{ci}:{case}" if case is not None else ""
      st.spec_depth -= 1
      eng.process_hints(st, lem.proof, {}, f"lemma:{lem.name}{tag}/proof", 0)
      st.spec_depth += 1
      for cl in lem.concl:
        g = eng.truthy(st, eng.ev(cl.node, st))
        eng.emit(st, "lemma", f"lemma:{lem.name}{tag}:{cl.text}", g, clause=cl.text)
    if lem.cases:
      st = E.State([])
      setup(st)
      cs = [eng.truthy(st, eng.ev(ast.parse(c, mode="eval").body, st)) for c in lem.cases]
      eng.emit(st, "lemma", f"lemma:{lem.name}/cases-exhaustive", eng.or_(*cs), clause="case split is exhaustive")
    status = dict(status="ok", paths=len(cases), obligations=len(eng.obligations))
  except (E.Unsupported, E.Undecidable) as e:
    status = dict(status="unsupported", reason=str(e))
  for ob in eng.obligations:
    obs.append(dict(label=ob.label, kind=ob.kind, func=fake.target, clause=ob.clause, line=0, path="",
                    smt2=ob.smt2(), inputs={k: str(v) for k, v in ob.inputs.items()}, note=""))
  return dict(target=fake.target, result=status, obligations=obs, abstracted=[], assumed=[],
              theories=sorted(eng.used_theories), gen_time=time.time() - t0)
