"""Counterexample replay: runs the REAL function from /repo on the solver's model (then on neighbouring inputs) and
evaluates the same contract clauses concretely.  See DESIGN.md 2.8."""
import hashlib
import importlib
import json
import os
import random
import signal
import sys
import time

from . import contracts as C, concrete

VERIF = os.path.dirname(os.path.dirname(os.path.abspath(__file__)))


def _safe(label):
  h = hashlib.sha1(label.encode()).hexdigest()[:10]
  s = "".join(ch if ch.isalnum() else "_" for ch in label)[:60]
  return f"{s}-{h}"


def _to_py(v):
  try:
    import gmpy2
    if isinstance(v, type(gmpy2.mpz(0))):
      return int(v)
  except Exception:
    pass
  if isinstance(v, tuple):
    return tuple(_to_py(x) for x in v)
  if isinstance(v, list):
    return [_to_py(x) for x in v]
  return v


class _Timeout(Exception):
  pass


def _alarm(sig, frm):
  raise _Timeout()


def resolve_function(c):
  """Imports the real function/method object named by the contract target."""
  from . import runtime
  runtime.install()
  modname = c.relpath[:-3].replace("/", ".")
  mod = importlib.import_module(modname)
  obj = mod
  for part in c.qual.split("."):
    obj = getattr(obj, part)
  return obj


def run_case(c, fn, kwargs, prop, time_limit=10, extra_env=None):
  """Calls the real function; returns (violated: bool|None, detail dict). None = precondition false / not evaluable.
  The whole case (clause evaluation included) runs under one wall-clock limit."""
  signal.signal(signal.SIGALRM, _alarm)
  signal.alarm(time_limit + 5)
  try:
    return _run_case(c, fn, kwargs, prop, time_limit, extra_env)
  except _Timeout:
    return None, dict(reason="timeout")
  except MemoryError:
    return None, dict(reason="memory")
  finally:
    signal.alarm(0)


def _run_case(c, fn, kwargs, prop, time_limit=10, extra_env=None):
  env = dict(kwargs)
  if extra_env:
    env.update(extra_env)
  try:
    for cl in c.requires + getattr(c, "ghost_requires", []):
      if not concrete.eval_clause(cl.text, env):
        return None, dict(reason="precondition false")
  except concrete.QuantifierTooLarge as e:
    return None, dict(reason=f"precondition not evaluable concretely: {e}")
  except Exception as e:
    return None, dict(reason=f"precondition not evaluable: {e!r}")
  raise_conds = {}
  try:
    for exc, cl in c.raises.items():
      if cl is not None and cl.serves(prop):
        raise_conds[exc] = concrete.eval_clause(cl.text, env)
  except Exception as e:
    return None, dict(reason=f"raise condition not evaluable: {e!r}")
  old = {}
  for cl in c.ensures:
    for ex in concrete.old_exprs(cl.text):
      try:
        old[ex] = _to_py(concrete.eval_expr(ex, env))
      except Exception:
        pass
  try:
    import copy
    result = _to_py(fn(**copy.deepcopy(kwargs)))
  except _Timeout:
    raise
  except Exception as e:
    name = type(e).__name__
    if name in raise_conds:
      if raise_conds[name]:
        return False, dict(raised=name)
      return True, dict(raised=name, violated=f"raises {name} although not ({c.raises[name].text})")
    if name in c.raises:
      return False, dict(raised=name)
    if c.total and (prop in c.total_props):
      return True, dict(raised=name, message=str(e)[:200], violated=f"unexpected {name} (contract is total)")
    return None, dict(raised=name, reason="exception outside the clauses of this property")
  for exc, cond in raise_conds.items():
    if cond:
      return True, dict(result=repr(result)[:300], violated=f"returned normally although ({c.raises[exc].text})")
  env["result"] = result
  for cl in c.ensures + getattr(c, "ghost_ensures", []):
    if not cl.serves(prop):
      continue
    try:
      ok = concrete.eval_clause(cl.text, env, old=old)
    except concrete.QuantifierTooLarge:
      continue
    except Exception as e:
      return None, dict(reason=f"clause not evaluable: {cl.text}: {e!r}")
    if not ok:
      return True, dict(result=repr(result)[:300], violated=cl.text)
  return False, dict(result=repr(result)[:300])


def _model_value(name, o, m):
  """Rebuilds the value recorded under `name` (scalar, optional, tuple of those) from the model; None if absent."""
  inp = o["inputs"]
  if name in inp:
    v = m.get(inp[name])
    return 0 if v is None else v
  if f"{name}?isnone" in inp:
    isn = m.get(inp[f"{name}?isnone"], True)
    if isn is None:
      isn = True
    return None if isn else _model_value(f"{name}?val", o, m)
  idx = sorted({int(k[len(name) + 1:].split("]")[0]) for k in inp if k.startswith(name + "[") and
                k[len(name) + 1:].split("]")[0].isdigit()})
  if idx:
    return tuple(_model_value(f"{name}[{i}]", o, m) for i in idx)
  return "<absent>"


def model_self_fields(c, o, r):
  m = r.get("model") or {}
  out = {}
  for fname in c.self_fields:
    v = _model_value(f"self.{fname}", o, m)
    out["self_" + fname] = 0 if v == "<absent>" else v
  return out


def model_ghost(c, o, r):
  m = r.get("model") or {}
  return {g: (0 if _model_value("ghost:" + g, o, m) == "<absent>" else _model_value("ghost:" + g, o, m))
          for g in c.ghost_params}


def _arr_from_model(text, n):
  """n elements of an array value printed by z3 (K(Int, c) with nested Store(a, i, v)); unconstrained -> zeros."""
  import re
  vals = [0] * n
  if not isinstance(text, str):
    return vals
  mk = re.search(r"K\(Int, (-?\d+)\)", text)
  if mk:
    vals = [int(mk.group(1))] * n
  elif "Store" not in text:
    return None            # lambda / if-then-else array: not rebuilt
  # Store(Store(K(..), i1, v1), i2, v2): the stores are applied inside-out = left to right in the printed text
  for mi in re.finditer(r", (-?\d+), (-?\d+)\)", text):
    i, v = int(mi.group(1)), int(mi.group(2))
    if 0 <= i < n:
      vals[i] = v
  return vals


def _model_list(name, o, m):
  """list[int] / list[tuple[int, ...]] parameter from the recorded length and element arrays; None if not rebuilt."""
  inp = o["inputs"]
  if f"{name}#len" not in inp:
    return "<absent>"
  n = m.get(inp[f"{name}#len"])
  n = 0 if n is None else int(n)
  if n < 0 or n > 10000:
    return None
  if f"{name}#arr" in inp:
    return _arr_from_model(m.get(inp[f"{name}#arr"]), n)
  comps = sorted(int(k[len(name) + 4:].split("]")[0]) for k in inp if k.startswith(name + "[.][") and k.endswith("#arr"))
  if comps:
    cols = [_arr_from_model(m.get(inp[f"{name}[.][{i}]#arr"]), n) for i in comps]
    if any(cc is None for cc in cols):
      return None
    return [tuple(cc[j] for cc in cols) for j in range(n)]
  return None


def model_kwargs(c, o, r):
  """Projects the model onto the function's parameters (scalars, optional scalars, tuples of scalars, lists of ints and
  lists of int tuples)."""
  m = r.get("model") or {}
  kw = {}
  for name, t in c.params.items():
    v = _model_value(name, o, m)
    if v == "<absent>":
      v = _model_list(name, o, m)
      if v is None or v == "<absent>":
        return None
    kw[name] = v
  return kw


def replay_call_site(c, o, r, prop):
  """Hook obligation `<fn>/at-call:<Callee>@..:<clause>` of a module-level function: the real function is run on the
  model's arguments with the real callee wrapped so that its arguments / result are captured, and the clause is
  evaluated on (parameters, args, ret).  Returns (input, detail) when the clause is false at some call, else None.
  Clauses that mention locals of the function cannot be evaluated from outside and are not replayed."""
  import inspect
  lab = o["label"]
  if "/at-call:" not in lab or "." in c.qual.split("#")[0]:
    return None
  callee_q = lab.split("/at-call:", 1)[1].split("@", 1)[0]
  key = next((k for k in c.on_call if not k.startswith("builtin:") and k.split("::")[1] == callee_q), None)
  if key is None or "." in callee_q:
    return None
  kw = model_kwargs(c, o, r)
  if kw is None:
    return None
  for cl in c.requires:
    if not concrete.eval_clause(cl.text, dict(kw)):
      return None
  cmod = importlib.import_module(key.split("::")[0][:-3].replace("/", "."))
  real = getattr(cmod, callee_q)
  pnames = [p_ for p_ in inspect.signature(real).parameters]
  seen = []

  def wrapper(*a, **k):
    ret = real(*a, **k)
    bound = inspect.signature(real).bind(*a, **k)
    bound.apply_defaults()
    seen.append((tuple(bound.arguments[p_] for p_ in pnames), ret))
    return ret
  fn = resolve_function(c)
  setattr(cmod, callee_q, wrapper)
  try:
    import copy
    try:
      fn(**copy.deepcopy(kw))
    except Exception as e:   # the function may legitimately raise after the call of interest
      pass
  finally:
    setattr(cmod, callee_q, real)
  for args, ret in seen:
    try:
      ok = concrete.eval_clause(o["clause"], dict(kw, args=args, ret=ret))
    except Exception:
      return None
    if not ok:
      return kw, dict(violated=o["clause"], callee=callee_q, args=repr(args)[:300], ret=repr(ret)[:100])
  return None


def _model_kwargs_old(c, o, r):
  m = r.get("model") or {}
  kw = {}
  for name, t in c.params.items():
    if name in o["inputs"]:
      v = m.get(o["inputs"][name])
      if v is None:
        v = 0
      kw[name] = v
    else:
      parts = {k: m.get(v) for k, v in o["inputs"].items() if k.startswith(name + "[") or k.startswith(name + "?")}
      if f"{name}?isnone" in o["inputs"]:
        isn = m.get(o["inputs"][f"{name}?isnone"], True)
        kw[name] = None if isn else m.get(o["inputs"].get(f"{name}?val"), 0)
      elif parts:
        idx = sorted(int(k[len(name) + 1:-1]) for k in parts if k.endswith("]") and k[len(name) + 1:-1].isdigit())
        kw[name] = tuple((parts.get(f"{name}[{i}]") or 0) for i in idx)
      else:
        return None
  return kw


def sample_int(rnd):
  k = rnd.random()
  if k < 0.35:
    return rnd.randrange(0, 40)
  if k < 0.5:
    return rnd.randrange(-20, 300)
  if k < 0.65:
    b = rnd.choice([8, 16, 31, 32, 33, 63, 64, 65, 127, 128, 255, 256, 512])
    return (1 << b) + rnd.choice([-3, -2, -1, 0, 1, 2, 3])
  if k < 0.85:
    return rnd.getrandbits(rnd.choice([12, 20, 40, 64, 100, 256]))
  p = rnd.choice([3, 5, 7, 11, 13, 101, 65537, 2 ** 61 - 1, 2 ** 89 - 1])
  q = rnd.choice([3, 5, 7, 11, 13, 103, 65539, 2 ** 61 - 1, 2 ** 107 - 1])
  return p * q


def neighbour_search(c, fn, kw0, prop, budget_s, seed):
  rnd = random.Random(seed)
  t0 = time.time()
  tries = 0
  names = list(c.params)
  simple = all(c.params[n] in ("int", "bool") for n in names)
  if not simple:
    return None, 0
  # phase 1: small-domain sweep (every parameter in a small range, by increasing maximum), half of the budget
  ints = [n for n in names if c.params[n] == "int"]
  if ints and len(names) <= 4:
    import itertools
    lo = -1 if kw0 is None else -2
    for bound in (2, 4, 8, 12, 20, 40):
      rng = list(range(lo, bound + 1))
      if len(rng) ** len(ints) > 60000:
        break
      for combo in itertools.product(rng, repeat=len(ints)):
        if max(combo) < bound and bound != 2:
          continue          # already tried with a smaller bound
        if time.time() - t0 > budget_s / 2:
          break
        for bools in itertools.product([False, True], repeat=len(names) - len(ints)):
          kw = dict(zip(ints, combo))
          kw.update(dict(zip([n for n in names if n not in ints], bools)))
          tries += 1
          v, d = run_case(c, fn, kw, prop, time_limit=2)
          if v:
            return (kw, d), tries
      if time.time() - t0 > budget_s / 2:
        break
  tries0 = tries
  while time.time() - t0 < budget_s and tries - tries0 < 4000:
    tries += 1
    kw = {}
    for n in names:
      if c.params[n] == "bool":
        kw[n] = rnd.random() < 0.5
      elif kw0 is not None and rnd.random() < 0.3:
        kw[n] = kw0.get(n, 0)
      elif kw0 is not None and rnd.random() < 0.2 and isinstance(kw0.get(n), int):
        kw[n] = kw0[n] + rnd.choice([-2, -1, 1, 2])
      else:
        kw[n] = sample_int(rnd)
    v, d = run_case(c, fn, kw, prop, time_limit=3)
    if v:
      return (kw, d), tries
  return None, tries


def make(prop, o, r, why, tier):
  """Builds the replay file for a failed obligation; returns dict(path, reproduced)."""
  target = o["func"]
  c = C.REGISTRY.get(target)
  out = dict(property=prop, obligation=o["label"], kind=o["kind"], function=target, clause=o["clause"],
             path=o["path"], line=o["line"], why=why,
             solver=dict(verdict=r["status"], backend=r.get("backend"), time=r.get("time"), detail=r.get("detail"),
                         cvc5=r.get("cvc5")),
             model={k: (r.get("model") or {}).get(v) for k, v in o["inputs"].items()},
             smt2=o["smt2"][:20000], reproduced=False, replay=None)
  seed = int(os.environ.get("VERIF_SEED", "0") or 0)
  if c is not None and not target.startswith("lemma:"):
    try:
      fn = resolve_function(c)
      is_method = "." in c.qual
      if not is_method and o["kind"] == "call-site" and r["status"] == "sat":
        try:
          hit = replay_call_site(c, o, r, prop)
        except Exception as e:  # noqa: BLE001
          hit = None
          out["replay_note"] = f"call-site replay error: {e!r}"
        if hit:
          out["reproduced"] = True
          out["replay"] = dict(input={k: _j(x) for k, x in hit[0].items()}, violated=True, detail=hit[1],
                               via="real function run with the callee wrapped")
      elif not is_method:
        kw = model_kwargs(c, o, r) if r["status"] == "sat" else None
        if kw is not None:
          v, d = run_case(c, fn, kw, prop)
          out["replay"] = dict(input={k: _j(x) for k, x in kw.items()}, violated=v, detail=d)
          if v:
            out["reproduced"] = True
        if not out["reproduced"]:
          found, tries = neighbour_search(c, fn, kw, prop, 8 if tier == "quick" else 40, seed)
          out["search"] = dict(tries=tries)
          if found:
            out["reproduced"] = True
            out["replay"] = dict(input={k: _j(x) for k, x in found[0].items()}, violated=True, detail=found[1],
                                 via="neighbour search")
      elif c.qual.endswith(".__init__"):
        # constructor contract: an uninitialised instance of the real class is initialised with the model's arguments
        # and the postconditions are evaluated on it
        import importlib
        mod = importlib.import_module(c.relpath[:-3].replace("/", "."))
        cls = getattr(mod, c.qual.split(".")[0])
        obj = cls.__new__(cls)
        kw = model_kwargs(c, o, r) if r["status"] == "sat" else None
        if kw is not None:
          v, d = run_case(c, lambda **k: obj.__init__(**k), kw, prop, extra_env={"self": obj})
          out["replay"] = dict(input={k: _j(x) for k, x in kw.items()}, violated=v, detail=d,
                               constructed=f"{c.qual.split('.')[0]}({', '.join(f'{k}={x!r}' for k, x in kw.items())})")
          if v:
            out["reproduced"] = True
      elif c.replay_self:
        import importlib
        mod = importlib.import_module(c.relpath[:-3].replace("/", "."))
        ns = dict(vars(mod))
        sf = model_self_fields(c, o, r) if r["status"] == "sat" else {}
        ns.update(sf)
        try:
          obj = eval(c.replay_self, ns)
          meth = getattr(obj, c.qual.split(".")[-1])
          kw = model_kwargs(c, o, r) if r["status"] == "sat" else None
          if kw is not None:
            extra = dict(model_ghost(c, o, r))
            extra["self"] = obj
            v, d = run_case(c, meth, kw, prop, extra_env=extra)
            out["replay"] = dict(input={k: _j(x) for k, x in kw.items()}, self={k: _j(x) for k, x in sf.items()},
                                 ghost={k: _j(x) for k, x in model_ghost(c, o, r).items()}, violated=v, detail=d)
            if v:
              out["reproduced"] = True
        except Exception as e:  # noqa: BLE001
          out["replay_note"] = f"could not build self for the replay: {e!r}"
      else:
        out["replay_note"] = "method of a stateful class: no generic constructor; model reported without replay"
    except Exception as e:
      out["replay_note"] = f"replay harness error: {e!r}"
  path = os.path.join(VERIF, "evidence", "replay", f"{prop}-{_safe(o['label'])}.json")
  with open(path, "w") as f:
    json.dump(out, f, indent=1, default=str)
  return dict(path=os.path.relpath(path, VERIF), reproduced=out["reproduced"])


def _j(x):
  if isinstance(x, bool) or x is None:
    return x
  if isinstance(x, int):
    return x if abs(x) < 2 ** 53 else hex(x)
  if isinstance(x, (tuple, list)):
    return [_j(v) for v in x]
  return repr(x)


def make_simple(prop, label, failure):
  path = os.path.join(VERIF, "evidence", "replay", f"{prop}-{_safe(label + json.dumps(failure, default=str)[:200])}.json")
  with open(path, "w") as f:
    json.dump(dict(property=prop, obligation=label, kind=label.split(":")[0], failure=failure, reproduced=True), f,
              indent=1, default=str)
  return os.path.relpath(path, VERIF)


def _unj(x):
  if isinstance(x, str) and x.startswith("0x"):
    return int(x, 16)
  if isinstance(x, str) and x.startswith("-0x"):
    return -int(x[1:], 16)
  if isinstance(x, list):
    return tuple(_unj(v) for v in x)
  return x


def rerun(path):
  """./check <id> --replay <path>: re-executes a replay file against the current tree."""
  C.load_all()
  d = json.load(open(path if os.path.isabs(path) else os.path.join(VERIF, path)))
  prop = d["property"]
  if d.get("kind") in ("bounded", "ground"):
    from . import registry
    registry.load_all()
    name = d["obligation"].split(":", 1)[1]
    print(f"replay of {d['obligation']}: re-running the registered check")
    if d["kind"] == "ground":
      for g in registry.GROUND:
        if g["name"] == name:
          ok, detail = g["fn"]()
          print("ground", name, "ok" if ok else "FAILS", detail[:500])
          return 0 if ok else 1
    for b in registry.BOUNDED:
      if b["name"] == name:
        ctx = registry.Ctx("quick", int(os.environ.get("VERIF_SEED", "0") or 0), name)
        b["fn"](ctx)
        print("bounded", name, "failures:", json.dumps(ctx.failures[:3], default=str)[:1500])
        return 1 if ctx.failures else 0
    return 3
  c = C.REGISTRY.get(d["function"])
  if c is None or not d.get("replay"):
    print("no concrete input in this replay file; obligation:", d["obligation"])
    print(json.dumps(d.get("solver"), default=str))
    return 1
  fn = resolve_function(c)
  kw = {k: _unj(v) for k, v in d["replay"]["input"].items()}
  extra = None
  if d["replay"].get("self") is not None and c.replay_self:
    import importlib
    mod = importlib.import_module(c.relpath[:-3].replace("/", "."))
    ns = dict(vars(mod))
    ns.update({k: _unj(v) for k, v in d["replay"]["self"].items()})
    obj = eval(c.replay_self, ns)
    fn = getattr(obj, c.qual.split(".")[-1])
    extra = {k: _unj(v) for k, v in (d["replay"].get("ghost") or {}).items()}
    extra["self"] = obj
  v, det = run_case(c, fn, kw, prop, extra_env=extra)
  print(f"replay {d['function']} input={kw} -> violated={v} {det}")
  return 1 if v else 0
